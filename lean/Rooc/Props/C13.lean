/-
C13 — Standard-form conversion preserves the problem.  PROPERTY THEOREMS ONLY (lemmas live in
`Rooc/Proofs/Std{Sem,Layout,Split,Norm,Bounds,Spec,Main,Shape,Extra}.lean`).

The theorems are about `Standardize.standardize` (`Rooc/Standardize.lean`), the very function that is
diffed bit-for-bit against `to_standard_form` at `Float`, here instantiated at `Ext K` (IEEE special
values, exact arithmetic) over an arbitrary linearly ordered field `K`; points live in `K`.
`WF lm` = well-formed continuous model: finite coefficients, consistent sizes, every variable declared
`Real`/`NonNegativeReal` with non-NaN bounds (`±inf` allowed where the type allows it), rows `≤ ≥ =`,
`min` or `max` — i.e. any mix of free, non-negative and bounded variables in any order, any sign of the
right-hand sides, zero coefficients anywhere.  The conversion uses no tolerance (exact sign test).  Vocabulary (`LinFeasible`, `obj`, `StdFeasible`, `stdObj`): `Proofs/StdSem.lean`;
the maps `image` (`p = max x 0`, `m = max (−x) 0`, slacks = residuals) and `preimage` (`x = p − m`):
`Proofs/StdMain.lean`.
-/
import Rooc.Proofs.StdDomain
import Mathlib.Algebra.Order.Field.Rat
import Mathlib.Data.Rat.Floor
import Mathlib.Tactic.NormNum
import Mathlib.Tactic.IntervalCases
namespace Rooc.Props.C13
open Rooc StdSem StdMain Standardize
variable {K : Type} [Field K] [LinearOrder K] [IsStrictOrderedRing K] [FloorRing K]

/-- **total on well-formed models.**  The conversion succeeds. -/
theorem std_total (lm : LinModel (Ext K)) (hW : WF lm) : ∃ sm, standardize lm = .ok sm := by
  obtain ⟨sm, _, _, _, h, _⟩ := standardize_spec lm hW
  exact ⟨sm, h⟩

/-- **fwd.**  Every feasible point of the original has a feasible image in the standard form (free
variables split into two non-negative parts, slack/surplus = residuals), and the recorded objective
`±(c·y) + offset` of the image is the original objective. -/
theorem fwd (lm : LinModel (Ext K)) (hW : WF lm) {sm : StdModel (Ext K)}
    (hs : standardize lm = .ok sm) (x : List K) (hF : LinFeasible lm x) :
    StdFeasible sm (image lm x) ∧ stdObj sm (image lm x) = obj lm x :=
  StdMain.fwd lm hW hs x hF

/-- **bwd.**  Every feasible point of the standard form (equalities, all variables `≥ 0`) maps back, by
`x = p − m`, to a feasible point of the original — rows AND declared bounds — with the same objective
relation. -/
theorem bwd (lm : LinModel (Ext K)) (hW : WF lm) {sm : StdModel (Ext K)}
    (hs : standardize lm = .ok sm) (y : List K) (hF : StdFeasible sm y) :
    LinFeasible lm (preimage lm y) ∧ stdObj sm y = obj lm (preimage lm y) :=
  StdMain.bwd lm hW hs y hF

/-- **bounds_enforced.**  Variable bounds of the original are enforced by rows of the standard form: at
every feasible point of the standard form each original variable lies in its declared domain. -/
theorem bounds_enforced (lm : LinModel (Ext K)) (hW : WF lm) {sm : StdModel (Ext K)}
    (hs : standardize lm = .ok sm) (y : List K) (hF : StdFeasible sm y) (i : Nat) (hi : i < lm.vars.length) :
    ∃ ty, lookup lm.domain (lm.vars.getD i "") = some ty ∧ InDomain ty ((preimage lm y).getD i 0) :=
  (StdMain.bwd lm hW hs y hF).1.dom i hi

/-- **std_shape.**  The result is rectangular (every row and the objective have one coefficient per
variable) and EVERY right-hand side is `≥ 0` — unconditionally, there is no tolerance in the conversion
any more (`EqualityConstraint::new` tests the sign exactly since /repo 947e0f0).  (Equalities and
non-negative variables are what `StdFeasible` means.) -/
theorem std_shape (lm : LinModel (Ext K)) (hW : WF lm) {sm : StdModel (Ext K)} (hs : standardize lm = .ok sm) :
    (∀ r ∈ sm.rows, r.coeffs.length = sm.vars.length) ∧ sm.objective.length = sm.vars.length ∧
    (∀ r ∈ sm.rows, 0 ≤ toK r.rhs) :=
  ⟨(shape lm hW hs).1, (shape lm hW hs).2, StdShape.rhs_nonneg lm hW hs⟩

/-- **objective_both_directions.**  The recorded sign flip and offset make the standard form's objective THE objective
of the original, at every feasible point, in both directions: `flip` is set exactly for `max`, the offset is the
original offset (not negated), and `±(c·y) + offset` (`optimal_tableau.rs:28-33`) equals `obj lm` at the forward
image of every feasible `x` and at the backward image of every feasible `y`. -/
theorem objective_both_directions (lm : LinModel (Ext K)) (hW : WF lm) {sm : StdModel (Ext K)}
    (hs : standardize lm = .ok sm) :
    sm.flip = decide (lm.optType = .max) ∧ sm.offset = lm.offset ∧
    (∀ x, LinFeasible lm x → stdObj sm (image lm x) = obj lm x) ∧
    (∀ y, StdFeasible sm y → stdObj sm y = obj lm (preimage lm y)) := by
  obtain ⟨sm', _, _, _, hstd, _, _, _, _, hoff, hflip⟩ := standardize_spec lm hW
  rw [hs] at hstd; cases hstd
  exact ⟨hflip, hoff, fun x hx => (StdMain.fwd lm hW hs x hx).2, fun y hy => (StdMain.bwd lm hW hs y hy).2⟩

/-- **same_problem.**  The two problems have the same feasibility status and the same optimal value: a number bounds
the original objective over the original feasible set iff it bounds the recorded objective over the standard form's
feasible set (both directions, `≤` and `≥`, so for `min` and for `max`). -/
theorem same_problem (lm : LinModel (Ext K)) (hW : WF lm) {sm : StdModel (Ext K)} (hs : standardize lm = .ok sm) :
    ((∃ x, LinFeasible lm x) ↔ ∃ y, StdFeasible sm y) ∧
    (∀ v : K, (∀ x, LinFeasible lm x → v ≤ obj lm x) ↔ ∀ y, StdFeasible sm y → v ≤ stdObj sm y) ∧
    (∀ v : K, (∀ x, LinFeasible lm x → obj lm x ≤ v) ↔ ∀ y, StdFeasible sm y → stdObj sm y ≤ v) := by
  refine ⟨⟨fun ⟨x, hx⟩ => ⟨_, (StdMain.fwd lm hW hs x hx).1⟩, fun ⟨y, hy⟩ => ⟨_, (StdMain.bwd lm hW hs y hy).1⟩⟩, ?_, ?_⟩
  · intro v
    constructor
    · intro h y hy
      obtain ⟨h1, h2⟩ := StdMain.bwd lm hW hs y hy
      rw [h2]; exact h _ h1
    · intro h x hx
      obtain ⟨h1, h2⟩ := StdMain.fwd lm hW hs x hx
      rw [← h2]; exact h _ h1
  · intro v
    constructor
    · intro h y hy
      obtain ⟨h1, h2⟩ := StdMain.bwd lm hW hs y hy
      rw [h2]; exact h _ h1
    · intro h x hx
      obtain ⟨h1, h2⟩ := StdMain.fwd lm hW hs x hx
      rw [← h2]; exact h _ h1

/-- **bound_rows_exact.**  For EVERY continuous variable type the rows added for a variable say exactly what its
declaration says: they hold at `x` (together with `x ≥ 0` for a variable that is kept as a non-negative column) iff
`x` is in the declared domain.  In particular … -/
theorem bound_rows_exact (n i : Nat) (ty : VarType (Ext K)) (hty : StdBounds.BoundsOK ty) (x : List K)
    (hx : x.length = n) (hi : i < n) :
    ((∀ r ∈ boundRows n i ty, StdBounds.RowHolds r x) ∧ (isFree ty = false → 0 ≤ x.getD i 0)) ↔ InDomain ty (x.getD i 0) :=
  StdBounds.boundRows_sem n i ty hty x hx hi

/-- … **bound_rows_present**: a finite lower bound of a `Real` variable gives the row `x ≥ lo` — ALSO for `lo = 0`
(a `Real(0, hi)` variable is split into `p − m`, nothing else keeps it non-negative); a finite upper bound gives
`x ≤ hi` for both kinds; a `NonNegativeReal` lower bound gives `x ≥ lo` exactly when `lo ≠ 0`; free and plain
non-negative variables get no row. -/
theorem bound_rows_present (n i : Nat) :
    (∀ (l : K) (hi : Ext K), ({ name := "", coeffs := unitRow n i, cmp := .ge, rhs := .fin l } : LinRow (Ext K)) ∈
        boundRows n i (.real (.fin l) hi)) ∧
    (∀ (lo : Ext K) (u : K), ({ name := "", coeffs := unitRow n i, cmp := .le, rhs := .fin u } : LinRow (Ext K)) ∈
        boundRows n i (.real lo (.fin u))) ∧
    (∀ (l : K) (hi : Ext K), l ≠ 0 → ({ name := "", coeffs := unitRow n i, cmp := .ge, rhs := .fin l } : LinRow (Ext K)) ∈
        boundRows n i (.nnreal (.fin l) hi)) ∧
    (∀ (lo : Ext K) (u : K), ({ name := "", coeffs := unitRow n i, cmp := .le, rhs := .fin u } : LinRow (Ext K)) ∈
        boundRows n i (.nnreal lo (.fin u))) ∧
    boundRows n i (VarType.real (Ext.ninf : Ext K) Ext.pinf) = [] ∧
    boundRows n i (VarType.nnreal (Ext.fin (0:K)) Ext.pinf) = [] :=
  ⟨StdExtra.boundRows_real_lower n i, StdExtra.boundRows_real_upper n i, fun l hi hl => StdExtra.boundRows_nnreal_lower n i l hl hi,
   StdExtra.boundRows_nnreal_upper n i, StdExtra.boundRows_free n i, StdExtra.boundRows_nonneg n i⟩

/-- **remove_many_positional.**  `utils::remove_many` removes exactly the listed POSITIONS and keeps everything else in
order … -/
theorem remove_many_positional {β : Type} (l : List β) (idx : List Nat) :
    removeMany l idx = (l.zipIdx.filter (fun p => !(idx.contains p.2))).map (·.1) :=
  StdExtra.removeMany_spec l idx

/-- … and the whole free-variable bookkeeping of `to_standard_form` ("append `c, −c` for every free variable, then
remove the free columns by index") turns a vector into `kept columns ++ (c, −c pairs of the free columns)`, whatever
the positions of the free variables are (adjacent, separated by one or by many kept columns, first, last). -/
theorem free_split_positional {α : Type} [Arith α] (fl : List Bool) (r : List α) (h : r.length = fl.length) :
    (splitAll (StdLayout.flagsIdx 0 fl) r).map (fun c => removeMany c (StdLayout.flagsIdx 0 fl)) =
      some (StdLayout.keep fl r ++ StdLayout.pairs StdLayout.pm fl r) :=
  StdLayout.split_closed fl r h

/-- **domain_order_irrelevant.**  `to_standard_form` looks every variable up BY NAME: the order of the domain map plays no
role — two domains with the same entries (distinct names) in any order give the same standard form, column by column.
(Every compiled model has a domain order different from its variable order: the linearizer sorts the names.)  Stated for
any number type, so also for the `Float` instantiation that is diffed against the code. -/
theorem domain_order_irrelevant {α : Type} [Arith α] (lm : LinModel α) (d1 d2 : List (DomVar α)) (hp : d1.Perm d2)
    (hnd : (d1.map (·.name)).Nodup) :
    standardize { lm with domain := d1 } = standardize { lm with domain := d2 } :=
  StdDomain.standardize_perm lm d1 d2 hp hnd

/-- **keeps_every_row.**  The standard form has one row per row of the model plus one per bound row:
`StandardLinearModel::new` and `normalize_constraint` drop nothing — whatever the coefficients of the row are. -/
theorem keeps_every_row (lm : LinModel (Ext K)) (hW : WF lm) {sm : StdModel (Ext K)} (hs : standardize lm = .ok sm) :
    sm.rows.length = lm.rows.length + (StdSpec.boundsOf lm.vars.length 0 (StdSpec.tys lm)).length :=
  StdExtra.rows_count lm hW hs

/-- **contradiction_row_kept.**  In particular a row in which no variable appears and whose comparison is false
(`0 = b` with `b ≠ 0`, `0 ≤ b` with `b < 0`, …) makes the standard form infeasible, as it makes the original. -/
theorem contradiction_row_kept (lm : LinModel (Ext K)) (hW : WF lm) {sm : StdModel (Ext K)}
    (hs : standardize lm = .ok sm) (r : LinRow (Ext K)) (hr : r ∈ lm.rows) (hz : ∀ c ∈ r.coeffs, toK c = 0)
    (hfalse : ¬ cmpHolds r.cmp 0 (toK r.rhs)) : ¬ ∃ y, StdFeasible sm y := by
  rintro ⟨y, hy⟩
  obtain ⟨hF, -⟩ := StdMain.bwd lm hW hs y hy
  have := hF.rows r hr
  have hval : ∀ (cs : List (Ext K)) (x : List K), (∀ c ∈ cs, toK c = 0) → rowVal cs x = 0 := by
    intro cs
    induction cs with
    | nil => intro x _; simp [rowVal]
    | cons c cs ih =>
      intro x h
      cases x with
      | nil => simp [rowVal]
      | cons v vs => simp [rowVal, h c (by simp), ih vs (fun c' hc' => h c' (List.mem_cons_of_mem _ hc'))]
  rw [hval r.coeffs _ hz] at this
  exact hfalse this

/-! ### Non-vacuity and the regression example (over `ℚ`) -/
section examples

/-- `max x − y  s.t.  2x + y ≤ 4,  x ≥ 0 with upper bound 3,  y free`. -/
def lm0 : LinModel (Ext ℚ) :=
  { optType := .max, objective := [.fin 1, .fin (-1)], offset := .fin 5, vars := ["x", "y"],
    domain := [{ name := "x", ty := .nnreal (.fin 0) (.fin 3), usage := 1 }, { name := "y", ty := .real .ninf .pinf, usage := 1 }],
    rows := [{ name := "", coeffs := [.fin 2, .fin 1], cmp := .le, rhs := .fin 4 }] }

theorem lm0_wf : WF lm0 := by
  refine ⟨rfl, ?_, ?_, ?_, ?_, ?_, ?_, ?_, ?_, ?_, Or.inr rfl⟩
  · simp [lm0, isFin]
  · simp [lm0, isFin]
  · simp [lm0]
  · simp [lm0, isFin]
  · simp [lm0]
  · simp [lm0, lookup]
  · simp [lm0, isContinuous]
  · simp [lm0, isFin]
  · simp [lm0, isFin]

theorem lm0_feasible : LinFeasible lm0 [1, -2] := by
  refine ⟨rfl, ?_, ?_⟩
  · simp [lm0, cmpHolds, rowVal, toK]
  · intro i hi
    have : i = 0 ∨ i = 1 := by simp [lm0] at hi; omega
    rcases this with rfl | rfl
    · refine ⟨.nnreal (.fin 0) (.fin 3), by simp [lm0, lookup], ?_⟩
      simp [InDomain, Ext.le]
    · refine ⟨.real .ninf .pinf, by simp [lm0, lookup], ?_⟩
      simp [InDomain, Ext.le]

/-- the hypotheses of `fwd`/`bwd`/`std_shape` are jointly satisfiable: a well-formed model with a bounded
non-negative variable BEFORE a free one, a feasible point with a negative free coordinate, a successful
conversion and a feasible image. -/
example : ∃ sm, standardize lm0 = .ok sm ∧ StdFeasible sm (image lm0 [1, -2]) ∧
    stdObj sm (image lm0 [1, -2]) = obj lm0 [1, -2] := by
  obtain ⟨sm, hs⟩ := std_total lm0 lm0_wf
  exact ⟨sm, hs, fwd lm0 lm0_wf hs _ lm0_feasible⟩

/-- regression example for the repaired defect `C13-rhs-sign-within-tolerance` (fixed by /repo 947e0f0):
a right-hand side `−1/200000`, inside the old tolerance band `(-1e-5, 0)`, is negated. -/
example : (eqNew [Ext.fin (2 : ℚ)] (Ext.fin (-1/200000))).rhs = Ext.fin (1/200000) ∧
    (eqNew [Ext.fin (2 : ℚ)] (Ext.fin (-1/200000))).coeffs = [Ext.fin (-2)] := by
  have h : Arith.lt (Ext.fin (-1/200000 : ℚ) : Ext ℚ) Arith.zero = true := (StdShape.lt_zero_fin _).2 (by norm_num)
  simp only [eqNew, h, if_true]
  constructor
  · simp [Arith.neg, Ext.neg, ExactField.neg]; norm_num
  · simp [Arith.mul, Arith.ofInt, Ext.mul, ExactField.mul, ExactField.ofInt]

/-- `same_problem`, `objective_both_directions` and `keeps_every_row` apply to `lm0` (one row, one bound row for `x ≤ 3`). -/
example : ∃ sm, standardize lm0 = .ok sm ∧ sm.flip = true ∧ sm.rows.length = 2 ∧ ∃ y, StdFeasible sm y := by
  obtain ⟨sm, hs⟩ := std_total lm0 lm0_wf
  obtain ⟨hfl, -, -, -⟩ := objective_both_directions lm0 lm0_wf hs
  refine ⟨sm, hs, by rw [hfl]; rfl, ?_, (same_problem lm0 lm0_wf hs).1.1 ⟨_, lm0_feasible⟩⟩
  rw [keeps_every_row lm0 lm0_wf hs]
  simp [lm0, StdSpec.tys, StdSpec.tyOf, StdSpec.boundsOf, lookup, boundRows, Arith.eq, Arith.ne, Ext.eq, Arith.zero,
    Arith.ofInt, Arith.posInf, Arith.negInf]

/-- `x − x = 5` in spirit: `max x − y s.t. 0·x + 0·y = 5` — `contradiction_row_kept` applies. -/
def lmC : LinModel (Ext ℚ) := { lm0 with rows := [{ name := "", coeffs := [.fin 0, .fin 0], cmp := .eq, rhs := .fin 5 }] }

example : ∃ sm, standardize lmC = .ok sm ∧ ¬ ∃ y, StdFeasible sm y := by
  have hW : WF lmC := by
    refine ⟨rfl, ?_, ?_, ?_, ?_, ?_, ?_, ?_, ?_, ?_, Or.inr rfl⟩
    · simp [lmC, lm0, isFin]
    · simp [lmC, lm0, isFin]
    · simp [lmC, lm0]
    · simp [lmC, isFin]
    · simp [lmC]
    · simp [lmC, lm0, lookup]
    · simp [lmC, lm0, isContinuous]
    · simp [lmC, lm0, isFin]
    · simp [lmC, lm0, isFin]
  obtain ⟨sm, hs⟩ := std_total lmC hW
  refine ⟨sm, hs, contradiction_row_kept lmC hW hs
    { name := "", coeffs := [.fin 0, .fin 0], cmp := .eq, rhs := .fin 5 } (by simp [lmC]) (by simp [toK]) ?_⟩
  simp [cmpHolds, toK]

/-- `domain_order_irrelevant` applies to `lm0` with its two domain entries swapped. -/
example : standardize { lm0 with domain := lm0.domain.reverse } = standardize lm0 :=
  (domain_order_irrelevant lm0 lm0.domain lm0.domain.reverse (List.reverse_perm _).symm (by decide)).symm

end examples
end Rooc.Props.C13
