/- C13 — property theorems only (helper lemmas live in `Rooc/Proofs`). -/
namespace Rooc.Props.C13
end Rooc.Props.C13
