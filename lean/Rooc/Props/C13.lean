/- C13 — property theorems (work in progress). -/
import Rooc.Proofs.Field
namespace Rooc.Props.C13
end Rooc.Props.C13
