/-
C08 — Compiled linear models are well-formed; no guessed or non-finite constants.
PROPERTY THEOREMS ONLY (helper lemmas live in `Rooc/Proofs/WF*.lean`).

`Lin.linearizeWith m b d` is the executable port of `Linearizer::linearize` (diffed bit-exactly against the
Rust by `./check C08` / `./check C01`): `m` the source model, `b` the bounds map and `d` the tightened domain
produced by bound inference.  `WF.report m lm` is the decidable well-formedness predicate that the oracle runs
on the IMPLEMENTATION's output; the theorems below say that the model's output satisfies each of its facets,
for every input, over an arbitrary number type `α` (structural facets) and over `Ext K` (finiteness).

Hypotheses on the input are decidable predicates that the front end guarantees
(`Lin.DomainNodup`, `Lin.UsedKept`, `Lin.DeclaredIn`: the domain is an `IndexMap`, and bound tightening only
changes variable *types*).
-/
import Rooc.Proofs.WFFinal
import Rooc.Proofs.WFBounds
import Rooc.Proofs.WFExamples
import Rooc.Proofs.WFCompile
import Rooc.Proofs.WFCompileExamples
import Rooc.Proofs.WFAnalyzerProper
import Rooc.Proofs.RatInst
import Rooc.Proofs.WFPerm
import Rooc.Proofs.WFRel2An
import Rooc.Proofs.RefLemmas
import Rooc.Proofs.WFOccur
import Rooc.Proofs.WFCompileOrdered
import Rooc.Proofs.WFErrKind
import Rooc.Proofs.WFCollapse
import Rooc.LinErrText
import Rooc.Gen.LinConsts
namespace Rooc.Props.C08
open Rooc Rooc.Lin Rooc.WFDedup Rooc.Lin.Examples

variable {α : Type} [Arith α]

/-! ### 1. the variable list is strictly sorted, hence duplicate-free -/

/-- `lm.vars` is strictly increasing.  Rests on the state invariant "domain names are pairwise distinct",
preserved by every action of the linearizer because `declareVariable` refuses an existing name. -/
theorem vars_sorted_nodup {m : Model α} {b : BoundsMap α} {d : List (DomVar α)} {lm : LinModel α}
    (hd : DomainNodup d = true) (h : linearizeWith m b d = .ok lm) :
    (WF.report m lm).varsSortedUnique = true := by
  obtain ⟨obj, s, hr, _, rfl⟩ := run_struct h
  exact vars_sorted_of_nodup (hr.nodup ((WFList.noDup_iff _).mp hd))

/-- … in particular it has no duplicates. -/
theorem vars_nodup {m : Model α} {b : BoundsMap α} {d : List (DomVar α)} {lm : LinModel α}
    (hd : DomainNodup d = true) (h : linearizeWith m b d = .ok lm) : lm.vars.Nodup :=
  WFList.nodup_of_sortedStrict (vars_sorted_nodup hd h)

/-- non-vacuity: `min x s.t. c1: x >= 1` satisfies the hypothesis and compiles (`Examples.exA_compiles`). -/
example : ∃ lm, linearizeWith exA exAb exA.domain = .ok lm ∧ DomainNodup exA.domain = true ∧
    (WF.report exA lm).varsSortedUnique = true ∧ lm.vars.Nodup :=
  ⟨_, exA_compiles, exA_hyps.1, vars_sorted_nodup exA_hyps.1 exA_compiles, vars_nodup exA_hyps.1 exA_compiles⟩

/-! ### 2. variables = domain keys; one coefficient per variable -/

/-- every variable has a domain entry, every domain entry is a variable, and the domain keys are distinct. -/
theorem vars_eq_domain_keys {m : Model α} {b : BoundsMap α} {d : List (DomVar α)} {lm : LinModel α}
    (hd : DomainNodup d = true) (h : linearizeWith m b d = .ok lm) :
    (WF.report m lm).varsEqDomainKeys = true := by
  obtain ⟨obj, s, hr, _, rfl⟩ := run_struct h
  exact vars_eq_keys_of_nodup (hr.nodup ((WFList.noDup_iff _).mp hd))

/-- every row has exactly one coefficient per variable (`extract_coeffs` only overwrites positions). -/
theorem row_lengths {m : Model α} {b : BoundsMap α} {d : List (DomVar α)} {lm : LinModel α}
    (h : linearizeWith m b d = .ok lm) : (WF.report m lm).rowLengths = true := by
  obtain ⟨obj, s, _, _, rfl⟩ := run_struct h
  exact row_lengths_assemble m obj s

/-- the objective has exactly one coefficient per variable. -/
theorem objective_length {m : Model α} {b : BoundsMap α} {d : List (DomVar α)} {lm : LinModel α}
    (h : linearizeWith m b d = .ok lm) : (WF.report m lm).objectiveLength = true := by
  obtain ⟨obj, s, _, _, rfl⟩ := run_struct h
  exact objective_length_assemble m obj s

example : ∃ lm, linearizeWith exA exAb exA.domain = .ok lm ∧ (WF.report exA lm).varsEqDomainKeys = true ∧
    (WF.report exA lm).rowLengths = true ∧ (WF.report exA lm).objectiveLength = true :=
  ⟨_, exA_compiles, vars_eq_domain_keys exA_hyps.1 exA_compiles, row_lengths exA_compiles,
    objective_length exA_compiles⟩

/-! ### 3. no used source variable is dropped -/

/-- every declared variable with a usage mark is in `lm.vars`: the domain only grows and usage marks are
never reset. -/
theorem source_vars_present {m : Model α} {b : BoundsMap α} {d : List (DomVar α)} {lm : LinModel α}
    (hk : UsedKept m d = true) (h : linearizeWith m b d = .ok lm) :
    (WF.report m lm).sourceVarsPresent = true := by
  obtain ⟨obj, s, hr, _, rfl⟩ := run_struct h
  exact source_vars_present_of_rel hr hk

example : ∃ lm, linearizeWith exA exAb exA.domain = .ok lm ∧ UsedKept exA exA.domain = true ∧
    (WF.report exA lm).sourceVarsPresent = true :=
  ⟨_, exA_compiles, exA_hyps.2.1, source_vars_present exA_hyps.2.1 exA_compiles⟩

/-! ### 4. row names -/

/-- the non-empty row names of the output are pairwise distinct (the bounded candidate search of the
de-duplication always finds a free `name__k`: pigeonhole, `WFDedup.exists_free`). -/
theorem names_unique {m : Model α} {b : BoundsMap α} {d : List (DomVar α)} {lm : LinModel α}
    (h : linearizeWith m b d = .ok lm) : (WF.report m lm).namesUnique = true := by
  obtain ⟨obj, s, _, _, rfl⟩ := run_struct h
  exact names_unique_assemble m obj s

/-- every output row name is a name the user wrote, or `name__k` for such a name. -/
theorem user_names_kept {m : Model α} {b : BoundsMap α} {d : List (DomVar α)} {lm : LinModel α}
    (h : linearizeWith m b d = .ok lm) : (WF.report m lm).userNamesKept = true := by
  obtain ⟨obj, s, _, hok, rfl⟩ := run_struct h
  exact user_names_kept_of_ok hok

example : ∃ lm, linearizeWith exA exAb exA.domain = .ok lm ∧ (WF.report exA lm).namesUnique = true ∧
    (WF.report exA lm).userNamesKept = true :=
  ⟨_, exA_compiles, names_unique exA_compiles, user_names_kept exA_compiles⟩

/-- the de-duplication touches nothing but names; a changed name is `name__k` (`k ≥ 2`) for the name the
row had, and is NOT a name any row had before (so it never equals a user-written name). -/
theorem dedup_only_renames (rows : List (MidRow α)) :
    List.Forall₂ (fun r o => o.lhs = r.lhs ∧ o.rhs = r.rhs ∧ o.cmp = r.cmp ∧
      (o.name = r.name ∨ (r.name ≠ "" ∧ o.name ∉ nonEmptyNames rows ∧ ∃ k, o.name = r.name ++ "__" ++ toString (k + 2))))
      rows (dedupNames rows) :=
  dedupNames_rel rows

/-- the first use of each user-written name is kept verbatim. -/
theorem dedup_first_use_kept (pre post : List (MidRow α)) (r : MidRow α)
    (hne : r.name ≠ "") (hfirst : ∀ q ∈ pre, q.name ≠ r.name) :
    (dedupNames (pre ++ r :: post))[pre.length]? = some r :=
  dedupNames_first_kept pre post r hne hfirst

/-- after de-duplication the non-empty names are pairwise distinct, for every list of rows. -/
theorem dedup_names_nodup (rows : List (MidRow α)) : (nonEmptyNames (dedupNames rows)).Nodup :=
  dedupNames_nodup rows

/-- non-vacuity of `dedup_first_use_kept`: rows named `a, a` — the first `a` is kept (the second becomes
`a__2`, which `dedup_only_renames` / `dedup_names_nodup` describe). -/
example : (dedupNames ([] ++ (⟨"a", [], Ext.fin 0, .le⟩ : MidRow (Ext Rat)) :: [⟨"a", [], Ext.fin 0, .le⟩]))[0]? =
    some ⟨"a", [], Ext.fin 0, .le⟩ :=
  dedup_first_use_kept [] _ _ (by decide) (by simp)

/-! ### 5. auxiliaries never collide with user variables -/

/-- every output variable is declared in the source or is a `$`-prefixed auxiliary. -/
theorem aux_disjoint {m : Model α} {b : BoundsMap α} {d : List (DomVar α)} {lm : LinModel α}
    (hdecl : DeclaredIn m d = true) (h : linearizeWith m b d = .ok lm) :
    (WF.report m lm).auxDisjoint = true := by
  obtain ⟨obj, s, hr, _, rfl⟩ := run_struct h
  exact aux_disjoint_of_rel hr hdecl

example : ∃ lm, linearizeWith exA exAb exA.domain = .ok lm ∧ DeclaredIn exA exA.domain = true ∧
    (WF.report exA lm).auxDisjoint = true :=
  ⟨_, exA_compiles, exA_hyps.2.2.1, aux_disjoint exA_hyps.2.2.1 exA_compiles⟩

/-- `declare_variable` never shadows: asked to declare a name that is already in the domain (for instance a
user variable literally called `$abs_0`) it fails with `VarAlreadyDeclared` and changes nothing. -/
theorem declare_never_shadows (name : String) (ty : VarType α) (s : St α)
    (h : name ∈ s.domain.map (·.name)) :
    declareVariable name ty s = .error (.varAlreadyDeclared name) :=
  declareVariable_existing name ty s h

/-- concretely: a model that declares a variable `$abs_0` and needs the exact lowering of `|x|` does not
compile — `VarAlreadyDeclared "$abs_0"` — rather than letting the auxiliary collide with the user's variable. -/
theorem aux_name_taken_fails :
    linearizeWith exD exDb exD.domain = .error (.varAlreadyDeclared "$abs_0") := exD_fails

/-- the compiled domain is the input domain followed by auxiliaries — each `$`-prefixed, marked used, with a
name different from every input name and from every other auxiliary — filtered to the used variables. -/
theorem domain_is_input_plus_fresh_aux {m : Model α} {b : BoundsMap α} {d : List (DomVar α)} {lm : LinModel α}
    (hd : DomainNodup d = true) (h : linearizeWith m b d = .ok lm) :
    ∃ added : List (DomVar α),
      lm.domain = (d ++ added).filter (fun v => lm.vars.contains v.name) ∧
      (∀ v ∈ added, v.usage = 1 ∧ WF.isAuxName v.name = true ∧ v.name ∉ d.map (·.name)) ∧
      (added.map (·.name)).Nodup := by
  obtain ⟨obj, s, hr, _, rfl⟩ := run_struct h
  obtain ⟨added, hdom, hadd⟩ := hr.grow
  have hnd := hr.nodup ((WFList.noDup_iff _).mp hd)
  have hnd' : (d.map (·.name) ++ added.map (·.name)).Nodup := by
    have : domNames s = d.map (·.name) ++ added.map (·.name) := by
      unfold domNames; rw [hdom]; simp [initSt]
    rw [← this]; exact hnd
  rw [List.nodup_append] at hnd'
  refine ⟨added, ?_, ?_, hnd'.2.1⟩
  · show s.domain.filter (fun v => (assemble m obj s).vars.contains v.name) = _
    rw [hdom]; rfl
  · intro v hv
    refine ⟨(hadd v hv).1, (hadd v hv).2, ?_⟩
    intro hin
    exact hnd'.2.2 _ hin _ (List.mem_map.mpr ⟨v, hv, rfl⟩) rfl

example : ∃ lm, linearizeWith exA exAb exA.domain = .ok lm ∧ ∃ added : List (DomVar (Ext Rat)),
    lm.domain = (exA.domain ++ added).filter (fun v => lm.vars.contains v.name) :=
  ⟨_, exA_compiles, (domain_is_input_plus_fresh_aux exA_hyps.1 exA_compiles).imp fun _ h => h.1⟩

/-! ### all structural facets at once -/

/-- every facet of the oracle's report except finiteness, for every number type. -/
theorem report_ok_structural {m : Model α} {b : BoundsMap α} {d : List (DomVar α)} {lm : LinModel α}
    (hd : DomainNodup d = true) (hk : UsedKept m d = true) (hdecl : DeclaredIn m d = true)
    (h : linearizeWith m b d = .ok lm) :
    (WF.report m lm).ok false = true := by
  simp only [WF.Report.ok, Bool.and_eq_true, Bool.or_eq_true, Bool.not_false, or_true, and_true]
  exact ⟨⟨⟨⟨⟨⟨⟨vars_sorted_nodup hd h, vars_eq_domain_keys hd h⟩, row_lengths h⟩, objective_length h⟩,
    names_unique h⟩, source_vars_present hk h⟩, user_names_kept h⟩, aux_disjoint hdecl h⟩

example : ∃ lm, linearizeWith exA exAb exA.domain = .ok lm ∧ (WF.report exA lm).ok false = true :=
  ⟨_, exA_compiles, report_ok_structural exA_hyps.1 exA_hyps.2.1 exA_hyps.2.2.1 exA_compiles⟩

/-! ### 6. finiteness of every emitted constant -/

/-- `finite_out` holds when the source has no non-finite literal: every coefficient, right-hand side and the
offset of the compiled model are finite.  No hypothesis on the bounds map is needed: every big-M constant is
built from derived bounds only AFTER the linearizer has checked them finite (otherwise it fails with
`missingFiniteBounds`), a division by a zero literal is rejected, and in `Ext K` finite ∘ finite is finite for
`+ − ×`, `÷` by a non-zero, `max`/`min` of a non-empty list (`closed_isFinite`).  `K` is ANY `ExactField`
(`Rat`, or an ordered field through `Rooc/Proofs/Field.lean`); the hypothesis is genuinely needed, see
`finite_out_counterexample`. -/
theorem finite_out_partial {K : Type} [ExactField K] {m : Model (Ext K)} {b : BoundsMap (Ext K)}
    {d : List (DomVar (Ext K))} {lm : LinModel (Ext K)}
    (hfin : FiniteLits m = true) (h : linearizeWith m b d = .ok lm) :
    (WF.report m lm).finite = true := by
  have hp := closed_isFinite K
  simp only [FiniteLits, Bool.and_eq_true] at hfin
  obtain ⟨obj, s, _, hok, hobj, rfl⟩ :=
    linearizeWith_run (N := fun _ => True) trivial hp (simpOK_of_closed hp) (bTrack_off _) hfin.1
      ⟨stOK_init_of_finiteLits b d (by simp only [FiniteLits, Bool.and_eq_true]; exact hfin), bOK_off _ _⟩ h
  exact finite_of_ok hp hok.1 hobj

example : ∃ lm, linearizeWith exA exAb exA.domain = .ok lm ∧ FiniteLits exA = true ∧
    (WF.report exA lm).finite = true :=
  ⟨_, exA_compiles, exA_hyps.2.2.2, finite_out_partial exA_hyps.2.2.2 exA_compiles⟩

/-- the hypothesis `FiniteLits` cannot be dropped (confirmed defect of rooc, known finding
`C08-infinity-literal`): `min x s.t. Infinity * x >= 1` satisfies every other hypothesis, compiles, and its
single row has the coefficient `+inf` (and the right-hand side `NaN`). -/
theorem finite_out_counterexample :
    ∃ (m : Model (Ext Rat)) (b : BoundsMap (Ext Rat)) (d : List (DomVar (Ext Rat))) (lm : LinModel (Ext Rat)),
      DomainNodup d = true ∧ UsedKept m d = true ∧ DeclaredIn m d = true ∧ FiniteLits m = false ∧
      linearizeWith m b d = .ok lm ∧ (WF.report m lm).finite = false ∧
      lm.rows.map (·.coeffs) = [[Ext.pinf]] :=
  ⟨exB, exAb, exB.domain, _, by decide, by decide, by decide,
    by simp [FiniteLits, exB, infx, allLits, Arith.isFinite, Ext.isFinite], exB_compiles, exB_not_finite, by decide⟩

/-- with all hypotheses, the whole report (finiteness included) is green. -/
theorem report_ok_partial {K : Type} [ExactField K] {m : Model (Ext K)} {b : BoundsMap (Ext K)}
    {d : List (DomVar (Ext K))} {lm : LinModel (Ext K)}
    (hd : DomainNodup d = true) (hk : UsedKept m d = true) (hdecl : DeclaredIn m d = true)
    (hfin : FiniteLits m = true) (h : linearizeWith m b d = .ok lm) :
    (WF.report m lm).ok true = true := by
  have h1 := report_ok_structural hd hk hdecl h
  have h2 := finite_out_partial hfin h
  simp only [WF.Report.ok, Bool.and_eq_true, Bool.or_eq_true, Bool.not_false, or_true, and_true] at h1
  simp only [WF.Report.ok, Bool.and_eq_true, Bool.or_eq_true, Bool.not_true, Bool.false_eq_true, or_false]
  exact ⟨⟨⟨⟨⟨⟨⟨⟨h1.1.1.1.1.1.1.1, h1.1.1.1.1.1.1.2⟩, h1.1.1.1.1.1.2⟩, h1.1.1.1.1.2⟩, h2⟩, h1.1.1.1.2⟩,
    h1.1.1.2⟩, h1.1.2⟩, h1.2⟩

example : ∃ lm, linearizeWith exA exAb exA.domain = .ok lm ∧ (WF.report exA lm).ok true = true :=
  ⟨_, exA_compiles, report_ok_partial exA_hyps.1 exA_hyps.2.1 exA_hyps.2.2.1 exA_hyps.2.2.2 exA_compiles⟩

/-! ### 7. the missing-bounds error names the unbounded variables -/

/-- the payload of `MissingFiniteBounds` — `varsWithoutFiniteBounds e bm` for the expression `e` being
lowered and the current bounds map `bm` — is strictly sorted (hence duplicate-free) and consists EXACTLY of
the variables of `e` whose lower or upper bound in the map is not finite (a variable without an entry is
unbounded). -/
theorem missing_bounds_payload_spec (e : Exp α) (bm : BoundsMap α) :
    WF.sortedStrict (varsWithoutFiniteBounds e bm) = true ∧
    ∀ x, x ∈ varsWithoutFiniteBounds e bm ↔
      x ∈ expVars e ∧
        ¬ (Arith.isFinite (varBounds bm x).lower = true ∧ Arith.isFinite (varBounds bm x).upper = true) :=
  ⟨varsWithoutFiniteBounds_sorted e bm, fun _ => mem_varsWithoutFiniteBounds⟩

/-- `|e|` in a context that needs its exact value, with an operand of unknown sign whose derived bound is not
finite: the lowering fails with `MissingFiniteBounds (varsWithoutFiniteBounds e bounds)` — before anything
is emitted, so no big-M constant is guessed. -/
theorem missing_bounds_error_names_unbounded (e : Exp α) (req : Req) (s : St α)
    (hlo : Arith.ge (boundsOf s.bounds e).lower Arith.zero = false)
    (hup : Arith.le (boundsOf s.bounds e).upper Arith.zero = false)
    (hreq : req ≠ .lower)
    (hinf : (Arith.isFinite (boundsOf s.bounds e).lower && Arith.isFinite (boundsOf s.bounds e).upper) = false) :
    linExp (.abs e) req s = .error (.missingFiniteBounds (varsWithoutFiniteBounds e s.bounds)) :=
  abs_missing_bounds e req s hlo hup hreq hinf

/-- the same for `min` / `max` with at least two non-dominated operands outside the cheap one-sided context
(`max` under `≤`/minimise, `min` under `≥`/maximise): if a bound the exact selector encoding needs is not
finite, the lowering fails with `MissingFiniteBounds` naming the unbounded variables of the retained
`min`/`max`. -/
theorem missing_bounds_error_names_unbounded_extreme (kind : ExtKind) (es : List (Exp α)) (req : Req) (s : St α)
    (hne : es.isEmpty = false)
    (h0 : (((extFlags kind es s.bounds).filter id).length == 0) = false)
    (h1 : (((extFlags kind es s.bounds).filter id).length == 1) = false)
    (hside : ((kind == .max && req == .lower) || (kind == .min && req == .higher)) = false)
    (hfin : extHasFinite kind es s.bounds = false) :
    linExtreme kind es req s =
      .error (.missingFiniteBounds (varsWithoutFiniteBounds (extRetained kind es s.bounds) s.bounds)) :=
  extreme_missing_bounds kind es req s hne h0 h1 hside hfin

/-- non-vacuity, end to end: `min x s.t. |x| >= 1` with `x` a free real does not compile; the error is
`MissingFiniteBounds ["x"]`. -/
theorem missing_bounds_example :
    linearizeWith exC exCb exC.domain = .error (.missingFiniteBounds ["x"]) := exC_fails

/-- GLOBAL form.  Whenever compilation fails with `MissingFiniteBounds vs` — raised by an `abs`, `min` or
`max` at any depth, in the objective, in a source constraint or in a constraint the linearizer generated —
`vs` is strictly sorted and there are an expression `e` (the one being lowered) and a bounds map `bm` (the one
of that moment, equal to the input map `b` on every variable of the input domain) such that `vs` consists
EXACTLY of the variables of `e` whose lower or upper bound in `bm` is not finite. -/
theorem missing_bounds_error_global {m : Model α} {b : BoundsMap α} {d : List (DomVar α)} {vs : List String}
    (h : linearizeWith m b d = .error (.missingFiniteBounds vs)) :
    WF.sortedStrict vs = true ∧
    ∃ (e : Exp α) (bm : BoundsMap α),
      (∀ x ∈ d.map (·.name), varBounds bm x = varBounds b x) ∧
      ∀ x, x ∈ vs ↔ x ∈ expVars e ∧
        ¬ (Arith.isFinite (varBounds bm x).lower = true ∧ Arith.isFinite (varBounds bm x).upper = true) := by
  obtain ⟨e, bm, rfl, hbm⟩ := missing_bounds_global h
  refine ⟨varsWithoutFiniteBounds_sorted e bm, e, bm, ?_, fun _ => mem_varsWithoutFiniteBounds⟩
  intro x hx
  unfold varBounds
  rw [hbm x hx]

/-- in particular: every SOURCE variable the error names really is unbounded in the bounds map the
linearizer was given — the error never blames a variable whose derived range is finite. -/
theorem missing_bounds_error_blames_unbounded {m : Model α} {b : BoundsMap α} {d : List (DomVar α)}
    {vs : List String} (h : linearizeWith m b d = .error (.missingFiniteBounds vs)) :
    ∀ x ∈ vs, x ∈ d.map (·.name) →
      ¬ (Arith.isFinite (varBounds b x).lower = true ∧ Arith.isFinite (varBounds b x).upper = true) := by
  obtain ⟨_, e, bm, hbm, hmem⟩ := missing_bounds_error_global h
  intro x hx hd
  rw [← hbm x hd]
  exact ((hmem x).mp hx).2

example : ¬ (Arith.isFinite (varBounds exCb "x").lower = true ∧ Arith.isFinite (varBounds exCb "x").upper = true) :=
  missing_bounds_error_blames_unbounded missing_bounds_example "x" (by simp) (by decide)

/-! ### 8. the WHOLE compiler `Compile.linearize`

`Compile.linearize m tol maxSteps` = normalise for bounds → `BoundsAnalyzer::analyze` → `enforceable` →
`apply_to_domain` → `Lin.linearizeWith`.  `apply_to_domain` rewrites variable TYPES only, so the hypotheses
`DomainNodup / UsedKept / DeclaredIn` of the theorems above are discharged: ONE hypothesis on the source is left,
`SourceNodup m` (the declared names are pairwise distinct — `Model.domain` is an `IndexMap` in rooc), and
`FiniteLits m` for the finiteness clause.  Tolerance and step limit of the analyzer are arbitrary. -/

/-- every clause of `WF.report` but finiteness, for the whole compiler and an arbitrary number type:
strictly sorted duplicate-free variables = domain keys (so every variable has a domain entry and vice versa),
one coefficient per variable in every row and in the objective, every used source variable present, pairwise
distinct row names derived from user names only, auxiliaries `$`-prefixed or declared. -/
theorem compile_report_ok_structural {m : Model α} {tol : α} {maxSteps : Nat} {lm : LinModel α}
    (hd : SourceNodup m = true) (h : Compile.linearize m tol maxSteps = .ok lm) :
    (WF.report m lm).ok false = true := by
  obtain ⟨an, hlin⟩ := compile_ok_linearizeWith h
  exact report_ok_structural (domainNodup_apply an hd) (usedKept_apply an m) (declaredIn_apply an m) hlin

/-- the clauses that need NO hypothesis at all on the source, for the whole compiler. -/
theorem compile_lengths_and_names {m : Model α} {tol : α} {maxSteps : Nat} {lm : LinModel α}
    (h : Compile.linearize m tol maxSteps = .ok lm) :
    (WF.report m lm).rowLengths = true ∧ (WF.report m lm).objectiveLength = true ∧
    (WF.report m lm).namesUnique = true ∧ (WF.report m lm).userNamesKept = true ∧
    (WF.report m lm).sourceVarsPresent = true ∧ (WF.report m lm).auxDisjoint = true := by
  obtain ⟨an, hlin⟩ := compile_ok_linearizeWith h
  exact ⟨row_lengths hlin, objective_length hlin, names_unique hlin, user_names_kept hlin,
    source_vars_present (usedKept_apply an m) hlin, aux_disjoint (declaredIn_apply an m) hlin⟩

/-- the compiled domain is the TIGHTENED source domain (same names, same usage marks, in the same order)
followed by fresh `$`-auxiliaries, filtered to the used variables: a user variable is never renamed, merged
with an auxiliary or dropped while used, whatever it is called (hostile names such as `$abs_0`, `$max_1_select_0`
or `a__2` included — then compilation either does not need that auxiliary or fails, `aux_name_taken_fails`). -/
theorem compile_domain_is_source_plus_fresh_aux {m : Model α} {tol : α} {maxSteps : Nat} {lm : LinModel α}
    (hd : SourceNodup m = true) (h : Compile.linearize m tol maxSteps = .ok lm) :
    ∃ (tight added : List (DomVar α)),
      tight.map (fun v => (v.name, v.usage)) = m.domain.map (fun v => (v.name, v.usage)) ∧
      lm.domain = (tight ++ added).filter (fun v => lm.vars.contains v.name) ∧
      (∀ v ∈ added, v.usage = 1 ∧ WF.isAuxName v.name = true ∧ v.name ∉ m.domain.map (·.name)) ∧
      (added.map (·.name)).Nodup := by
  obtain ⟨an, hlin⟩ := compile_ok_linearizeWith h
  obtain ⟨added, h1, h2, h3⟩ := domain_is_input_plus_fresh_aux (domainNodup_apply an hd) hlin
  refine ⟨an.applyToDomain m.domain, added, ?_, h1, ?_, h3⟩
  · simp only [Analyzer.applyToDomain, List.map_map]
    exact List.map_congr_left (fun d _ => by simp [applyToVar_name', applyToVar_usage'])
  · intro v hv
    have := h2 v hv
    rw [applyToDomain_names] at this
    exact this

/-- the decidable EXCLUDED REGION of the finiteness clause: the source contains a non-finite literal
(`Infinity`, `-Infinity`, `NaN` as a constant of the objective or of a constraint).  This is the recorded known
finding `C08-infinity-literal` and it is the ONLY exclusion: outside it (`compile_finite_out`) every emitted
constant is finite with no further hypothesis, inside it `compile_nonfinite_region_is_needed` exhibits a model
whose compiled row is `[+inf] >= NaN`. -/
def NonFiniteLiteralRegion (m : Model α) : Bool := !FiniteLits m

/-- outside the excluded region every coefficient, right-hand side and the offset of the compiled model are
finite — for every tolerance, step limit and bounds analysis result (no hypothesis on declared ranges: a
declaration `Real(-Infinity, Infinity)` or a derived infinite bound never reaches a row, the exact lowerings
fail with `MissingFiniteBounds` instead). -/
theorem compile_finite_out {K : Type} [ExactField K] {m : Model (Ext K)} {tol : Ext K} {maxSteps : Nat}
    {lm : LinModel (Ext K)} (hfin : NonFiniteLiteralRegion m = false)
    (h : Compile.linearize m tol maxSteps = .ok lm) : (WF.report m lm).finite = true := by
  obtain ⟨an, hlin⟩ := compile_ok_linearizeWith h
  exact finite_out_partial (by simpa [NonFiniteLiteralRegion] using hfin) hlin

/-- the full report for the whole compiler. -/
theorem compile_report_ok {K : Type} [ExactField K] {m : Model (Ext K)} {tol : Ext K} {maxSteps : Nat}
    {lm : LinModel (Ext K)} (hd : SourceNodup m = true) (hfin : NonFiniteLiteralRegion m = false)
    (h : Compile.linearize m tol maxSteps = .ok lm) : (WF.report m lm).ok true = true := by
  obtain ⟨an, hlin⟩ := compile_ok_linearizeWith h
  exact report_ok_partial (domainNodup_apply an hd) (usedKept_apply an m) (declaredIn_apply an m)
    (by simpa [NonFiniteLiteralRegion] using hfin) hlin

/-- a `MissingFiniteBounds` error of the whole compiler names, among the source variables, only variables whose
range AFTER bound inference (`apply_to_domain`'s input, `an.variableBounds`) is not finite. -/
theorem compile_missing_bounds_blames_unbounded {m : Model α} {tol : α} {maxSteps : Nat} {vs : List String}
    (hchk : ∃ r, collapseCheckAll m (Compile.scratchState m tol maxSteps) = .ok r)
    (h : Compile.linearize m tol maxSteps = .error (.missingFiniteBounds vs)) :
    WF.sortedStrict vs = true ∧ ∃ an : Analyzer α, ∀ x ∈ vs, x ∈ m.domain.map (·.name) →
      ¬ (Arith.isFinite (varBounds (Compile.toLinBounds an.variableBounds) x).lower = true ∧
         Arith.isFinite (varBounds (Compile.toLinBounds an.variableBounds) x).upper = true) := by
  -- the error does not come from the up-front collapse check (`hchk`: that check went through)
  rcases compile_error_linearizeWith h with h | h | ⟨an, hlin⟩
  · obtain ⟨r, hr⟩ := hchk; rw [hr] at h; cases h
  · cases h
  · refine ⟨(missing_bounds_error_global hlin).1, an, ?_⟩
    intro x hx hd
    exact missing_bounds_error_blames_unbounded hlin x hx (by rw [applyToDomain_names]; exact hd)

/-- the same WITHOUT the side condition on the up-front collapse check (rooc e35561f: `check_collapsing_logic_operands`
runs before bound inference, on the DECLARED boxes, and may itself raise `MissingFiniteBounds` while it lowers a
collapsed `and`/`or` node): whichever stage raises the error, the payload is strictly sorted and names, among the
source variables, only variables whose range is not finite IN THE BOX THAT STAGE READS — the declared box
(`analyze domain [] …`, no constraint applied) for the collapse check, the box after bound inference for the
lowering. -/
theorem compile_missing_bounds_blames_unbounded_any_stage {m : Model α} {tol : α} {maxSteps : Nat}
    {vs : List String} (h : Compile.linearize m tol maxSteps = .error (.missingFiniteBounds vs)) :
    WF.sortedStrict vs = true ∧
    ∃ b : BoundsMap α,
      (b = Compile.toLinBounds (Analyzer.analyze m.domain [] tol maxSteps).variableBounds ∨
        ∃ an : Analyzer α, b = Compile.toLinBounds an.variableBounds) ∧
      ∀ x ∈ vs, x ∈ m.domain.map (·.name) →
        ¬ (Arith.isFinite (varBounds b x).lower = true ∧ Arith.isFinite (varBounds b x).upper = true) := by
  rcases compile_error_linearizeWith h with hc | hc | ⟨an, hlin⟩
  · obtain ⟨e, bm, rfl, hbm⟩ := collapse_missing_bounds (s0 := Compile.scratchState m tol maxSteps) rfl rfl hc
    refine ⟨varsWithoutFiniteBounds_sorted e bm, _, Or.inl rfl, ?_⟩
    intro x hx hd
    have := (mem_varsWithoutFiniteBounds.mp hx).2
    unfold varBounds at this ⊢
    rw [hbm x hd] at this
    exact this
  · cases hc
  · refine ⟨(missing_bounds_error_global hlin).1, _, Or.inr ⟨an, rfl⟩, ?_⟩
    intro x hx hd
    exact missing_bounds_error_blames_unbounded hlin x hx (by rw [applyToDomain_names]; exact hd)

/-- non-vacuity for the whole compiler: `min x s.t. c1: x >= 1`, `x : NonNegativeReal`, compiles (any tolerance,
step limit 0) and satisfies `SourceNodup` and lies outside the excluded region. -/
example (tol : Ext Rat) : ∃ lm, Compile.linearize exA tol 0 = .ok lm ∧ SourceNodup exA = true ∧
    NonFiniteLiteralRegion exA = false ∧ (WF.report exA lm).ok true = true :=
  ⟨_, exA_compile tol, exA_hyps.1, by simp [NonFiniteLiteralRegion, exA_hyps.2.2.2],
    compile_report_ok exA_hyps.1 (by simp [NonFiniteLiteralRegion, exA_hyps.2.2.2]) (exA_compile tol)⟩

/-- the excluded region is needed for the whole compiler too: `min x s.t. Infinity * x >= 1` is inside it,
satisfies `SourceNodup`, compiles, and the compiled row is `[+inf] >= NaN`. -/
theorem compile_nonfinite_region_is_needed (tol : Ext Rat) :
    ∃ (m : Model (Ext Rat)) (lm : LinModel (Ext Rat)), SourceNodup m = true ∧ NonFiniteLiteralRegion m = true ∧
      Compile.linearize m tol 0 = .ok lm ∧ (WF.report m lm).finite = false ∧
      (WF.report m lm).ok false = true := by
  refine ⟨exB, _, by decide, ?_, exB_compile tol, exB_not_finite, ?_⟩
  · simp [NonFiniteLiteralRegion, FiniteLits, exB, infx, allLits, Arith.isFinite, Ext.isFinite]
  · exact compile_report_ok_structural (by decide) (exB_compile tol)

/-! ### 9. every domain of the compiled model is well-formed

`DomainProper d`: every `Real(lo, hi)` of `d` has `lo` finite or `−inf` and `hi` finite or `+inf` (so no NaN end,
no `Real(+inf, _)`, no `Real(_, −inf)`); every `NonNegativeReal(lo, hi)` has `lo` FINITE with `0 ≤ lo` and `hi`
finite or `+inf`; Boolean and `IntegerRange` types carry nothing to check (integer boxes are integral by type:
`VarType.int` has `Int` endpoints, `apply_to_domain` publishes `toI32 ⌈lo − tol⌉ .. toI32 ⌊hi + tol⌋`).
`K` is any linearly ordered field. -/

section domains
variable {K : Type} [Field K] [LinearOrder K] [IsStrictOrderedRing K] [FloorRing K]

/-- the LOWERING keeps domains proper: source entries are copied, and every auxiliary is declared with a proper
range — `$abs_k : NonNegativeReal(0, max(−lo, hi))` where `[lo, hi]` is the derived range of the operand (proper,
and `hi > 0` or `lo < 0` in that branch), `$min_k / $max_k : Real(lo, hi)` with the derived range of the retained
operands, Booleans otherwise.  Rests on the second half of the state invariant (`WFInv.BOK`): every entry of the
bounds map and every declared type is proper, and `bounds_of` maps proper maps to proper ranges. -/
theorem lowering_keeps_domains_proper {m : Model (Ext K)} {b : BoundsMap (Ext K)} {d : List (DomVar (Ext K))}
    {lm : LinModel (Ext K)} (hfin : FiniteLits m = true) (hb : BoundsProper b) (hd : DomainProper d)
    (h : linearizeWith m b d = .ok lm) : DomainProper lm.domain :=
  domain_proper hfin hb hd h

/-- for the WHOLE compiler: proper declared ranges and finite literals give proper compiled domains, for every
finite tolerance (of either sign) and every step limit — bound inference (`analyze`, `enforceable`,
`apply_to_domain`) publishes proper ranges (`APr.analyze_VBP`: every update is the intersection of a proper entry
with a candidate built from proper ranges and finite coefficients), and the lowering keeps them. -/
theorem compile_domains_wellformed {m : Model (Ext K)} {t : K} {maxSteps : Nat} {lm : LinModel (Ext K)}
    (hdecl : DomainProper m.domain) (hfin : FiniteLits m = true)
    (h : Compile.linearize m (.fin t) maxSteps = .ok lm) : DomainProper lm.domain :=
  APr.compile_domain_proper hdecl hfin h

/-- the same, spelled out. -/
theorem compile_domains_wellformed_clauses {m : Model (Ext K)} {t : K} {maxSteps : Nat} {lm : LinModel (Ext K)}
    (hdecl : DomainProper m.domain) (hfin : FiniteLits m = true)
    (h : Compile.linearize m (.fin t) maxSteps = .ok lm) :
    (∀ v ∈ lm.domain, ∀ lo hi, v.ty = .real lo hi →
      (lo = .ninf ∨ ∃ x, lo = .fin x) ∧ (hi = .pinf ∨ ∃ x, hi = .fin x)) ∧
    (∀ v ∈ lm.domain, ∀ lo hi, v.ty = .nnreal lo hi → (∃ x, lo = .fin x) ∧ (hi = .pinf ∨ ∃ x, hi = .fin x)) ∧
    (∀ v ∈ lm.domain, ∀ lo hi, v.ty = .nnreal lo hi → Ext.le (.fin 0) lo = true) :=
  domain_proper_clauses (compile_domains_wellformed hdecl hfin h)

end domains

/-- non-vacuity (at `ℚ`, where the theorems' instance is the running one, `fieldExact_rat`): `exA` has proper
declared ranges and finite literals, compiles, and its compiled domain is proper. -/
example : ∃ lm : LinModel (Ext ℚ), Compile.linearize exA (.fin 0) 0 = .ok lm ∧ DomainProper (K := ℚ) lm.domain := by
  have hdecl : DomainProper (K := ℚ) exA.domain := by
    intro v hv
    simp only [exA, List.mem_singleton] at hv
    subst hv
    exact ⟨rfl, by simp [Arith.le, Ext.le, Arith.zero, Arith.ofInt], Or.inr rfl⟩
  have hfin : FiniteLits (α := Ext ℚ) exA = true := by
    simp [FiniteLits, exA, allLits, Arith.isFinite, Ext.isFinite]
  have hc := exA_compile (.fin 0)
  have key := @compile_domains_wellformed ℚ _ _ _ _ exA 0 0
    (assemble exA (Ctx.fromVar "x" Arith.one) exA_final) hdecl hfin
  rw [fieldExact_rat] at key
  exact ⟨_, hc, key hc⟩

/-! ### 10. determinism up to the order of the domain map

`Compile.linearize` is a function, so equal inputs give equal outputs; the question is what happens when only the
ORDER of the declarations changes.  The implementation is checked metamorphically (harness stream
`domain-permutation`, 0 differences).  Proved here, for every number type (so for `Float` too): every read the
lowering and the bounds analysis make of the declared domain and of the bounds map is a name LOOKUP, unchanged by a
permutation of a duplicate-free map; the tail turns two final states that differ by the order of their domains into
models with the same variables, objective, offset and rows and with permuted domains; and therefore
(`compile_permutation_invariant`) the whole compiler is invariant: two models that differ only by the order of their
declarations compile to the same model up to the order of its domain, or fail with the same error.  The proof is a
relational pass (`Proofs/WFRel2*.lean`): two runs from states related by "same queue, rows and counters, permuted
duplicate-free domains, bounds maps with equal lookups" stay related and return EQUAL values. -/

/-- every read of the declared domain is permutation-invariant. -/
theorem domain_reads_permutation_invariant {d d' : List (DomVar α)} (hp : d.Perm d')
    (hn : (d.map (·.name)).Nodup) :
    (∀ x, domainType d x = domainType d' x) ∧ (∀ x, isBoolVar d x = isBoolVar d' x) ∧
    (∀ x, (d.any fun v => v.name == x) = (d'.any fun v => v.name == x)) ∧
    (∀ c : Ctx α, isBinaryCtx c d = isBinaryCtx c d') ∧
    (∀ e : Exp α, binaryAffineValue d e = binaryAffineValue d' e) ∧
    (∀ (l r : Exp α) (c : Cmp), tryNormalize d l c r = tryNormalize d' l c r) :=
  ⟨domainType_perm hp hn, isBoolVar_perm hp hn, declared_perm hp, isBinaryCtx_perm hp hn,
    binaryAffineValue_perm hp hn, tryNormalize_perm hp hn⟩

/-- every read of the bounds map depends on the lookup function only. -/
theorem bounds_reads_lookup_only {b b' : BoundsMap α} (h : ∀ x, lookupB b x = lookupB b' x) :
    (∀ e : Exp α, boundsOf b e = boundsOf b' e) ∧ (∀ es : List (Exp α), boundsOfList b es = boundsOfList b' es) ∧
    (∀ e : Exp α, varsWithoutFiniteBounds e b = varsWithoutFiniteBounds e b') :=
  ⟨boundsOf_ext h, boundsOfList_ext h, varsWithoutFiniteBounds_ext h⟩

/-- the tail: same rows, permuted domains ⇒ same variables, objective, offset, rows; permuted output domain. -/
theorem tail_permutation_invariant (m : Model α) (obj : Ctx α) {s s' : St α} (hp : s.domain.Perm s'.domain)
    (hr : s.rows = s'.rows) :
    (assemble m obj s).vars = (assemble m obj s').vars ∧ (assemble m obj s).objective = (assemble m obj s').objective ∧
    (assemble m obj s).offset = (assemble m obj s').offset ∧ (assemble m obj s).rows = (assemble m obj s').rows ∧
    (assemble m obj s).optType = (assemble m obj s').optType ∧
    (assemble m obj s).domain.Perm (assemble m obj s').domain :=
  assemble_perm m obj hp hr

example : (assemble exA (Ctx.fromVar "x" Arith.one) exA_final).vars =
    (assemble exA (Ctx.fromVar "x" Arith.one) { exA_final with domain := exA_final.domain.reverse }).vars :=
  (tail_permutation_invariant exA _ (s' := { exA_final with domain := exA_final.domain.reverse })
    (List.reverse_perm _).symm rfl).1

/-- **the lowering is invariant under a permutation of the domain and any re-layout of the bounds map**: same
compiled model up to the order of its domain (`SameUpToDomainOrder`: equal variables, objective, offset, rows,
direction; permuted domain), or the same error. -/
theorem lowering_permutation_invariant (m : Model α) {b b' : BoundsMap α} {d d' : List (DomVar α)}
    (hp : d.Perm d') (hn : (d.map (·.name)).Nodup) (hb : ∀ x, lookupB b x = lookupB b' x) :
    match linearizeWith m b d, linearizeWith m b' d' with
    | .ok lm, .ok lm' => SameUpToDomainOrder lm lm'
    | .error e, .error e' => e = e'
    | _, _ => False :=
  linearizeWith_perm m hp hn hb

/-- **`Compile.linearize` is a function of the model up to the order of the domain map**: models with the same
direction, objective and constraints whose (duplicate-free) declarations are permutations of each other compile to
the same model up to the order of its domain, or both fail with the same error — for every tolerance, step limit
and number type. -/
theorem compile_permutation_invariant (m m' : Model α) (tol : α) (maxSteps : Nat)
    (ho : m'.optType = m.optType) (hobj : m'.objective = m.objective) (hc : m'.constraints = m.constraints)
    (hp : m.domain.Perm m'.domain) (hn : SourceNodup m = true) :
    match Compile.linearize m tol maxSteps, Compile.linearize m' tol maxSteps with
    | .ok lm, .ok lm' => SameUpToDomainOrder lm lm'
    | .error e, .error e' => e = e'
    | _, _ => False :=
  AnRel.compile_perm m m' tol maxSteps ho hobj hc hp ((WFList.noDup_iff _).mp hn)

/-- non-vacuity (two declarations, swapped): the model with a user variable `$abs_0` fails with the same
`VarAlreadyDeclared` whichever way round `x` and `$abs_0` are declared. -/
example : linearizeWith exD exDb exD.domain.reverse = .error (.varAlreadyDeclared "$abs_0") := by
  have h := lowering_permutation_invariant exD (b := exDb) (b' := exDb) (List.reverse_perm exD.domain).symm
    (by decide) (fun _ => rfl)
  rw [exD_fails] at h
  revert h
  cases linearizeWith exD exDb exD.domain.reverse with
  | ok lm => exact fun h => h.elim
  | error e => exact fun h => by rw [← h]

/-! ### 11. every variable that OCCURS in the source is a variable of the compiled model

The clause of the property as written ("contains every variable that occurs in the source objective or
constraints") is `source_vars_present` composed with the front end's marking discipline `Ref.Closed m`
(decidable): every variable occurring in the objective or in a constraint is declared and carries a usage mark
(`il_exp.rs` increments the mark at every reference; `Compose.closed_of_logicModel` derives it from the semantic
contract). -/

/-- every variable the meaning of the source depends on is a variable of the compiled model, for the whole
compiler and any number type. -/
theorem compile_occurring_vars_present {m : Model α} {tol : α} {maxSteps : Nat} {lm : LinModel α}
    (hcl : Ref.Closed m = true) (h : Compile.linearize m tol maxSteps = .ok lm) :
    ∀ x ∈ Ref.modelVars m, x ∈ lm.vars := by
  intro x hx
  have h1 := (compile_lengths_and_names h).2.2.2.2.1
  simp only [Ref.Closed, List.all_eq_true, List.contains_iff_mem] at hcl
  have hu := hcl x hx
  simp only [WF.report, List.all_eq_true, List.contains_iff_mem] at h1
  exact h1 x (by simpa [Ref.usedNames] using hu)

example (tol : Ext Rat) : "x" ∈ (assemble exA (Ctx.fromVar "x" Arith.one) exA_final).vars :=
  compile_occurring_vars_present (m := exA) (by decide) (exA_compile tol) "x" (by decide)

/-- … and has a domain entry there: the oracle's clause `WF.occurringPresent` (evaluated on the implementation's output
for every compiled case — it does not read the usage counters of the source domain, so it also covers a column or a
domain entry lost by a search in a differently sorted list; harness stream `name-order`: names that differ in letter
case only, `a B c D`, `x10 x2`, non-ASCII names). -/
theorem compile_occurring_present {m : Model α} {tol : α} {maxSteps : Nat} {lm : LinModel α}
    (hd : SourceNodup m = true) (hcl : Ref.Closed m = true) (h : Compile.linearize m tol maxSteps = .ok lm) :
    WF.occurringPresent m lm = true := by
  have hok := compile_report_ok_structural hd h
  simp only [WF.Report.ok, WF.report, Bool.and_eq_true, List.all_eq_true] at hok
  simp only [WF.occurringPresent, WF.occurring_eq_modelVars, List.all_eq_true, Bool.and_eq_true,
    List.contains_iff_mem]
  intro x hx
  have hv := compile_occurring_vars_present hcl h x hx
  exact ⟨hv, hok.1.1.1.1.1.1.1.2.1.1 x hv⟩

/-- the order of the variable list is the order of `String` (`<` on the code points = byte order of the UTF-8
encoding, what `Vec<String>::sort` uses): upper-case letters come before lower-case ones, `x10` before `x2`. -/
example : WF.sortedStrict ["B", "D", "a", "c", "x10", "x2", "É", "é"] = true := by decide

example (tol : Ext Rat) : WF.occurringPresent exA (assemble exA (Ctx.fromVar "x" Arith.one) exA_final) = true :=
  compile_occurring_present (by decide) (by decide) (exA_compile tol)

/-! ### 13. every published range is ordered (`lower ≤ upper`) — feasible model or not

§9 excludes `Real(+inf, _)`, `Real(_, −inf)` and NaN ends; here the remaining clause of "domains well-formed":
`lo ≤ hi` for EVERY entry of the compiled domain.  For the tightened source variables this is a fact about
`analyze |> enforceable |> apply_to_domain` (C07, agent-bounds: `enforceable_ordered`, plus "the box stays inside
the declared range" for the `max(lo, 0)` of `NonNegativeReal`); for the `$` auxiliaries it is a third component of
the state invariant of the lowering (`WFInv.BOK` with the configuration `Lin.ordCfg`): every range of the bounds
map is ordered, `bounds_of` keeps order, `$abs_k : NonNegativeReal(0, max(−lo, hi))` has `0 ≤ max(−lo, hi)` because
`lo ≤ hi`.  No feasibility hypothesis (C01's `compile_domains_proper` derives the order from a feasible point). -/

section ordered
variable {K : Type} [Field K] [LinearOrder K] [IsStrictOrderedRing K] [FloorRing K]

/-- the LOWERING keeps domains ordered. -/
theorem lowering_keeps_domains_ordered {m : Model (Ext K)} {b : BoundsMap (Ext K)} {d : List (DomVar (Ext K))}
    {lm : LinModel (Ext K)} (hfin : FiniteLits m = true) (hb : BoundsProper b) (hd : DomainProper d)
    (hbo : BoundsOrdered b) (hdo : DomainOrdered d)
    (h : linearizeWith m b d = .ok lm) : DomainOrdered lm.domain :=
  domain_ordered hfin hb hd hbo hdo h

/-- the WHOLE compiler: distinct declared names, declared ranges proper and ordered (integer ranges within `i32`,
their type in rooc), finite literals, tolerance `0 ≤ t < 1` (rooc: `1e-9`), any step limit. -/
theorem compile_domains_ordered {m : Model (Ext K)} {t : K} (h0 : 0 ≤ t) (h1 : t < 1) {maxSteps : Nat}
    {lm : LinModel (Ext K)} (hnd : (m.domain.map (·.name)).Nodup) (hi : APr.DeclI32 m.domain)
    (hdecl : DomainProper m.domain) (hord : DomainOrdered m.domain) (hfin : FiniteLits m = true)
    (h : Compile.linearize m (.fin t) maxSteps = .ok lm) :
    ∀ v ∈ lm.domain,
      (∀ lo hi, v.ty = .real lo hi → Ext.le lo hi = true) ∧
      (∀ lo hi, v.ty = .nnreal lo hi → Ext.le lo hi = true) ∧
      (∀ lo hi, v.ty = .int lo hi → lo ≤ hi) := by
  intro v hv
  have := APr.compile_domain_ordered h0 h1 hnd hi hdecl hord hfin h v hv
  refine ⟨?_, ?_, ?_⟩ <;> (intro lo hi hty; rw [hty] at this; exact this)

/-- … which is the clause `domain-not-ordered` of the oracle (`WF.domainOrdered`, evaluated on the implementation's
output for every compiled case whose source has finite literals and ordered declared ranges). -/
theorem compile_domainOrdered_check {m : Model (Ext K)} {t : K} (h0 : 0 ≤ t) (h1 : t < 1) {maxSteps : Nat}
    {lm : LinModel (Ext K)} (hnd : (m.domain.map (·.name)).Nodup) (hi : APr.DeclI32 m.domain)
    (hdecl : DomainProper m.domain) (hord : DomainOrdered m.domain) (hfin : FiniteLits m = true)
    (h : Compile.linearize m (.fin t) maxSteps = .ok lm) : WF.domainOrdered m lm = true :=
  APr.domainOrdered_check (APr.compile_domain_ordered h0 h1 hnd hi hdecl hord hfin h)

end ordered

/-- non-vacuity at `ℚ`. -/
example : ∃ lm : LinModel (Ext ℚ), Compile.linearize exA (.fin 0) 0 = .ok lm ∧ DomainOrdered (K := ℚ) lm.domain := by
  have hdecl : DomainProper (K := ℚ) exA.domain := by
    intro v hv
    simp only [exA, List.mem_singleton] at hv
    subst hv
    exact ⟨rfl, by simp [Arith.le, Ext.le, Arith.zero, Arith.ofInt], Or.inr rfl⟩
  have hord : DomainOrdered (K := ℚ) exA.domain := by
    intro v hv
    simp only [exA, List.mem_singleton] at hv
    subst hv
    simp [OrdT, Ext.le]
  have hfin : FiniteLits (α := Ext ℚ) exA = true := by
    simp [FiniteLits, exA, allLits, Arith.isFinite, Ext.isFinite]
  have hc := exA_compile (.fin 0)
  have key := @APr.compile_domain_ordered ℚ _ _ _ _ exA 0 (le_refl _) (by norm_num) 0
    (assemble exA (Ctx.fromVar "x" Arith.one) exA_final) (by simp [exA]) (by intro d hd lo hi hty; simp [exA] at hd; subst hd; simp at hty)
    hdecl hord hfin
  rw [fieldExact_rat] at key
  exact ⟨_, hc, key hc⟩

/-! ### 14. which errors the compiler can report: `UnimplementedExpression` is dead code

`Exp::linearize` raises `UnimplementedExpression` for the operator-form logic nodes (`BinOp::And | Or | Xor |
Implies | Iff`, `UnOp::Not`).  Behind `Linearizer::linearize` these two branches are unreachable: every expression
handed to `Exp::linearize` is a sub-term of the result of `normalize` (`simplify ∘ flatten ∘ simplify`), and `simplify`
rewrites every operator-form logic node into the n-ary / dedicated node (`Lin.simplify_noOp`, for EVERY input).  The
proof is an error-kind pass over every action of the lowering (`Proofs/WFErrKind.lean`, `EK Q x`: every error `x` can
raise satisfies `Q`).  The harness agrees: 0 `err:UnimplementedExpression` in every tier, although the generators do
produce operator-form nodes (stream `targeted-error`). -/

/-- the lowering never reports `UnimplementedExpression`, for any model, bounds map, domain and number type. -/
theorem lowering_never_unimplemented (m : Model α) (b : BoundsMap α) (d : List (DomVar α)) :
    linearizeWith m b d ≠ .error .unimplemented :=
  linearizeWith_not_unimplemented m b d

/-- the errors of the whole compiler: one of the six other kinds of `LinearizationError` (or the model-only `fuel`). -/
theorem compile_error_kinds {m : Model α} {tol : α} {maxSteps : Nat} {err : LinErr}
    (h : Compile.linearize m tol maxSteps = .error err) :
    err = .nonLinear ∨ err = .divisionByZero ∨ (∃ k, err = .emptyAggregation k) ∨
      (∃ n, err = .varAlreadyDeclared n) ∨ err = .nonBinaryLogicOperand ∨
      (∃ vs, err = .missingFiniteBounds vs) ∨ err = .fuel := by
  cases err with
  | unimplemented => exact absurd h (compile_not_unimplemented m tol maxSteps)
  | _ => simp

/-- `simplify` removes the operator-form nodes: `a and b` written with `BinOp::And` becomes the n-ary `And`. -/
example : NoOp (Exp.simplify (.bin .and (.var "a") (.un .not (.var "b")) : Exp (Ext Rat))) = true :=
  simplify_noOp _

/-! ### 15. constants of `linearizer.rs` read from the Rust source

`tools/extract.py` re-reads, on every `./check`, (a) the `format!` literal of every name handed to
`declare_variable` and (b) the `write!` templates of `impl Display for LinearizationError`, and regenerates
`Rooc/Gen/LinConsts.lean` (it fails loudly when a name is built in any other way).  The theorems below break when
the Rust source changes one of them; the dynamic side — the model mints the same names and renders the same
messages — is the bit-exact diff (`linearize`, `linerr-display` requests). -/

/-- every auxiliary name the Rust source can mint begins with `$` (the premise of `aux-name-collision`:
auxiliaries live in a namespace no identifier of the rooc grammar can reach). -/
theorem rust_aux_names_dollar_prefixed :
    Gen.linAuxNameFormats.all (fun s => s.toList.head? == some '$') = true := by decide

/-- the prefixes the model uses for its auxiliaries (`WFInv.isAux_*`) are those of the Rust source. -/
theorem model_aux_prefixes_are_the_rust_ones :
    ∀ p ∈ ["$and_", "$or_", "$implies_", "$iff_", "$xor_", "$abs_", "$logic_witness_", "$"],
      ∃ f ∈ Gen.linAuxNameFormats, p.toList.isPrefixOf f.toList = true := by decide

/-- the message templates of the model (`Lin.LinErr.template`) are the `write!` templates of the Rust source. -/
theorem error_templates_are_the_rust_ones : Lin.linErrTemplates = Gen.linErrorTemplates := rfl

-- `format!` substitution on the longest template
set_option maxRecDepth 100000 in
example : LinErr.text "|x|" "an exact value" "-inf" "inf" (.missingFiniteBounds ["x", "y"]) =
    "Cannot linearize \"|x|\" in an exact value with derived bounds [-inf, inf]. Variables without finite bounds: x, y. Declare finite bounds or add constraints from which finite bounds can be inferred" := by
  rfl
set_option maxRecDepth 100000 in
example : LinErr.text "e" "r" "l" "u" (.missingFiniteBounds []) =
    "Cannot linearize \"e\" in r with derived bounds [l, u]. Variables without finite bounds: none identified. Declare finite bounds or add constraints from which finite bounds can be inferred" := by
  rfl

/-- the std constants a declared bound can be written with are the IEEE infinities (read from `rooc_std.rs`): with
any finite value an exact lowering over `x as Real(-10, Infinity)` would proceed with a big-M of that size instead of
reporting `MissingFiniteBounds` (harness stream `text-infinity-constant`). -/
theorem std_infinity_constants_are_infinite :
    Gen.stdConstantValues = [("Infinity", "f64::INFINITY"), ("MinusInfinity", "f64::NEG_INFINITY"),
      ("PI", "std::f64::consts::PI")] := rfl

end Rooc.Props.C08
