/- C08 — property theorems only (helper lemmas live in `Rooc/Proofs`). -/
namespace Rooc.Props.C08
end Rooc.Props.C08
