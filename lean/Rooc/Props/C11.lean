/- C11 — property theorems only (helper lemmas live in `Rooc/Proofs`). -/
import Lean
import Rooc.Syntax.Format
namespace Rooc.Props.C11
end Rooc.Props.C11
