/-
C11 — Formatting preserves meaning and is idempotent.  PROPERTY THEOREMS ONLY.

Vocabulary: `fmtExp` / `PModel.text` (`Rooc/Syntax/Format.lean`) is the executable port of the printers
behind `RoocParser::format`, diffed byte-for-byte against the real formatter on every run; `fmtToks` is the
same printer as tokens (the driver checks on every case that lexing `fmtExp e` gives `fmtToks e`);
`parseToks` is the parser model of C09.
The token-level theorems cover THE PRINTABLE FRAGMENT — a decidable predicate (`printable` = `coreProgram`,
`coreExp`) that the generator is measured against: whole programs with `for` iterations over ranges / sets / tuples,
`sum`/`prod`/`min`/`max`/… scoped blocks, block functions, compound variables, array accesses, integer arrays,
strings, `where` constants, `define` declarations with compound names and every variable type, named constraints.
The text-level theorems (lexer included) cover the expression sub-language of C09.
-/
import Lean
import Rooc.Proofs.Format
import Rooc.Proofs.LexFormat
import Rooc.Proofs.Program
namespace Rooc.Props.C11
open Rooc Rooc.Syntax Rooc.Syntax.Doc Rooc.Syntax.Proofs

/-- The REGENERATED tables of `BinOp::precedence` / `is_left_associative` (math/operators.rs), which
drive the printer, are the documented ones. -/
theorem printer_table_documented (o : BinOp) :
    Gen.binPrec o = docLevel o ∧ Gen.binLeftAssoc o = !(docRightAssoc o) :=
  ⟨prec_documented o, assoc_documented o⟩

/-- **`parse (format t) = t`** for EVERY tree of the printable fragment (`WFx`: the fragment without the lexical
conditions on names): the printer emits every parenthesis, brace and bracket the grammar needs. -/
theorem parse_format (t : PExp) (h : WFx t) : parseToks (fmtToks t) = .ok t := by
  obtain ⟨items, hk, _⟩ := fmt_tk t h
  exact parse_tk hk

/-- the same for the DECIDABLE fragment predicate `coreExp` the generator is measured against -/
theorem parse_format_printable_exp (t : PExp) (h : coreExp t = true) : parseToks (fmtToks t) = .ok t :=
  parse_format t (coreExp_wf t h)

/-- the expression sub-language of C09 (`WF`) is part of the fragment -/
theorem parse_format_core (t : PExp) (h : WF t) : parseToks (fmtToks t) = .ok t := parse_format t (wf_wfx t h)

example : WF (.bin .sub (.var "x") (.bin .sub (.var "y") (.bin .mul (.int 2) (.un .neg (.bin .add (.var "z") (.int 1)))))) := by
  simp [WF]; decide

/-- **Formatting is idempotent**: the formatted tokens parse, and what they parse to is formatted as the
same tokens. -/
theorem format_idem (t : PExp) (h : WFx t) :
    ∃ t', parseToks (fmtToks t) = .ok t' ∧ fmtToks t' = fmtToks t :=
  ⟨t, parse_format t h, rfl⟩

/-- **No needed parenthesis is dropped**: the table of (parent, child) pairs whose RIGHT operand needs
parentheses that the printer does not emit is empty … -/
theorem dropped_right_table_empty (p c : BinOp) (x y : PExp) :
    ¬ (needParenRight p (.bin c x y) = true ∧ printsParen p true (.bin c x y) = false) := by
  simp only [needParenRight, printsParen]
  cases p <;> cases c <;> decide

/-- … and so is the table for LEFT operands. -/
theorem dropped_left_table_empty (p c : BinOp) (x y : PExp) :
    ¬ (needParenLeft p (.bin c x y) = true ∧ printsParen p false (.bin c x y) = false) := by
  simp only [needParenLeft, printsParen]
  cases p <;> cases c <;> decide

/-- the printer's rule is minimal: it parenthesises an operand exactly when its precedence is strictly lower
or the grammar needs it -/
theorem printer_rule_is_minimal (p c : BinOp) (x y : PExp) :
    (printsParen p true (.bin c x y) = (decide (Gen.binPrec c < Gen.binPrec p) || needParenRight p (.bin c x y)))
    ∧ (printsParen p false (.bin c x y) = (decide (Gen.binPrec c < Gen.binPrec p) || needParenLeft p (.bin c x y))) := by
  simp only [printsParen, needParenRight, needParenLeft]
  cases p <;> cases c <;> decide

/-! ### on the printed TEXT: `fmtExp` is the printer the byte-exact diff validates -/

/-- the text the printer writes is cut by the lexer into exactly the tokens of `fmtToks` (trees with plain
names and float literals `ddd.ddd`) -/
theorem printed_text_tokens (t : PExp) (ht : TextOK t) : lex (fmtExp t).toList = .ok (fmtToks t) :=
  lex_fmtExp t ht

/-- `parse (format t) = t` on the text -/
theorem parse_format_text (t : PExp) (h : WF t) (ht : TextOK t) : parseText (fmtExp t).toList = .ok t := by
  simp only [parseText, lex_fmtExp t ht, parse_format_core t h]

/-- the formatted TEXT of every tree parses, and the tree it parses to is formatted as the same TEXT -/
theorem format_idem_text (t : PExp) (h : WF t) (ht : TextOK t) :
    ∃ t', parseText (fmtExp t).toList = .ok t' ∧ fmtExp t' = fmtExp t :=
  ⟨t, parse_format_text t h ht, rfl⟩

/-! ### the decimal grammar of number tokens

`Display for Primitive::Number` (after c69442f / 8a8f98f) writes a finite number either as a digit string `ddd` or as
`ddd.ddd` — never with an exponent or a sign.  For EVERY text of this decimal grammar the lexer model reads exactly
one number token, and the parser model reads that token back as the literal: the half of `NumTokenOk` that is
about the grammar is a theorem; that Rust's printer stays inside this grammar and that the text denotes the same
`f64` is checked by the harness on every literal. -/

/-- the decimal grammar of printed numbers: digits, or digits `.` digits -/
def DecimalText (s : String) : Prop :=
  (s.toList ≠ [] ∧ ∀ d ∈ s.toList, isDigit d = true) ∨ FloatParts s

/-- the token a decimal text is read as -/
def numToken (s : String) : Tok := if s.toList.all isDigit then .int s else .float s

/-- **every text of the decimal grammar is one number token** -/
theorem decimal_text_is_one_token (s : String) (h : DecimalText s) : lex s.toList = .ok [numToken s] := by
  rcases h with ⟨hne, hd⟩ | ⟨ds, fs, hs, hne, hnf, hds, hfs⟩
  · have hall : s.toList.all isDigit = true := by simpa [List.all_eq_true] using hd
    have := lexTo_int s.toList [] false [] hne hd (Or.inl rfl)
    have h2 := lex_of_lexTo (by simpa using this)
    simpa [numToken, hall] using h2
  · have hnot : s.toList.all isDigit = false := by
      rw [hs]
      simp only [List.all_append, List.all_cons, Bool.and_eq_false_iff]
      right; left; decide
    have := lexTo_float ds fs [] false [] hne hnf hds hfs (Or.inl rfl)
    simp only [List.append_nil] at this
    have h2 := lex_of_lexTo this
    have hs' : String.ofList (ds ++ '.' :: fs) = s := by rw [← hs]; simp
    rw [hs'] at h2
    rw [hs]
    simpa [numToken, hnot] using h2

/-- … and the parser model reads the token back as the literal it is: the integer (if it fits `i64`) or the decimal -/
theorem decimal_text_parses (s : String) (h : DecimalText s) :
    parseText s.toList = (if s.toList.all isDigit then
        (if digitsToNat s.toList ≤ i64Max then .ok (.int (digitsToNat s.toList)) else .err .reject)
      else .ok (.num s)) := by
  simp only [parseText, decimal_text_is_one_token s h, numToken]
  by_cases hall : s.toList.all isDigit = true
  · simp only [hall, if_true]
    by_cases hle : digitsToNat s.toList ≤ i64Max
    · simp only [hle, if_true]
      rw [parse_tk (Tk.atom (Atom.int s hle))]
    · simp only [hle, if_false]
      have hraw : parseToksRaw [Tok.int s] = .ok (.int (digitsToNat s.toList)) := by
        have hl : leaf 14 [Tok.int s] = .ok (.int (digitsToNat s.toList), []) := by
          rw [leaf_int]
          apply imul_single 12 _ _ _ _ (optVariable_follow (Or.inl rfl) 11)
          rw [atoms_int 11 s [] []]
          exact atoms_follow (Or.inl rfl) 10 _
        have hu : optUnary [Tok.int s] = ([], [Tok.int s]) := optUnary_plain (by simp [unRule, ruleOfTok, Tok.opSpelling]) []
        simp [parseToksRaw, parseFuel, parseExp, collect, hu, hl, collectLoop, prattParse, expr, nud, loop, lbp]
      simp [parseToks, hraw, buildErr, hle]
  · have hf : s.toList.all isDigit = false := by simpa using hall
    simp only [hf, Bool.false_eq_true, if_false]
    rw [parse_tk (Tk.atom (Atom.num s))]

/-! ### whole programs of the printable fragment

`parseProgram` is the program-level parser model (`Rooc/Syntax/Program.lean`: PEG phase, then the AST builders
with their errors; diffed against `RoocParser::parse` on generated programs, their formatted texts and malformed
texts), `progToks` the token-level twin of `PModel.text` (= `RoocParser::format`); the driver checks on every
program of the fragment that lexing the printed text gives `progToks`. -/

/-- **`parse (format p) = p`** for every program `p` of the printable fragment, the fragment being the DECIDABLE
predicate `printable` (`coreProgram`, Rooc/Syntax/ProgramToks.lean) that the generator is measured against -/
theorem parse_format_program (m : PModel) (h : printable m = true) : parseProgram (progToks m) = .ok m :=
  parse_format_printable m h

/-! #### one-sided domain bounds: `x as Real(2)` is printed `x as Real(2, Infinity)`

The printer completes a missing bound by its default, so the formatted text stands for `m.canon` (the same
declarations with both bounds, Rooc/Syntax/Format.lean); formatting does not distinguish `m` from `m.canon`, and the
round trip holds up to `canon`.  (A printer that DROPS the given bound — prints `x as Real` — is refuted by the
driver's correspondence and by the oracle, which compares `canon` of both sides.) -/

theorem canon_type_text (t : PVarType) : t.canon.text = t.text := by
  cases t with
  | boolean => rfl
  | intRange a b => rfl
  | nonNegReal lo hi =>
    cases lo <;> cases hi <;>
      simp [PVarType.canon, PVarType.text, optText, fmtExp, varText, needsEscape, natDigits, digitChar] <;> decide
  | real lo hi =>
    cases lo <;> cases hi <;>
      simp [PVarType.canon, PVarType.text, optText, fmtExp, varText, needsEscape] <;> decide

theorem canon_type_toks (t : PVarType) : typeToks t.canon = typeToks t := by
  cases t with
  | boolean => rfl
  | intRange a b => rfl
  | nonNegReal lo hi => cases lo <;> cases hi <;> simp [PVarType.canon, typeToks]
  | real lo hi => cases lo <;> cases hi <;> simp [PVarType.canon, typeToks]

theorem canon_type_idem (t : PVarType) : t.canon.canon = t.canon := by
  cases t with
  | boolean => rfl
  | intRange a b => rfl
  | nonNegReal lo hi => cases lo <;> cases hi <;> simp [PVarType.canon]
  | real lo hi => cases lo <;> cases hi <;> simp [PVarType.canon]

/-- **formatting does not see the difference**: `m` and `m.canon` have the same formatted text … -/
theorem format_canon (m : PModel) : m.canon.text = m.text := by
  have hd : ∀ d : PDomain, d.canon.text = d.text := by
    intro d; simp [PDomain.canon, PDomain.text, canon_type_text]
  simp [PModel.canon, PModel.text, List.map_map, Function.comp_def, hd]

/-- … and the same tokens -/
theorem progToks_canon (m : PModel) : progToks m.canon = progToks m := by
  have hd : ∀ d : PDomain, domainToks d.canon = domainToks d := by
    intro d; simp [PDomain.canon, domainToks, canon_type_toks]
  have hl : ∀ ds : List PDomain, domainsToks (ds.map PDomain.canon) = domainsToks ds := by
    intro ds; induction ds with
    | nil => rfl
    | cons d ds ih => simp [domainsToks, hd, ih]
  simp [progToks, PModel.canon, objectiveToks, hl]

/-- **`parse (format p) = canon p`**: a program whose completed form is in the printable fragment — in particular
every program with one-sided bounds `Real(lo)` / `NonNegativeReal(lo)` over printable expressions — is read back
from its formatted text as its completed form: the given bound is kept, the missing one is its default -/
theorem parse_format_program_canon (m : PModel) (h : printable m.canon = true) :
    parseProgram (progToks m) = .ok m.canon := by
  rw [← progToks_canon]; exact parse_format_printable m.canon h

/-- non-vacuity: `min x  s.t.  x >= 1  define  x as Real(2)  /  y as NonNegativeReal(3)` -/
example :
    let m : PModel := PModel.mk .min (.var "x") [PConstraint.mk none (.var "x") .ge (.int 1) false [] []] []
      [PDomain.mk [.plain "x"] (.real (some (.int 2)) none) [] [], PDomain.mk [.plain "y"] (.nonNegReal (some (.int 3)) none) [] []]
    printable m.canon = true ∧ printable m = false
      ∧ m.text = "min x\ns.t.\n    x >= 1\ndefine\n    x as Real(2, Infinity)\n    y as NonNegativeReal(3, Infinity)\n" := by
  refine ⟨?_, ?_, ?_⟩
  · simp [printable, coreProgram, PModel.canon, PDomain.canon, PVarType.canon, coreExp, coreName, coreFor, coreType, plainVar,
      isPlainRun, isLetter, isDigit, extraLetters, isKeyword, notForHead, constraintToks, domainToks, cnameToks, fmtToks, varListToks,
      forToks, i64Max, lowerWord, lowerAscii] <;> decide
  · simp [printable, coreProgram, coreType]
  · simp [PModel.text, PConstraint.text, PDomain.text, PVarType.text, CName.text, optText, fmtExp, varText, needsEscape, forClause,
      Cmp.text, ObjKind.text, reindent, joinWith, natDigits, digitChar] <;> decide

/-! #### escaped names: `\x_1` is the variable whose NAME is `x_1`

The printer writes a variable whose name has an inner underscore with a backslash (`varText`); the lexer model
reads `\x_1` as the one word `x_1` (a compound run `x_1` without backslash is never one word), so at token level
an escaped name is a word like any other and `parse_format_program` covers it: the printable fragment contains the
names `escapedVar` (base and segments plain runs or integers) as variables, constraint names, declared variables
and — in braces — indexes. -/

/-- the lexer model on escaped names (`lex` computed by the kernel): one word; the same text without the backslash
is the compound variable `x_1`; `[` behind an escaped name, a brace index and a leading underscore are declined -/
theorem escaped_name_lexing :
    lex "\\x_1 + 2 \\cap_a_12".toList = .ok [.word "x_1", .plus, .int "2", .word "cap_a_12"]
    ∧ lex "x_1".toList = .ok [.word "x", .us, .int "1"]
    ∧ lex "\\x_1[0]".toList = .unsupported ∧ lex "\\x_{i}".toList = .unsupported ∧ lex "\\_x_1".toList = .unsupported := by
  refine ⟨?_, ?_, ?_, ?_, ?_⟩ <;> decide

/-- non-vacuity: `min \x_1 + 2 * \y_a_2  s.t.  \cap_1: \x_1 >= z_{\k_1}  define  \x_1, \y_a_2 as Real` is in the
printable fragment (so `parse_format_program` gives its round trip), and its text carries the backslashes -/
example :
    let m : PModel := PModel.mk .min (.bin .add (.var "x_1") (.bin .mul (.int 2) (.var "y_a_2")))
      [PConstraint.mk (some (.plain "cap_1")) (.var "x_1") .ge (.cvar "z" [.var "k_1"]) false [] []] []
      [PDomain.mk [.plain "x_1", .plain "y_a_2"] (.real none none) [] []]
    printable m = true
      ∧ m.text = "min \\x_1 + 2 * \\y_a_2\ns.t.\n    \\cap_1: \\x_1 >= z_{\\k_1}\ndefine\n    \\x_1, \\y_a_2 as Real\n" := by
  refine ⟨?_, ?_⟩
  · simp [printable, coreProgram, coreExp, coreIdx, coreName, coreFor, coreType, nameVar, plainVar, escapedVar, isEscapedRun, splitRun,
      isPlainRun, isLetter, isDigit, extraLetters, isKeyword, notForHead, constraintToks, domainToks, cnameToks, fmtToks, fmtToksIdx,
      varListToks, forToks, i64Max, lowerWord, lowerAscii, printsParen] <;> decide
  · simp [PModel.text, PConstraint.text, PDomain.text, PVarType.text, CName.text, fmtExp, fmtIndexes, indexText, varText, needsEscape,
      forClause, Cmp.text, ObjKind.text, reindent, joinWith, binOpText, wrapOperand, printsParen, natDigits, digitChar] <;> decide

/-! #### graph literals: `let G = Graph { A -> [B: 2, C], B -> [C: -1.5], C }`

The parser model reads graph literals (`graphLeaf`), `graphText` is `Display for Graph`; a `where` constant of the
printable fragment may be a graph literal (`coreGraphValue`): `simple_variable` names, no parallel edges, costs that are
integer / decimal literals with an optional `-`, and a first node with an edge (see `GraphOK` for why). -/

/-- **`parse (tokens of a graph literal) = that graph`**: the rendering of `Display for Graph` is read back — through
the failing block-function reading that the PEG tries first — as the graph with the same nodes, edges and costs; a
cost `0` stays `Some(0)`, a missing cost stays missing -/
theorem parse_format_graph {ns : List GNode} (h : GraphOK ns) {rest : List Tok} (hc : Closed rest) :
    expAt (graphToks ns ++ rest) = .ok (.prim (graphText ns), rest) :=
  parseExp_graph h hc _ (by simp [parseFuel])

set_option maxRecDepth 8000 in
/-- the display of `Graph { A -> [B: 0, C: -2, D: 1.5, E], B -> [A], C }` and its tokens; the decidable fragment accepts
it (its text is lexed by the kernel-computed lexer model into `graphToks`), a graph of isolated nodes is outside -/
theorem graph_sample :
    let g : List GNode := [⟨"A", [⟨"B", some (false, "0")⟩, ⟨"C", some (true, "2")⟩, ⟨"D", some (false, "1.5")⟩, ⟨"E", none⟩]⟩,
      ⟨"B", [⟨"A", none⟩]⟩, ⟨"C", []⟩]
    graphText g = "Graph {\n    A -> [ B:0, C:-2, D:1.5, E ],\n    B -> [ A ],\n    C\n}"
      ∧ graphOf (graphText g) = some g
      ∧ coreGraphValue (.prim (graphText g)) = true
      ∧ coreGraphValue (.prim (graphText [⟨"A", []⟩, ⟨"B", []⟩])) = false := by
  refine ⟨by decide, by decide, by decide, by decide⟩

/-- the same for the fragment without the lexical conditions on names (`WFpx`) -/
theorem parse_format_program_wf (m : PModel) (h : WFpx m) : parseProgram (progToks m) = .ok m :=
  parseProgram_fmt m h

/-- the formatted program parses and is formatted as itself again -/
theorem format_idem_program (m : PModel) (h : printable m = true) :
    ∃ m', parseProgram (progToks m) = .ok m' ∧ progToks m' = progToks m :=
  ⟨m, parse_format_printable m h, rfl⟩

/-- both phases of the parser on a printed program: the PEG reading, then the AST builders without an error -/
theorem parse_format_phases (m : PModel) (h : printable m = true) :
    parseProgramRaw (progToks m) = .ok (rawOf m) ∧ buildProgram (rawOf m) = .ok m :=
  ⟨parseProgramRaw_fmt m (coreProgram_wf m h), buildProgram_raw m (coreProgram_wf m h)⟩

/-- **A comparison chain is not a constraint**: `a <= b <= c` (any two comparisons) makes the program invalid
instead of being read as one of the two possible conjunctions. -/
theorem comparison_chain_is_rejected {a b c : PExp} (ha : WFx a) (hb : WFx b) (hc : WFx c) (c1 c2 : Cmp) :
    parseProgram (.word "solve" :: .nl :: .st :: .nl ::
      (fmtToks a ++ cmpTok c1 :: (fmtToks b ++ cmpTok c2 :: (fmtToks c ++ [.nl])))) = .error .reject :=
  comparison_chain_rejected ha hb hc c1 c2

/-- non-vacuity: the program
`max sum(i in 0..n) { c[i] * x_i } - min { y, 2 }  s.t.  cap_i: x_i + x_{i + 1} <= 3 for i in 0..=n, (u, v) in edges(G)  /
x_0 and y  where let n = 2  let c = [1, 2, 3]  define x_i as IntegerRange(0, 10) for i in 0..3 / y, z as Boolean`
is in the printable fragment -/
def sampleProgram : PModel :=
  PModel.mk .max
    (.bin .sub (.scoped "sum" [.single "i"] [.call "range" [.int 0, .var "n", .bool false]]
        (.bin .mul (.access "c" [.var "i"]) (.cvar "x" [.var "i"])))
      (.block "min" [.var "y", .int 2]))
    [PConstraint.mk (some (.compound "cap" [.var "i"])) (.bin .add (.cvar "x" [.var "i"]) (.cvar "x" [.bin .add (.var "i") (.int 1)]))
        .le (.int 3) false [.single "i", .tuple ["u", "v"]]
        [.call "range" [.int 0, .var "n", .bool true], .call "edges" [.var "G"]],
     PConstraint.mk none (.bin .and (.cvar "x" [.int 0]) (.var "y")) .eq (.bool true) true [] []]
    [("n", .int 2), ("c", .prim "[1, 2, 3]")]
    [PDomain.mk [.compound "x" [.var "i"]] (.intRange (.int 0) (.int 10)) [.single "i"] [.call "range" [.int 0, .int 3, .bool false]],
     PDomain.mk [.plain "y", .plain "z"] .boolean [] []]

theorem sample_array_printable : coreExp (.prim "[1, 2, 3]") = true := by
  have h1 : intArrayOf "[1, 2, 3]" = some [1, 2, 3] := by decide
  have h2 : natDigits 1 = ['1'] := by rw [natDigits]; simp; decide
  have h3 : natDigits 2 = ['2'] := by rw [natDigits]; simp; decide
  have h4 : natDigits 3 = ['3'] := by rw [natDigits]; simp; decide
  simp only [coreExp, h1, List.map, h2, h3, h4]
  decide

theorem sample_printable : printable sampleProgram = true := by
  simp [printable, coreProgram, sampleProgram, coreExp, coreList, coreIdx, coreIters, coreIter, coreFor, coreName,
    coreType, printableIterVar, notForHead, constraintToks, domainToks, cnameToks, fmtToks, varListToks, sample_array_printable,
    printsParen, forToks, binKwTok, blockKindErr, i64Max, Gen.scopedKinds, Gen.blockKinds, Gen.blockArity]
  decide

/-- … and so the round trip holds for it -/
theorem sample_round_trip : parseProgram (progToks sampleProgram) = .ok sampleProgram :=
  parse_format_program sampleProgram sample_printable

/-! ### regression examples for the defects repaired in 6b01e1a / b4e2d1a / 8bf5921 -/

/-- `x - (y - z)`, `x / (2 * y)`, `x - (y + z)` and `(a implies b) iff c` keep their parentheses … -/
theorem text_keeps_needed_parens :
    fmtExp (.bin .sub (.var "x") (.bin .sub (.var "y") (.var "z"))) = "x - (y - z)"
    ∧ fmtExp (.bin .div (.var "x") (.bin .mul (.int 2) (.var "y"))) = "x / (2 * y)"
    ∧ fmtExp (.bin .sub (.var "x") (.bin .add (.var "y") (.var "z"))) = "x - (y + z)"
    ∧ fmtExp (.bin .iff (.bin .implies (.var "a") (.var "b")) (.var "c")) = "(a implies b) iff c" := by
  simp [fmtExp, wrapOperand, printsParen, varText, needsEscape, binOpText, Gen.binPrec, Gen.binLeftAssoc, natDigits, digitChar]

/-- … and no redundant ones: `(x - y) - z`, `a implies (b implies c)`, `x + y * z` -/
theorem text_no_redundant_parens :
    fmtExp (.bin .sub (.bin .sub (.var "x") (.var "y")) (.var "z")) = "x - y - z"
    ∧ fmtExp (.bin .implies (.var "a") (.bin .implies (.var "b") (.var "c"))) = "a implies b implies c"
    ∧ fmtExp (.bin .add (.var "x") (.bin .mul (.var "y") (.var "z"))) = "x + y * z" := by
  simp [fmtExp, wrapOperand, printsParen, varText, needsEscape, binOpText, Gen.binPrec, Gen.binLeftAssoc]

/-- a prefix operator keeps the parentheses of its operand: `-(x + y)`, `not (a or b)` -/
theorem text_unary_keeps_parens :
    fmtExp (.un .neg (.bin .add (.var "x") (.var "y"))) = "-(x + y)"
    ∧ fmtExp (.un .not (.bin .or (.var "a") (.var "b"))) = "not (a or b)"
    ∧ fmtExp (.un .neg (.un .neg (.int 2))) = "-(-2)" := by
  simp [fmtExp, wrapOperand, printsParen, wrapLeaf, varText, needsEscape, binOpText, unOpText, PExp.isLeaf, Gen.binPrec,
    Gen.binLeftAssoc, natDigits, digitChar]

/-- a `solve` program is printed without an operand; a name with leading underscores is not escaped, a name
with an inner underscore is -/
theorem text_solve_and_names :
    ({ objKind := .solve, objective := .bool true, constraints := [], constants := [], domains := [] } : PModel).text = "solve\ns.t.\n"
    ∧ varText "_u" = "_u" ∧ varText "$_v" = "$_v" ∧ varText "__w" = "__w" ∧ varText "x_1" = "\\x_1" := by
  refine ⟨by simp [PModel.text, ObjKind.text], ?_, ?_, ?_, ?_⟩ <;> simp [varText, needsEscape] <;> decide

/-! ### regression theorems for the printer repairs 10f80da / 7352fcb (the inputs of the former findings) -/

/-- the range sugar is written only where an iterator is expected: `len(range(0, 3, false))` keeps the call form,
`sum(i in 0..3) { i }` the sugar (C11-range-sugar-outside-iterator, repaired in 10f80da) -/
theorem text_range_sugar_only_in_iterators :
    fmtExp (.call "len" [.call "range" [.int 0, .int 3, .bool false]]) = "len(range(0, 3, false))"
    ∧ fmtExp (.scoped "sum" [.single "i"] [.call "range" [.int 0, .int 3, .bool false]] (.var "i")) = "sum(i in 0..3) { i }"
    ∧ fmtExp (.scoped "sum" [.single "i"] [.call "range" [.int 0, .var "n", .bool true]] (.var "i")) = "sum(i in 0..=n) { i }" := by
  simp [fmtExp, fmtList, fmtIters, fmtIter, iterText, callText, joinWith, wrapLeaf, PExp.isLeaf, IterVar.text, varText, needsEscape,
    natDigits, digitChar]

/-- the sugar needs a LITERAL flag: a `range` call in iterator position whose inclusiveness is a constant or an expression
(`closed`, `not open`) keeps the call form — written as `0..n` it would lose its last element whenever the flag is true —
and such an iteration is in the printable fragment -/
theorem text_range_flag_expression :
    fmtExp (.scoped "sum" [.single "i"] [.call "range" [.int 0, .var "n", .var "closed"]] (.var "i")) = "sum(i in range(0, n, closed)) { i }"
    ∧ fmtExp (.scoped "sum" [.single "i"] [.call "range" [.int 1, .var "n", .un .not (.var "open")]] (.var "i"))
        = "sum(i in range(1, n, not open)) { i }"
    ∧ coreExp (.scoped "sum" [.single "i"] [.call "range" [.int 0, .var "n", .var "closed"]] (.var "i")) = true := by
  refine ⟨?_, ?_, ?_⟩
  · simp [fmtExp, fmtList, fmtIters, fmtIter, iterText, callText, joinWith, IterVar.text, varText, needsEscape, natDigits, digitChar]
  · simp [fmtExp, fmtList, fmtIters, fmtIter, iterText, callText, joinWith, IterVar.text, varText, needsEscape, natDigits, digitChar,
      unOpText, wrapLeaf, PExp.isLeaf]
  · simp [coreExp, coreList, coreIters, coreIter, printableIterVar, nameVar, plainVar, isPlainRun, isLetter, isDigit, extraLetters, isKeyword,
      isFunctionName, i64Max, Gen.scopedKinds] <;> decide

/-- an index of a compound variable that is no non-negative integer, integral decimal, name fragment or variable is
written in braces: `x_{1.5}`, `x_{"a"}`; `x_{2}` and the name fragment `_2` stay bare (C11-float-index-printed-bare,
C11-string-index-printed-bare, repaired in 7352fcb) -/
theorem text_index_braces :
    fmtExp (.cvar "x" [.num "1.5"]) = "x_{1.5}"
    ∧ fmtExp (.cvar "x" [.str "a"]) = "x_{\"a\"}"
    ∧ fmtExp (.cvar "x" [.int 2, .var "i"]) = "x_2_i"
    ∧ fmtExp (.cvar "x" [.num "2"]) = "x_2"
    ∧ fmtExp (.cvar "set" [.str "_2"]) = "set__2" := by
  refine ⟨?_, ?_, ?_, ?_, ?_⟩ <;>
    simp [fmtExp, fmtIndexes, indexText, joinWith, numIndexBare, strIndexBare, isDigit, isLetter, extraLetters, natDigits, digitChar] <;> decide

/-- a VARIABLE index with an underscore in its name is written in braces (`x__i` would be read as the name fragment
`_i`, `y_a_b` as two indexes); a plain variable index stays bare (C11-underscore-variable-index-printed-bare, repaired
in 7719594) -/
theorem text_underscore_variable_index :
    fmtExp (.cvar "x" [.var "_i"]) = "x_{_i}"
    ∧ fmtExp (.cvar "x" [.var "_i", .var "j"]) = "x_{_i}_j"
    ∧ fmtExp (.cvar "y" [.var "a_b"]) = "y_{\\a_b}"
    ∧ fmtExp (.cvar "x" [.var "i"]) = "x_i"
    ∧ fmtToks (.cvar "x" [.var "_i", .var "j"]) = [.word "x", .us, .lbrace, .word "_i", .rbrace, .us, .word "j"] := by
  refine ⟨?_, ?_, ?_, ?_, ?_⟩ <;>
    simp [fmtExp, fmtIndexes, indexText, joinWith, varText, needsEscape, fmtToks, fmtToksIdx] <;> decide

/-- … and these trees are in the printable fragment, so `parse_format_printable_exp` gives their round trip: the
exceptions the fragment carried for the two defects are gone -/
theorem repaired_inputs_printable :
    coreExp (.call "len" [.call "range" [.int 0, .int 3, .bool false]]) = true
    ∧ coreExp (.cvar "x" [.num "1.5"]) = true
    ∧ coreExp (.cvar "x" [.str "a", .var "i"]) = true
    ∧ coreExp (.cvar "set" [.str "_2"]) = false := by
  refine ⟨?_, ?_, ?_, ?_⟩ <;>
    simp [coreExp, coreList, coreIdx, isFunctionName, isPlainRun, isLetter, isDigit, extraLetters, i64Max, isFloatText,
      numIndexBare, strIndexBare] <;> decide

end Rooc.Props.C11
