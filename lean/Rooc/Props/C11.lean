/-
C11 — Formatting preserves meaning and is idempotent.  PROPERTY THEOREMS ONLY.

Vocabulary: `fmtExp` / `PModel.text` (`Rooc/Syntax/Format.lean`) is the executable port of the printers
behind `RoocParser::format`, diffed byte-for-byte against the real formatter on every run; `fmtToks` is the
same printer as tokens (the driver checks on every case that lexing `fmtExp e` gives `fmtToks e`);
`parseToks` is the parser model of C09; `fmtToksFixed` is the printer after `fixes/C11-parens.diff`.
The theorems are about the expression sub-language (the objective, both sides of every constraint,
constant values and domain bounds are such expressions); the program skeleton, declarations, blocks and
iterations are covered by the correspondence run and the implementation-side re-parse only.
-/
import Lean
import Rooc.Proofs.Format
import Rooc.Proofs.Idem
import Rooc.Proofs.IdemText
namespace Rooc.Props.C11
open Rooc Rooc.Syntax Rooc.Syntax.Doc Rooc.Syntax.Proofs

/-- The REGENERATED tables of `BinOp::precedence` / `is_left_associative` (math/operators.rs), which
drive the printer, are the documented ones. -/
theorem printer_table_documented (o : BinOp) :
    Gen.binPrec o = docLevel o ∧ Gen.binLeftAssoc o = !(docRightAssoc o) :=
  ⟨prec_documented o, assoc_documented o⟩

/-- **`parse (format t) = t`** — proved where the printer emits every parenthesis the grammar needs
(`roundTrips`, a decidable predicate the driver evaluates): every tree without an operand of EQUAL
precedence on the regrouping side. -/
theorem parse_format_partial (t : PExp) (h : WF t) (hr : roundTrips t = true) :
    parseToks (fmtToks t) = .ok t := by
  obtain ⟨items, hk, _⟩ := fmt_tk t h hr
  exact parse_tk hk

example : WF (.bin .sub (.bin .sub (.var "x") (.var "y")) (.bin .mul (.int 2) (.un .neg (.bin .add (.var "z") (.int 1)))))
    ∧ roundTrips (.bin .sub (.bin .sub (.var "x") (.var "y")) (.bin .mul (.int 2) (.un .neg (.bin .add (.var "z") (.int 1))))) = true := by
  refine ⟨?_, by decide⟩
  simp [WF]; decide

/-- … and it is FALSE outside: `x - (y - z)` is printed `x - y - z`, which is read as `(x - y) - z`. -/
theorem parse_format_counterexample :
    WF (.bin .sub (.var "x") (.bin .sub (.var "y") (.var "z")))
      ∧ roundTrips (.bin .sub (.var "x") (.bin .sub (.var "y") (.var "z"))) = false
      ∧ parseToks (fmtToks (.bin .sub (.var "x") (.bin .sub (.var "y") (.var "z"))))
          = .ok (.bin .sub (.bin .sub (.var "x") (.var "y")) (.var "z")) := by
  refine ⟨by simp [WF]; decide, by decide, ?_⟩
  have hx : Atom (.var "x") (.word "x") := Atom.var "x" (by decide) (by decide)
  have hy : Atom (.var "y") (.word "y") := Atom.var "y" (by decide) (by decide)
  have hz : Atom (.var "z") (.word "z") := Atom.var "z" (by decide) (by decide)
  have := parse_tk (Tk.bin (Tk.bin (Tk.atom hx) (Tk.atom hy) (Or.inl rfl) (Or.inl rfl) (by simp [binToks] : Tok.minus ∈ binToks .sub))
    (Tk.atom hz) (Or.inr (by decide)) (Or.inl rfl) (by simp [binToks] : Tok.minus ∈ binToks .sub))
  simpa [fmtToks, printsParen, Gen.binPrec, binKwTok] using this

/-- The needed-but-not-printed parentheses are EXACTLY these (parent, child) pairs on the right …
(the finite table behind the known findings `paren-dropped:<parent>/<child>/right`) -/
theorem dropped_right_table (p c : BinOp) (x y : PExp) :
    (needParenRight p (.bin c x y) = true ∧ printsParen (Gen.binPrec p) (.bin c x y) = false) ↔
      (p, c) ∈ [(BinOp.add, BinOp.add), (.add, .sub), (.sub, .add), (.sub, .sub), (.mul, .mul), (.mul, .div),
                (.div, .mul), (.div, .div), (.and, .and), (.or, .or), (.xor, .xor), (.iff, .iff), (.iff, .implies)] := by
  simp only [needParenRight, printsParen]
  cases p <;> cases c <;> decide

/-- … and these on the left (`paren-dropped:<parent>/<child>/left`). -/
theorem dropped_left_table (p c : BinOp) (x y : PExp) :
    (needParenLeft p (.bin c x y) = true ∧ printsParen (Gen.binPrec p) (.bin c x y) = false) ↔
      (p, c) ∈ [(BinOp.implies, BinOp.implies), (.iff, .implies)] := by
  simp only [needParenLeft, printsParen]
  cases p <;> cases c <;> decide

/-- `format (parse (format t)) = format t` on the same region. -/
theorem format_idem_partial (t : PExp) (h : WF t) (hr : roundTrips t = true) :
    (parseToks (fmtToks t)).map fmtToks = .ok (fmtToks t) := by
  rw [parse_format_partial t h hr]; rfl

/-- **The formatted text always parses and formats to itself again** — for EVERY tree of the sub-language,
also where parentheses are dropped: the printed tokens parse to `norm t` (`t` re-associated exactly at the
dropped parentheses), and that tree is printed as the same tokens. (So the defect is "meaning changes",
never "invalid program" or "not idempotent", on this fragment.) -/
theorem format_idem (t : PExp) (h : WF t) :
    ∃ t', parseToks (fmtToks t) = .ok t' ∧ fmtToks t' = fmtToks t :=
  ⟨norm t, fmt_idem t h⟩

example : norm (.bin .sub (.var "x") (.bin .sub (.var "y") (.var "z"))) = .bin .sub (.bin .sub (.var "x") (.var "y")) (.var "z") := by
  simp [norm, join, dropL, dropR, needParenLeft, needParenRight, printsParen, Gen.binPrec, lbpD, rbpD, docLevel, docRightAssoc]

/-- **The repair is right**: with `fixes/C11-parens.diff` (parentheses also around a right operand of equal
precedence under a left-associative operator and around a right-associative left operand of equal
precedence) `parse (format t) = t` holds for EVERY tree of the sub-language … -/
theorem parse_format_fixed (t : PExp) (h : WF t) : parseToks (fmtToksFixed t) = .ok t := by
  obtain ⟨items, hk, _⟩ := fmtFixed_tk t h
  exact parse_tk hk

/-- … and formatting is idempotent. -/
theorem format_idem_fixed (t : PExp) (h : WF t) :
    (parseToks (fmtToksFixed t)).map fmtToksFixed = .ok (fmtToksFixed t) := by
  rw [parse_format_fixed t h]; rfl

example : WF (.bin .sub (.var "x") (.bin .sub (.var "y") (.var "z"))) := by simp [WF]; decide

/-- the repaired rule never adds parentheses the grammar does not need on the operands the old rule left
bare: it is the old rule plus exactly the two tables above -/
theorem fixed_rule_is_minimal (p c : BinOp) (x y : PExp) :
    (printsParenFixed p true (.bin c x y) = (printsParen (Gen.binPrec p) (.bin c x y) || needParenRight p (.bin c x y)))
    ∧ (printsParenFixed p false (.bin c x y) = (printsParen (Gen.binPrec p) (.bin c x y) || needParenLeft p (.bin c x y))) := by
  simp only [printsParenFixed, printsParen, needParenRight, needParenLeft]
  cases p <;> cases c <;> decide

/-! ### on the printed TEXT: `fmtExp` is the printer the byte-exact diff validates -/

/-- the text the printer writes is cut by the lexer into exactly the tokens of `fmtToks` (trees with plain
names and float literals `ddd.ddd`) -/
theorem printed_text_tokens (t : PExp) (ht : TextOK t) : lex (fmtExp t).toList = .ok (fmtToks t) :=
  lex_fmtExp t ht

/-- `parse (format t) = t` on the text, same region as `parse_format_partial` -/
theorem parse_format_text_partial (t : PExp) (h : WF t) (ht : TextOK t) (hr : roundTrips t = true) :
    parseText (fmtExp t).toList = .ok t := by
  simp only [parseText, lex_fmtExp t ht, parse_format_partial t h hr]

/-- the formatted TEXT of every tree parses, and the tree it parses to is formatted as the same TEXT -/
theorem format_idem_text (t : PExp) (h : WF t) (ht : TextOK t) :
    ∃ t', parseText (fmtExp t).toList = .ok t' ∧ fmtExp t' = fmtExp t :=
  ⟨norm t, fmt_idem_text t h ht⟩

/-! ### the same on concrete texts (`fmtExp` is the printer the byte-exact diff validates) -/

/-- `x - (y - z)`, `x / (2 * y)` and `x - (y + z)` are printed without their parentheses … -/
theorem text_dropped_parens :
    fmtExp (.bin .sub (.var "x") (.bin .sub (.var "y") (.var "z"))) = "x - y - z"
    ∧ fmtExp (.bin .div (.var "x") (.bin .mul (.int 2) (.var "y"))) = "x / 2 * y"
    ∧ fmtExp (.bin .sub (.var "x") (.bin .add (.var "y") (.var "z"))) = "x - y + z" := by
  simp [fmtExp, wrapPrec, varText, binOpText, Gen.binPrec, natDigits, digitChar]

/-- … and the printed text of the first one is read back as a different tree. -/
theorem text_format_changes_tree :
    parseText (fmtExp (.bin .sub (.var "x") (.bin .sub (.var "y") (.var "z")))).toList
      = .ok (.bin .sub (.bin .sub (.var "x") (.var "y")) (.var "z")) := by
  rw [text_dropped_parens.1]
  have hl : lex "x - y - z".toList = .ok (fmtToks (.bin .sub (.var "x") (.bin .sub (.var "y") (.var "z")))) := by decide
  have hp := parse_format_counterexample.2.2
  simp only [parseText, hl, hp]

/-- a prefix operator keeps the parentheses of its operand: `-(x + y)`, `not (a or b)` -/
theorem text_unary_keeps_parens :
    fmtExp (.un .neg (.bin .add (.var "x") (.var "y"))) = "-(x + y)"
    ∧ fmtExp (.un .not (.bin .or (.var "a") (.var "b"))) = "not (a or b)"
    ∧ fmtExp (.un .neg (.un .neg (.int 2))) = "-(-2)" := by
  simp [fmtExp, wrapPrec, wrapLeaf, varText, binOpText, unOpText, PExp.isLeaf, Gen.binPrec, natDigits, digitChar]

end Rooc.Props.C11
