/-
C11 — Formatting preserves meaning and is idempotent.  PROPERTY THEOREMS ONLY.

Vocabulary: `fmtExp` / `PModel.text` (`Rooc/Syntax/Format.lean`) is the executable port of the printers
behind `RoocParser::format`, diffed byte-for-byte against the real formatter on every run; `fmtToks` is the
same printer as tokens (the driver checks on every case that lexing `fmtExp e` gives `fmtToks e`);
`parseToks` is the parser model of C09.
The theorems are about the expression sub-language (the objective, both sides of every constraint,
constant values and domain bounds are such expressions); the program skeleton, declarations, blocks and
iterations are covered by the correspondence run and the implementation-side re-parse only.
-/
import Lean
import Rooc.Proofs.Format
import Rooc.Proofs.LexFormat
import Rooc.Proofs.Program
namespace Rooc.Props.C11
open Rooc Rooc.Syntax Rooc.Syntax.Doc Rooc.Syntax.Proofs

/-- The REGENERATED tables of `BinOp::precedence` / `is_left_associative` (math/operators.rs), which
drive the printer, are the documented ones. -/
theorem printer_table_documented (o : BinOp) :
    Gen.binPrec o = docLevel o ∧ Gen.binLeftAssoc o = !(docRightAssoc o) :=
  ⟨prec_documented o, assoc_documented o⟩

/-- **`parse (format t) = t`** for EVERY tree of the sub-language: the printer emits every parenthesis the
grammar needs. -/
theorem parse_format (t : PExp) (h : WF t) : parseToks (fmtToks t) = .ok t := by
  obtain ⟨items, hk, _⟩ := fmt_tk t h
  exact parse_tk hk

example : WF (.bin .sub (.var "x") (.bin .sub (.var "y") (.bin .mul (.int 2) (.un .neg (.bin .add (.var "z") (.int 1)))))) := by
  simp [WF]; decide

/-- **Formatting is idempotent**: the formatted tokens parse, and what they parse to is formatted as the
same tokens. -/
theorem format_idem (t : PExp) (h : WF t) :
    ∃ t', parseToks (fmtToks t) = .ok t' ∧ fmtToks t' = fmtToks t :=
  ⟨t, parse_format t h, rfl⟩

/-- **No needed parenthesis is dropped**: the table of (parent, child) pairs whose RIGHT operand needs
parentheses that the printer does not emit is empty … -/
theorem dropped_right_table_empty (p c : BinOp) (x y : PExp) :
    ¬ (needParenRight p (.bin c x y) = true ∧ printsParen p true (.bin c x y) = false) := by
  simp only [needParenRight, printsParen]
  cases p <;> cases c <;> decide

/-- … and so is the table for LEFT operands. -/
theorem dropped_left_table_empty (p c : BinOp) (x y : PExp) :
    ¬ (needParenLeft p (.bin c x y) = true ∧ printsParen p false (.bin c x y) = false) := by
  simp only [needParenLeft, printsParen]
  cases p <;> cases c <;> decide

/-- the printer's rule is minimal: it parenthesises an operand exactly when its precedence is strictly lower
or the grammar needs it -/
theorem printer_rule_is_minimal (p c : BinOp) (x y : PExp) :
    (printsParen p true (.bin c x y) = (decide (Gen.binPrec c < Gen.binPrec p) || needParenRight p (.bin c x y)))
    ∧ (printsParen p false (.bin c x y) = (decide (Gen.binPrec c < Gen.binPrec p) || needParenLeft p (.bin c x y))) := by
  simp only [printsParen, needParenRight, needParenLeft]
  cases p <;> cases c <;> decide

/-! ### on the printed TEXT: `fmtExp` is the printer the byte-exact diff validates -/

/-- the text the printer writes is cut by the lexer into exactly the tokens of `fmtToks` (trees with plain
names and float literals `ddd.ddd`) -/
theorem printed_text_tokens (t : PExp) (ht : TextOK t) : lex (fmtExp t).toList = .ok (fmtToks t) :=
  lex_fmtExp t ht

/-- `parse (format t) = t` on the text -/
theorem parse_format_text (t : PExp) (h : WF t) (ht : TextOK t) : parseText (fmtExp t).toList = .ok t := by
  simp only [parseText, lex_fmtExp t ht, parse_format t h]

/-- the formatted TEXT of every tree parses, and the tree it parses to is formatted as the same TEXT -/
theorem format_idem_text (t : PExp) (h : WF t) (ht : TextOK t) :
    ∃ t', parseText (fmtExp t).toList = .ok t' ∧ fmtExp t' = fmtExp t :=
  ⟨t, parse_format_text t h ht, rfl⟩

/-! ### whole programs (fragment without iterations: objective, named / compared / asserted constraints, `where`
constants, `define` declarations with no or two-sided bounds)

`parseProgram` is the program-level parser model (`Rooc/Syntax/Program.lean`, diffed against `RoocParser::parse`
on generated programs and their formatted texts), `progToks` the token-level twin of `PModel.text`
(= `RoocParser::format`); the driver checks on every program of the fragment that lexing the printed text gives
`progToks`. -/

/-- **`parse (format program) = program`** for every program of the fragment -/
theorem parse_format_program (m : PModel) (h : WFp m) : parseProgram (progToks m) = .ok m :=
  parseProgram_fmt m h

/-- the formatted program parses and is formatted as itself again -/
theorem format_idem_program (m : PModel) (h : WFp m) :
    ∃ m', parseProgram (progToks m) = .ok m' ∧ progToks m' = progToks m :=
  ⟨m, parseProgram_fmt m h, rfl⟩

/-- **A comparison chain is not a constraint**: `a <= b <= c` (any two comparisons) makes the program invalid
instead of being read as one of the two possible conjunctions. -/
theorem comparison_chain_is_rejected {a b c : PExp} (ha : WF a) (hb : WF b) (hc : WF c) (c1 c2 : Cmp) :
    parseProgram (.word "solve" :: .nl :: .st :: .nl ::
      (fmtToks a ++ cmpTok c1 :: (fmtToks b ++ cmpTok c2 :: (fmtToks c ++ [.nl])))) = .error .reject :=
  comparison_chain_rejected ha hb hc c1 c2

/-- non-vacuity: `max x - (y - 2) s.t. c1: x <= 3  /  x and y  where let k = 2 define x, y as Real(0, k) / z as Boolean` -/
example : WFp (PModel.mk .max (.bin .sub (.var "x") (.bin .sub (.var "y") (.int 2)))
    [PConstraint.mk (some (.plain "c1")) (.var "x") .le (.int 3) false [] [],
     PConstraint.mk none (.bin .and (.var "x") (.var "y")) .eq (.bool true) true [] []]
    [("k", .int 2)]
    [PDomain.mk [.plain "x", .plain "y"] (.real (some (.int 0)) (some (.var "k"))) [] [],
     PDomain.mk [.plain "z"] .boolean [] []]) := by
  refine ⟨?_, ?_, ?_, ?_, Or.inl (by simp)⟩
  · simp [WF]; decide
  · intro c hc
    simp only [List.mem_cons, List.mem_nil_iff, or_false] at hc
    rcases hc with rfl | rfl <;> simp [WFc, WF] <;> decide
  · intro k hk
    simp only [List.mem_cons, List.mem_nil_iff, or_false] at hk
    subst hk; simp [WF]; decide
  · intro d hd
    simp only [List.mem_cons, List.mem_nil_iff, or_false] at hd
    rcases hd with rfl | rfl <;> simp [WFd, WFt, WF, plainName] <;> decide

/-! ### regression examples for the defects repaired in 6b01e1a / b4e2d1a / 8bf5921 -/

/-- `x - (y - z)`, `x / (2 * y)`, `x - (y + z)` and `(a implies b) iff c` keep their parentheses … -/
theorem text_keeps_needed_parens :
    fmtExp (.bin .sub (.var "x") (.bin .sub (.var "y") (.var "z"))) = "x - (y - z)"
    ∧ fmtExp (.bin .div (.var "x") (.bin .mul (.int 2) (.var "y"))) = "x / (2 * y)"
    ∧ fmtExp (.bin .sub (.var "x") (.bin .add (.var "y") (.var "z"))) = "x - (y + z)"
    ∧ fmtExp (.bin .iff (.bin .implies (.var "a") (.var "b")) (.var "c")) = "(a implies b) iff c" := by
  simp [fmtExp, wrapOperand, printsParen, varText, needsEscape, binOpText, Gen.binPrec, Gen.binLeftAssoc, natDigits, digitChar]

/-- … and no redundant ones: `(x - y) - z`, `a implies (b implies c)`, `x + y * z` -/
theorem text_no_redundant_parens :
    fmtExp (.bin .sub (.bin .sub (.var "x") (.var "y")) (.var "z")) = "x - y - z"
    ∧ fmtExp (.bin .implies (.var "a") (.bin .implies (.var "b") (.var "c"))) = "a implies b implies c"
    ∧ fmtExp (.bin .add (.var "x") (.bin .mul (.var "y") (.var "z"))) = "x + y * z" := by
  simp [fmtExp, wrapOperand, printsParen, varText, needsEscape, binOpText, Gen.binPrec, Gen.binLeftAssoc]

/-- a prefix operator keeps the parentheses of its operand: `-(x + y)`, `not (a or b)` -/
theorem text_unary_keeps_parens :
    fmtExp (.un .neg (.bin .add (.var "x") (.var "y"))) = "-(x + y)"
    ∧ fmtExp (.un .not (.bin .or (.var "a") (.var "b"))) = "not (a or b)"
    ∧ fmtExp (.un .neg (.un .neg (.int 2))) = "-(-2)" := by
  simp [fmtExp, wrapOperand, printsParen, wrapLeaf, varText, needsEscape, binOpText, unOpText, PExp.isLeaf, Gen.binPrec,
    Gen.binLeftAssoc, natDigits, digitChar]

/-- a `solve` program is printed without an operand; a name with leading underscores is not escaped, a name
with an inner underscore is -/
theorem text_solve_and_names :
    ({ objKind := .solve, objective := .bool true, constraints := [], constants := [], domains := [] } : PModel).text = "solve\ns.t.\n"
    ∧ varText "_u" = "_u" ∧ varText "$_v" = "$_v" ∧ varText "__w" = "__w" ∧ varText "x_1" = "\\x_1" := by
  refine ⟨by simp [PModel.text, ObjKind.text], ?_, ?_, ?_, ?_⟩ <;> simp [varText, needsEscape] <;> decide

end Rooc.Props.C11
