/- C11 — property theorems only (helper lemmas live in `Rooc/Proofs`). -/
namespace Rooc.Props.C11
end Rooc.Props.C11
