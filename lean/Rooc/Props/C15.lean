/-
C15 — Limits and tolerances never turn into wrong answers.  PROPERTY THEOREMS ONLY.

The branch-and-bound search is a parameter (`search : Options → MlpOutcome`, the answer of microlp's
`Problem::solve_with` after its own validation); WHERE the search is when the clock fires is a run-time fact and
is sampled by the harness.  Proved here, for every model, every option value and every search:
* the labelling of the code AS IT STANDS (`Milp.solveMilpWith`, status of the microlp solution never read) is unsound
  — concrete counterexample — and sound only when no limit can fire (`_partial`);
* the repaired labelling (`Milp.solveMilpWithFixed`, fix candidate `fixes/C15-milp-status.diff`) is sound at full
  strength: `Optimal` only for a finished search, `Feasible` only with an incumbent, an error without one;
* invalid option values are rejected with an error by both.
microlp's contract enters only as explicit hypotheses (`NoLimitOptimal`, `OptimalWithin`).
-/
import Rooc.Milp
import Rooc.Proofs.Field
namespace Rooc.Props.C15
open Rooc Rooc.SolverWrap Rooc.Milp

variable {K : Type} [Field K] [LinearOrder K] [IsStrictOrderedRing K] [FloorRing K]

abbrev Search (K : Type) := Options (Ext K) → MlpOutcome (Ext K)

/-- assumed contract of microlp: without a limit the search runs to completion (`Status::Optimal`). rooc sets no
node limit, so the time limit is the only limit. -/
def NoLimitOptimal (search : Search K) : Prop :=
  ∀ o st obj vals, o.timeLimitNs = none → search o = .ok st obj vals → st = .optimal

/-! ### what `wrapMilp` / `wrapMilpFixed` answer -/

theorem wrapMilp_ok_inv {lm : LinModel (Ext K)} {out : MlpOutcome (Ext K)} {s : Solution (Ext K)}
    (h : wrapMilp lm out = .ok s) : ∃ st obj vals, out = .ok st obj vals ∧ s.status = .optimal := by
  unfold wrapMilp at h
  split at h
  · simp at h
  · split at h
    · simp at h
    · split at h
      · simp at h
      · cases out with
        | err e => simp only at h; split at h <;> simp at h
        | ok st obj vals =>
          simp only at h
          cases hc : constraintsMap lm vals with
          | none => simp [hc] at h
          | some cm =>
            simp only [hc, Res.ok.injEq] at h
            subst h
            exact ⟨st, obj, vals, rfl, rfl⟩

theorem wrapMilpFixed_ok_inv {lm : LinModel (Ext K)} {out : MlpOutcome (Ext K)} {s : Solution (Ext K)}
    (h : wrapMilpFixed lm out = .ok s) :
    ∃ st obj vals, out = .ok st obj vals ∧
      ((st = .optimal ∧ s.status = .optimal) ∨ (st = .feasible ∧ s.status = .feasible)) := by
  cases out with
  | err e =>
    unfold wrapMilpFixed at h
    cases hw : wrapMilp lm (.err e) with
    | ok s' => obtain ⟨_, _, _, h1, _⟩ := wrapMilp_ok_inv hw; simp at h1
    | err v => simp [hw] at h
    | panic => simp [hw] at h
  | ok st obj vals =>
    unfold wrapMilpFixed at h
    cases hw : wrapMilp lm (.ok st obj vals) with
    | err v => cases st <;> simp [hw] at h
    | panic => cases st <;> simp [hw] at h
    | ok s' =>
      obtain ⟨_, _, _, _, hs'⟩ := wrapMilp_ok_inv hw
      cases st with
      | optimal =>
        simp only [hw, Res.ok.injEq] at h; subst h
        exact ⟨_, _, _, rfl, Or.inl ⟨rfl, hs'⟩⟩
      | feasible =>
        simp only [hw, Res.ok.injEq] at h; subst h
        exact ⟨_, _, _, rfl, Or.inr ⟨rfl, rfl⟩⟩
      | interrupted => simp [hw] at h

theorem microlpSolveWith_ok {o : Options (Ext K)} {search : Search K} {st : MlpStatus} {obj : Ext K}
    {vals : List (Ext K)} (h : microlpSolveWith o search = .ok st obj vals) :
    optionsValid o = true ∧ search o = .ok st obj vals := by
  unfold microlpSolveWith at h
  split at h
  · rename_i hv; exact ⟨hv, h⟩
  · simp at h

/-! ### labelling -/

/-- REPAIRED CODE, full strength: a solution labelled `Optimal` comes from a search that microlp reports as finished
(`Status::Optimal`, i.e. proven optimal within the configured gap). -/
theorem label_sound_fixed (lm : LinModel (Ext K)) (o : Options (Ext K)) (search : Search K) (s : Solution (Ext K))
    (h : solveMilpWithFixed lm o search = .ok s) (hs : s.status = .optimal) :
    ∃ obj vals, search o = .ok .optimal obj vals := by
  obtain ⟨st, obj, vals, hout, hcase⟩ := wrapMilpFixed_ok_inv h
  obtain ⟨_, hsearch⟩ := microlpSolveWith_ok hout
  rcases hcase with ⟨rfl, _⟩ | ⟨_, hf⟩
  · exact ⟨obj, vals, hsearch⟩
  · rw [hf] at hs; cases hs

/-- consequence under microlp's contract for `Status::Optimal` (any predicate `Within` the dependency guarantees for
a finished search, e.g. "objective within the requested gap of the true optimum"). -/
theorem optimal_label_within_gap_fixed (Within : Options (Ext K) → Ext K → List (Ext K) → Prop)
    (lm : LinModel (Ext K)) (o : Options (Ext K)) (search : Search K) (s : Solution (Ext K))
    (contract : ∀ obj vals, search o = .ok .optimal obj vals → Within o obj vals)
    (h : solveMilpWithFixed lm o search = .ok s) (hs : s.status = .optimal) :
    ∃ obj vals, search o = .ok .optimal obj vals ∧ Within o obj vals := by
  obtain ⟨obj, vals, hsearch⟩ := label_sound_fixed lm o search s h hs
  exact ⟨obj, vals, hsearch, contract obj vals hsearch⟩

/-- REPAIRED CODE: a returned solution always has an incumbent behind it (microlp reports `Interrupted` exactly when
there is none), and it is labelled `Feasible` when the search did not finish. -/
theorem no_solution_without_incumbent_fixed (lm : LinModel (Ext K)) (o : Options (Ext K)) (search : Search K)
    (s : Solution (Ext K)) (h : solveMilpWithFixed lm o search = .ok s) :
    ∃ st obj vals, search o = .ok st obj vals ∧ st ≠ .interrupted ∧
      (st = .feasible → s.status = .feasible) := by
  obtain ⟨st, obj, vals, hout, hcase⟩ := wrapMilpFixed_ok_inv h
  obtain ⟨_, hsearch⟩ := microlpSolveWith_ok hout
  rcases hcase with ⟨rfl, _⟩ | ⟨rfl, hf⟩
  · exact ⟨_, obj, vals, hsearch, by decide, by intro h; cases h⟩
  · exact ⟨_, obj, vals, hsearch, by decide, fun _ => hf⟩

/-- REPAIRED CODE: a search stopped before any feasible point is known is reported as an error. -/
theorem interrupted_is_error_fixed (lm : LinModel (Ext K)) (o : Options (Ext K)) (search : Search K)
    (obj : Ext K) (vals : List (Ext K)) (hi : search o = .ok .interrupted obj vals) :
    ∀ s, solveMilpWithFixed lm o search ≠ .ok s := by
  intro s h
  obtain ⟨st, _, _, hst, hne, _⟩ := no_solution_without_incumbent_fixed lm o search s h
  rw [hi] at hst
  cases hst
  exact hne rfl

/-- CURRENT CODE (partial: no time limit, under microlp's contract that only a limit stops the search early): the
`Optimal` label is right. The hypothesis `o.timeLimitNs = none` is decidable; the harness counts the cases inside. -/
theorem label_sound_partial (lm : LinModel (Ext K)) (o : Options (Ext K)) (search : Search K) (s : Solution (Ext K))
    (hno : o.timeLimitNs = none) (contract : NoLimitOptimal search)
    (h : solveMilpWith lm o search = .ok s) :
    s.status = .optimal ∧ ∃ obj vals, search o = .ok .optimal obj vals := by
  obtain ⟨st, obj, vals, hout, hs⟩ := wrapMilp_ok_inv h
  obtain ⟨_, hsearch⟩ := microlpSolveWith_ok hout
  have := contract o st obj vals hno hsearch
  subst this
  exact ⟨hs, obj, vals, hsearch⟩

/-- the one-variable model `max b, b ∈ {0,1}` used by the counterexamples. -/
def tiny : LinModel (Ext K) :=
  { optType := .max, objective := [Ext.fin 1], offset := Ext.fin 0, vars := ["b"],
    domain := [{ name := "b", ty := .bool, usage := 1 }], rows := [] }

/-- CURRENT CODE, COUNTEREXAMPLE to `label_sound` and to `no_solution_without_incumbent`: with a time limit, a search
that microlp reports as `Interrupted` (no incumbent; the values are its fractional working point `b = 1/2`) is
returned as `Ok` with status `Optimal` — and the working point reads back as `b = true`. -/
theorem label_sound_counterexample :
    ∃ (lm : LinModel (Ext K)) (o : Options (Ext K)) (search : Search K) (s : Solution (Ext K)),
      search o = .ok .interrupted (Ext.fin (1 / 2)) [Ext.fin (1 / 2)] ∧
      solveMilpWith lm o search = .ok s ∧ s.status = .optimal ∧
      s.assignment = [("b", .bool true)] := by
  refine ⟨tiny, { mipGap := none, timeLimitNs := some 0 },
    fun _ => .ok .interrupted (Ext.fin (1 / 2)) [Ext.fin (1 / 2)],
    lpSolutionNew [("b", .bool true)] (Arith.add (Ext.fin (1 / 2)) (Ext.fin 0)) [], rfl, ?_, rfl, rfl⟩
  simp [solveMilpWith, microlpSolveWith, optionsValid, wrapMilp, tiny, domainOf, isStrict, constraintsMap,
    calcConstraints, imCollect, zipNames, readBack, Arith.ne, Arith.eq, Ext.eq, Arith.ofInt]

/-! ### options -/

/-- which gaps microlp accepts: exactly the finite non-negative numbers (NaN, ±inf and negative values are invalid). -/
theorem gapValid_iff (g : Ext K) : gapValid g = true ↔ ∃ q : K, g = Ext.fin q ∧ 0 ≤ q := by
  cases g with
  | nan => simp [gapValid, Arith.isFinite, Ext.isFinite]
  | ninf => simp [gapValid, Arith.isFinite, Ext.isFinite]
  | pinf => simp [gapValid, Arith.isFinite, Ext.isFinite]
  | fin q => simp [gapValid, Arith.isFinite, Ext.isFinite, Arith.lt, Ext.lt, Arith.ofInt]

/-- Invalid option values never produce a solution, whatever the search would have answered — for the code as it
stands and for the repaired code. -/
theorem invalid_options_never_ok (lm : LinModel (Ext K)) (o : Options (Ext K)) (search : Search K)
    (hinv : optionsValid o = false) :
    (∀ s, solveMilpWith lm o search ≠ .ok s) ∧ (∀ s, solveMilpWithFixed lm o search ≠ .ok s) := by
  have hout : microlpSolveWith o search = .err "InvalidOptions" := by simp [microlpSolveWith, hinv]
  constructor
  · intro s h
    obtain ⟨_, _, _, h1, _⟩ := wrapMilp_ok_inv h
    rw [hout] at h1; cases h1
  · intro s h
    obtain ⟨_, _, _, h1, _⟩ := wrapMilpFixed_ok_inv h
    rw [hout] at h1; cases h1

/-- … and on a model the wrapper accepts they are rejected with the error `SolverError::Other`. -/
theorem invalid_options_rejected (lm : LinModel (Ext K)) (o : Options (Ext K)) (search : Search K)
    (hacc : accepted lm = true) (hinv : optionsValid o = false) :
    solveMilpWith lm o search = .err "Other" ∧ solveMilpWithFixed lm o search = .err "Other" := by
  have hout : microlpSolveWith o search = .err "InvalidOptions" := by simp [microlpSolveWith, hinv]
  simp only [accepted, Bool.and_eq_true, beq_iff_eq, List.all_eq_true, Bool.not_eq_true'] at hacc
  obtain ⟨⟨h1, h2⟩, h3⟩ := hacc
  have hw : wrapMilp lm (.err "InvalidOptions") = .err "Other" := by
    unfold wrapMilp
    have a : ¬ (lm.objective.length != lm.vars.length) = true := by simp [h1]
    have b : ¬ (lm.vars.any fun v => (domainOf lm v).isNone) = true := by
      simp only [List.any_eq_true, not_exists, not_and]
      intro v hv
      have := h2 v hv
      cases hd : domainOf lm v <;> simp [hd] at this ⊢
    have c : ¬ (lm.rows.any fun r => isStrict r.cmp) = true := by
      simp only [List.any_eq_true, not_exists, not_and]
      intro r hr
      simp [h3 r hr]
    simp [a, b, c, mapMlpError]
  constructor
  · simp [solveMilpWith, hout, hw]
  · simp [solveMilpWithFixed, wrapMilpFixed, hout, hw]

/-! ### every way of passing the options: the builder's `Microlp` solver object -/

/-- `Microlp::new().with_mip_gap(g).with_time_limit(t)` forwards exactly the values it was given (no clamping, no
defaulting), in either order of the builder calls. -/
theorem builder_forwards_options (g : Ext K) (t : Nat) :
    ((Microlp.new.withMipGap g).withTimeLimit t).options = { mipGap := some g, timeLimitNs := some t } ∧
    ((Microlp.new.withTimeLimit t).withMipGap g).options = { mipGap := some g, timeLimitNs := some t } ∧
    (Microlp.new : Microlp (Ext K)).options = { mipGap := none, timeLimitNs := none } := by
  simp [Microlp.new, Microlp.withMipGap, Microlp.withTimeLimit, Microlp.options]

omit [Field K] [LinearOrder K] [IsStrictOrderedRing K] [FloorRing K] in
/-- setting an option twice on one `Microlp` value: the LAST call wins (the object equals a fresh one carrying only the
last value). -/
theorem builder_last_call_wins (m : Microlp (Ext K)) (g1 g2 : Ext K) (t1 t2 : Nat) :
    (m.withMipGap g1).withMipGap g2 = m.withMipGap g2 ∧
    (m.withTimeLimit t1).withTimeLimit t2 = m.withTimeLimit t2 ∧
    ((m.withMipGap g1).withTimeLimit t1).withMipGap g2 = (m.withTimeLimit t1).withMipGap g2 := by
  simp [Microlp.withMipGap, Microlp.withTimeLimit]

/-- solving through the builder object IS solving with the options struct it carries. -/
theorem builder_solve_eq (gap : Option (Ext K)) (limit : Option Nat) (lm : LinModel (Ext K)) (search : Search K) :
    (Microlp.build gap limit).solve lm search = solveMilpWith lm { mipGap := gap, timeLimitNs := limit } search ∧
    (Microlp.build gap limit).solveFixed lm search = solveMilpWithFixed lm { mipGap := gap, timeLimitNs := limit } search := by
  cases gap <;> cases limit <;>
    simp [Microlp.build, Microlp.solve, Microlp.solveFixed, Microlp.new, Microlp.withMipGap, Microlp.withTimeLimit,
      Microlp.options]

/-- invalid option values passed through the builder methods are rejected exactly like through `MilpOptions`. -/
theorem invalid_options_rejected_builder (lm : LinModel (Ext K)) (g : Ext K) (limit : Option Nat) (search : Search K)
    (hacc : accepted lm = true) (hinv : gapValid g = false) :
    (Microlp.build (some g) limit).solve lm search = .err "Other" ∧
    (Microlp.build (some g) limit).solveFixed lm search = .err "Other" := by
  have h := builder_solve_eq (some g) limit lm search
  rw [h.1, h.2]
  exact invalid_options_rejected lm _ search hacc (by simp [optionsValid, hinv])

/-! ### non-vacuity (for every ordered field `K`) -/

/-- `label_sound_fixed` / `no_solution_without_incumbent_fixed`: a finished search on the tiny model is returned. -/
example : ∃ s : Solution (Ext K), solveMilpWithFixed tiny { mipGap := none, timeLimitNs := none }
    (fun _ => .ok .optimal (Ext.fin 1) [Ext.fin 1]) = .ok s ∧ s.status = .optimal := by
  refine ⟨lpSolutionNew [("b", .bool true)] (Arith.add (Ext.fin 1) (Ext.fin 0)) [], ?_, rfl⟩
  simp [solveMilpWithFixed, wrapMilpFixed, microlpSolveWith, optionsValid, wrapMilp, tiny, domainOf, isStrict,
    constraintsMap, calcConstraints, imCollect, zipNames, readBack, Arith.ne, Arith.eq, Ext.eq, Arith.ofInt]

/-- `invalid_options_*`: a negative gap is invalid and the tiny model is accepted. -/
example : optionsValid ({ mipGap := some (Ext.fin (-1 : K)), timeLimitNs := none } : Options (Ext K)) = false ∧
    accepted (tiny (K := K)) = true := by
  constructor
  · simp [optionsValid, gapValid, Arith.isFinite, Ext.isFinite, Arith.lt, Ext.lt, Arith.ofInt]
  · simp [accepted, tiny, domainOf, isStrict]

end Rooc.Props.C15
