/- C15 — property theorems only (helper lemmas live in `Rooc/Proofs`). -/
namespace Rooc.Props.C15
end Rooc.Props.C15
