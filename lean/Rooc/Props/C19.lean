/- C19 — property theorems only (helper lemmas live in `Rooc/Proofs`). -/
namespace Rooc.Props.C19
end Rooc.Props.C19
