/-
C01 — Linearization preserves the feasible set.  PROPERTY THEOREMS ONLY (helper lemmas live in
`Rooc/Proofs/Lin*.lean`).  `K` is any linearly ordered field with a floor (in particular ℚ and ℝ);
models carry literals in `Ext K`; `Lin.linearizeWith` is the executable port of `Linearizer::linearize`
that `./check C01` diffs bit-exactly against the Rust.

FULL TARGET (stated here; only the parts that are PROVED appear below as declarations):

  theorem c01 (m : Model (Ext K)) (b : BoundsMap (Ext K)) (d : List (DomVar (Ext K))) (lm : LinModel (Ext K)) :
      linearizeWith m b d = .ok lm →
      BoundsSound m b d →            -- C07's enclosure: every source-feasible ρ lies in the box `b`; `d` has the
                                     -- names/usage marks of `m.domain` and every source-feasible ρ satisfies it
      BooleanBoundsUntouched m b →   -- every Boolean variable has the range [0,1] in `b` (guaranteed by the bounds
                                     -- analysis; without it the statement fails: `c01_counterexample`, planned)
      FiniteLits m → WellScoped m → Defined m →
                                     -- literals finite; every variable that occurs is declared with a usage mark;
                                     -- every constraint side is defined (no division by a zero literal that a
                                     -- rewrite `0 * _` erases — C10's known finding)
      ∀ ρ, srcFeasible m ρ = true ↔
           ∃ ρ', (∀ v ∈ usedDeclared m, ρ' v = ρ v) ∧ linFeasible lm ρ' = true

Proof architecture (DESIGN.md §6 C01): Stage A gadget lemmas (this file, complete); Stage B affine
fragment and the end-to-end theorem for purely affine models; Stage C abs/min/max
under the requirement-indexed specification; Stage D logic values and assertions; Stage E the
work-list loop and final assembly.  `tools/props/C01.json` (`level_note`) says which stages are proved.
-/
import Rooc.Proofs.LinGadgets
import Rooc.Proofs.LinC10
import Rooc.Proofs.LinExamples
import Rooc.Proofs.LinMain
import Rooc.Proofs.LinCounter
import Rooc.Proofs.LinBridgeCounter
import Rooc.Proofs.LinDExamples2
import Rooc.Proofs.LinTolCounter
import Rooc.Proofs.LinWire
import Rooc.Proofs.LinSucceed2
import Rooc.Proofs.LinDExamples3
import Rooc.Proofs.LinDExamples4
import Rooc.Proofs.LinTrace2
import Rooc.Proofs.LinBridgeStatic
import Rooc.Proofs.LinDExamples5
import Rooc.Proofs.LinSucceedPW3
namespace Rooc.Props.C01
open Rooc Rooc.Lin
open Rooc.Lin.Gadget (B01 DomMax DomMin)
open Rooc.Sem Rooc.LinP

variable {K : Type} [Field K] [LinearOrder K] [IsStrictOrderedRing K]

/-! ## Stage A — gadget lemmas

Every local rewrite of the linearizer as a statement about plain elements of an ordered field.
`B01 x` means `x = 0 ∨ x = 1`. -/

/-! ### abs -/

theorem abs_of_lower_nonneg {l e : K} (hl : 0 ≤ l) (he : l ≤ e) : |e| = e :=
  Gadget.abs_of_lower_nonneg (l := l) (e := e) hl he

theorem abs_of_upper_nonpos {u e : K} (hu : u ≤ 0) (he : e ≤ u) : |e| = -e :=
  Gadget.abs_of_upper_nonpos (u := u) (e := e) hu he

theorem abs_one_sided (z e : K) : (z ≥ e ∧ z ≥ -e) ↔ z ≥ |e| :=
  Gadget.abs_one_sided z e

theorem abs_exact_sound {l u e z p : K}
    (hp : B01 p) (h1 : z ≥ e) (h2 : z ≥ -e)
    (h3 : z ≤ e - (2 * l) * (1 - p)) (h4 : z ≤ -e + (2 * u) * p) : z = |e| :=
  Gadget.abs_exact_sound (l := l) (u := u) (e := e) (z := z) (p := p) hp h1 h2 h3 h4

theorem abs_exact_complete {l u e : K} (he1 : l ≤ e) (he2 : e ≤ u) :
    ∃ p : K, B01 p ∧ |e| ≥ e ∧ |e| ≥ -e ∧ |e| ≤ e - (2 * l) * (1 - p) ∧ |e| ≤ -e + (2 * u) * p :=
  Gadget.abs_exact_complete (l := l) (u := u) (e := e) he1 he2

theorem abs_exact_iff {l u e z : K} (he1 : l ≤ e) (he2 : e ≤ u) :
    (∃ p : K, B01 p ∧ z ≥ e ∧ z ≥ -e ∧ z ≤ e - (2 * l) * (1 - p) ∧ z ≤ -e + (2 * u) * p) ↔ z = |e| :=
  Gadget.abs_exact_iff (l := l) (u := u) (e := e) (z := z) he1 he2

theorem abs_in_aux_domain {l u e : K} (he1 : l ≤ e) (he2 : e ≤ u) : 0 ≤ |e| ∧ |e| ≤ max (-l) u :=
  Gadget.abs_in_aux_domain (l := l) (u := u) (e := e) he1 he2

/-! ### folds of `max` / `min` (the semantics of `max{…}` / `min{…}` is `xs.foldl max x`) -/

theorem foldl_max_le_iff (z x : K) (xs : List K) :
    xs.foldl max x ≤ z ↔ x ≤ z ∧ ∀ y ∈ xs, y ≤ z :=
  Gadget.foldl_max_le_iff z x xs

theorem le_foldl_min_iff (z x : K) (xs : List K) :
    z ≤ xs.foldl min x ↔ z ≤ x ∧ ∀ y ∈ xs, z ≤ y :=
  Gadget.le_foldl_min_iff z x xs

theorem foldl_max_mem (x : K) (xs : List K) : xs.foldl max x ∈ x :: xs :=
  Gadget.foldl_max_mem x xs

theorem foldl_min_mem (x : K) (xs : List K) : xs.foldl min x ∈ x :: xs :=
  Gadget.foldl_min_mem x xs

theorem le_foldl_max (x : K) (xs : List K) : ∀ y ∈ x :: xs, y ≤ xs.foldl max x :=
  Gadget.le_foldl_max x xs

theorem foldl_min_le (x : K) (xs : List K) : ∀ y ∈ x :: xs, xs.foldl min x ≤ y :=
  Gadget.foldl_min_le x xs

theorem foldl_max_eq_iff (m x : K) (xs : List K) :
    xs.foldl max x = m ↔ m ∈ x :: xs ∧ ∀ y ∈ x :: xs, y ≤ m :=
  Gadget.foldl_max_eq_iff m x xs

theorem foldl_min_eq_iff (m x : K) (xs : List K) :
    xs.foldl min x = m ↔ m ∈ x :: xs ∧ ∀ y ∈ x :: xs, m ≤ y :=
  Gadget.foldl_min_eq_iff m x xs

theorem max_one_sided (z x : K) (xs : List K) : (∀ y ∈ x :: xs, z ≥ y) ↔ z ≥ xs.foldl max x :=
  Gadget.max_one_sided z x xs

theorem min_one_sided (z x : K) (xs : List K) : (∀ y ∈ x :: xs, z ≤ y) ↔ z ≤ xs.foldl min x :=
  Gadget.min_one_sided z x xs

/-! ### selector rows for exact max / min

Operands are triples `(e, b, s)`: value, the bound used in the big-M constant (`l` for max, `u` for
min), selector. -/

theorem max_selector_sound {U z : K} (ops : List (K × K × K))
    (hsel : ∀ t ∈ ops, B01 t.2.2) (hsum : (ops.map (·.2.2)).sum = 1)
    (hge : ∀ t ∈ ops, z ≥ t.1) (hle : ∀ t ∈ ops, z ≤ t.1 + (U - t.2.1) * (1 - t.2.2)) :
    z ∈ ops.map (·.1) ∧ ∀ y ∈ ops.map (·.1), y ≤ z :=
  Gadget.max_selector_sound (U := U) (z := z) ops hsel hsum hge hle

theorem min_selector_sound {L z : K} (ops : List (K × K × K))
    (hsel : ∀ t ∈ ops, B01 t.2.2) (hsum : (ops.map (·.2.2)).sum = 1)
    (hle : ∀ t ∈ ops, z ≤ t.1) (hge : ∀ t ∈ ops, z ≥ t.1 - (t.2.1 - L) * (1 - t.2.2)) :
    z ∈ ops.map (·.1) ∧ ∀ y ∈ ops.map (·.1), z ≤ y :=
  Gadget.min_selector_sound (L := L) (z := z) ops hsel hsum hle hge

theorem max_selector_complete {U z : K} (ps : List (K × K))
    (hb : ∀ p ∈ ps, p.2 ≤ p.1 ∧ p.1 ≤ U) (hmem : z ∈ ps.map (·.1)) (hub : ∀ y ∈ ps.map (·.1), y ≤ z) :
    ∃ ss : List K, ss.length = ps.length ∧ (∀ s ∈ ss, B01 s) ∧ ss.sum = 1 ∧
      ∀ t ∈ ps.zip ss, z ≥ t.1.1 ∧ z ≤ t.1.1 + (U - t.1.2) * (1 - t.2) :=
  Gadget.max_selector_complete (U := U) (z := z) ps hb hmem hub

theorem min_selector_complete {L z : K} (ps : List (K × K))
    (hb : ∀ p ∈ ps, p.1 ≤ p.2 ∧ L ≤ p.1) (hmem : z ∈ ps.map (·.1)) (hlb : ∀ y ∈ ps.map (·.1), z ≤ y) :
    ∃ ss : List K, ss.length = ps.length ∧ (∀ s ∈ ss, B01 s) ∧ ss.sum = 1 ∧
      ∀ t ∈ ps.zip ss, z ≤ t.1.1 ∧ z ≥ t.1.1 - (t.1.2 - L) * (1 - t.2) :=
  Gadget.min_selector_complete (L := L) (z := z) ps hb hmem hlb

/-! ### sums of 0/1 values -/

theorem sum01_bounds : ∀ (as : List K), (∀ a ∈ as, B01 a) → 0 ≤ as.sum ∧ as.sum ≤ (as.length : K) :=
  Gadget.sum01_bounds

theorem sum01_eq_zero_iff : ∀ (as : List K), (∀ a ∈ as, B01 a) → (as.sum = 0 ↔ ∀ a ∈ as, a = 0) :=
  Gadget.sum01_eq_zero_iff

theorem sum01_ge_one_iff : ∀ (as : List K), (∀ a ∈ as, B01 a) → (1 ≤ as.sum ↔ ∃ a ∈ as, a = 1) :=
  Gadget.sum01_ge_one_iff

theorem sum01_le_pred_iff : ∀ (as : List K), (∀ a ∈ as, B01 a) →
    (as.sum ≤ (as.length : K) - 1 ↔ ∃ a ∈ as, a = 0) :=
  Gadget.sum01_le_pred_iff

theorem sum01_eq_length_iff (as : List K) (h : ∀ a ∈ as, B01 a) :
    (as.sum = (as.length : K) ↔ ∀ a ∈ as, a = 1) :=
  Gadget.sum01_eq_length_iff as h

/-! ### reified logic values: rows over 0/1 operands force the auxiliary to the truth value -/

theorem and_reify_iff {z : K} (as : List K) (hz : B01 z) (ha : ∀ a ∈ as, B01 a) :
    ((∀ a ∈ as, z ≤ a) ∧ z ≥ as.sum - ((as.length : K) - 1)) ↔ (z = 1 ↔ ∀ a ∈ as, a = 1) :=
  Gadget.and_reify_iff (z := z) as hz ha

theorem or_reify_iff {z : K} (as : List K) (hz : B01 z) (ha : ∀ a ∈ as, B01 a) :
    ((∀ a ∈ as, z ≥ a) ∧ z ≤ as.sum) ↔ (z = 1 ↔ ∃ a ∈ as, a = 1) :=
  Gadget.or_reify_iff (z := z) as hz ha

theorem implies_reify_iff {z a b : K} (hz : B01 z) (ha : B01 a) (hb : B01 b) :
    (z ≥ 1 - a ∧ z ≥ b ∧ z ≤ 1 - a + b) ↔ (z = 1 ↔ (a = 1 → b = 1)) :=
  Gadget.implies_reify_iff (z := z) (a := a) (b := b) hz ha hb

theorem iff_reify_iff {z a b : K} (hz : B01 z) (ha : B01 a) (hb : B01 b) :
    (z ≥ a + b - 1 ∧ z ≥ 1 - a - b ∧ z ≤ 1 - a + b ∧ z ≤ 1 + a - b) ↔ (z = 1 ↔ (a = 1 ↔ b = 1)) :=
  Gadget.iff_reify_iff (z := z) (a := a) (b := b) hz ha hb

theorem xor_reify_iff {z a b : K} (hz : B01 z) (ha : B01 a) (hb : B01 b) :
    (z ≤ a + b ∧ z ≥ a - b ∧ z ≥ b - a ∧ z ≤ 2 - a - b) ↔ (z = 1 ↔ ¬ (a = 1 ↔ b = 1)) :=
  Gadget.xor_reify_iff (z := z) (a := a) (b := b) hz ha hb

theorem not_affine {e : K} (he : B01 e) : B01 (1 - e) ∧ ((1 - e = 1) ↔ ¬ (e = 1)) :=
  Gadget.not_affine (e := e) he

/-! ### affine assertion forms (`try_lower_affine_logic_assertion`), both polarities -/

theorem assert_and_true (as : List K) (ha : ∀ a ∈ as, B01 a) :
    as.sum = (as.length : K) ↔ ∀ a ∈ as, a = 1 :=
  Gadget.assert_and_true as ha

theorem assert_and_false (as : List K) (ha : ∀ a ∈ as, B01 a) :
    as.sum ≤ (as.length : K) - 1 ↔ ¬ ∀ a ∈ as, a = 1 :=
  Gadget.assert_and_false as ha

theorem assert_or_true (as : List K) (ha : ∀ a ∈ as, B01 a) :
    as.sum ≥ 1 ↔ ∃ a ∈ as, a = 1 :=
  Gadget.assert_or_true as ha

theorem assert_or_false (as : List K) (ha : ∀ a ∈ as, B01 a) :
    as.sum = 0 ↔ ¬ ∃ a ∈ as, a = 1 :=
  Gadget.assert_or_false as ha

theorem assert_implies_true {a b : K} (ha : B01 a) (hb : B01 b) : a ≤ b ↔ (a = 1 → b = 1) :=
  Gadget.assert_implies_true (a := a) (b := b) ha hb

theorem assert_implies_false {a b : K} (ha : B01 a) (hb : B01 b) : a - b = 1 ↔ ¬ (a = 1 → b = 1) :=
  Gadget.assert_implies_false (a := a) (b := b) ha hb

theorem assert_iff_true {a b : K} (ha : B01 a) (hb : B01 b) : a = b ↔ (a = 1 ↔ b = 1) :=
  Gadget.assert_iff_true (a := a) (b := b) ha hb

theorem assert_iff_false {a b : K} (ha : B01 a) (hb : B01 b) : a + b = 1 ↔ ¬ (a = 1 ↔ b = 1) :=
  Gadget.assert_iff_false (a := a) (b := b) ha hb

theorem assert_xor_true {a b : K} (ha : B01 a) (hb : B01 b) : a + b = 1 ↔ ¬ (a = 1 ↔ b = 1) :=
  Gadget.assert_xor_true (a := a) (b := b) ha hb

theorem assert_xor_false {a b : K} (ha : B01 a) (hb : B01 b) : a = b ↔ ¬ ¬ (a = 1 ↔ b = 1) :=
  Gadget.assert_xor_false (a := a) (b := b) ha hb

/-! ### directional witnesses: a 0/1 witness `w` with `w = 1 ⇒ formula has the requested value`;
`w = 0` is always allowed, and `w = 1` is allowed exactly when the children allow it. -/

theorem witness_all_iff {w : K} (cs : List K) (hw : B01 w) (hc : ∀ c ∈ cs, B01 c) :
    (∀ c ∈ cs, w ≤ c) ↔ (w = 1 → ∀ c ∈ cs, c = 1) :=
  Gadget.witness_all_iff (w := w) cs hw hc

theorem witness_any_iff {w : K} (cs : List K) (hw : B01 w) (hc : ∀ c ∈ cs, B01 c) :
    w ≤ cs.sum ↔ (w = 1 → ∃ c ∈ cs, c = 1) :=
  Gadget.witness_any_iff (w := w) cs hw hc

theorem witness_iff_true {w a b : K} (hw : B01 w) (ha : B01 a) (hb : B01 b) :
    (w ≤ 1 - a + b ∧ w ≤ 1 + a - b) ↔ (w = 1 → (a = 1 ↔ b = 1)) :=
  Gadget.witness_iff_true (w := w) (a := a) (b := b) hw ha hb

theorem witness_iff_false {w a b : K} (hw : B01 w) (ha : B01 a) (hb : B01 b) :
    (w ≤ a + b ∧ w ≤ 2 - a - b) ↔ (w = 1 → ¬ (a = 1 ↔ b = 1)) :=
  Gadget.witness_iff_false (w := w) (a := a) (b := b) hw ha hb

theorem witness_assert (ws : List K) (hw : ∀ w ∈ ws, B01 w) : ws.sum ≥ 1 ↔ ∃ w ∈ ws, w = 1 :=
  Gadget.witness_assert ws hw

/-! ### comparison of a 0/1 value against a constant (`try_normalize_logic_constraint`):
the four-way table on `(R 0, R 1)` where `R x := x ⋈ c`. -/

theorem normalize_true {R : K → Prop} {x : K} (hx : B01 x) (h0 : ¬ R 0) (h1 : R 1) : R x ↔ x = 1 :=
  Gadget.normalize_true (R := R) (x := x) hx h0 h1

theorem normalize_false {R : K → Prop} {x : K} (hx : B01 x) (h0 : R 0) (h1 : ¬ R 1) : R x ↔ x = 0 :=
  Gadget.normalize_false (R := R) (x := x) hx h0 h1

theorem normalize_tautology {R : K → Prop} {x : K} (hx : B01 x) (h0 : R 0) (h1 : R 1) : R x :=
  Gadget.normalize_tautology (R := R) (x := x) hx h0 h1

theorem normalize_contradiction {R : K → Prop} {x : K} (hx : B01 x) (h0 : ¬ R 0) (h1 : ¬ R 1) : ¬ R x :=
  Gadget.normalize_contradiction (R := R) (x := x) hx h0 h1

/-! ### dominated-operand pruning of `linearize_extreme`

Bounds live in any linear order `B` into which the field embeds (`B = K` for finite bounds,
`B = WithBot (WithTop K)` or the like for `±∞`).  Operand `i` is *dominated* (dropped) when some other
operand `j` has `L j ≥ U i`, unless both are the same fixed value, in which case only the one with
the smaller index survives. -/

section prune

variable {B : Type} [LinearOrder B]

theorem prune_max_exists (ι : K → B) (hι : ∀ a b, ι a ≤ ι b ↔ a ≤ b) (n : ℕ) (L U : ℕ → B) (v : ℕ → K)
    (henc : ∀ i, i < n → L i ≤ ι (v i) ∧ ι (v i) ≤ U i) :
    ∀ i, i < n → ∃ j, j < n ∧ ¬ DomMax L U n j ∧ v i ≤ v j :=
  Gadget.prune_max_exists ι hι n L U v henc

theorem prune_min_exists (ι : K → B) (hι : ∀ a b, ι a ≤ ι b ↔ a ≤ b) (n : ℕ) (L U : ℕ → B) (v : ℕ → K)
    (henc : ∀ i, i < n → L i ≤ ι (v i) ∧ ι (v i) ≤ U i) :
    ∀ i, i < n → ∃ j, j < n ∧ ¬ DomMin L U n j ∧ v j ≤ v i :=
  Gadget.prune_min_exists ι hι n L U v henc

theorem prune_max_iff (ι : K → B) (hι : ∀ a b, ι a ≤ ι b ↔ a ≤ b) (n : ℕ) (L U : ℕ → B) (v : ℕ → K)
    (henc : ∀ i, i < n → L i ≤ ι (v i) ∧ ι (v i) ≤ U i) (z : K) :
    ((∃ i, i < n ∧ v i = z) ∧ ∀ i, i < n → v i ≤ z) ↔
    ((∃ j, j < n ∧ ¬ DomMax L U n j ∧ v j = z) ∧ ∀ j, j < n → ¬ DomMax L U n j → v j ≤ z) :=
  Gadget.prune_max_iff ι hι n L U v henc z

theorem prune_min_iff (ι : K → B) (hι : ∀ a b, ι a ≤ ι b ↔ a ≤ b) (n : ℕ) (L U : ℕ → B) (v : ℕ → K)
    (henc : ∀ i, i < n → L i ≤ ι (v i) ∧ ι (v i) ≤ U i) (z : K) :
    ((∃ i, i < n ∧ v i = z) ∧ ∀ i, i < n → z ≤ v i) ↔
    ((∃ j, j < n ∧ ¬ DomMin L U n j ∧ v j = z) ∧ ∀ j, j < n → ¬ DomMin L U n j → z ≤ v j) :=
  Gadget.prune_min_iff ι hι n L U v henc z

end prune


/-! non-vacuity of the Stage-A hypotheses (one instance per family) -/

example : ∃ l u e : K, l ≤ e ∧ e ≤ u ∧ l < 0 ∧ 0 < u := ⟨-1, 1, 0, by norm_num, by norm_num, by norm_num, by norm_num⟩
example : ∃ (U z : K) (ps : List (K × K)), (∀ p ∈ ps, p.2 ≤ p.1 ∧ p.1 ≤ U) ∧ z ∈ ps.map (·.1) ∧
    ∀ y ∈ ps.map (·.1), y ≤ z :=
  ⟨2, 1, [(1, 0), (0, 0)], by simp, by simp, by simp⟩
example : ∃ (z : K) (as : List K), B01 z ∧ (∀ a ∈ as, B01 a) ∧ (z = 1 ↔ ∀ a ∈ as, a = 1) :=
  ⟨1, [1, 1], Or.inr rfl, by simp [B01], by simp⟩
example : ∃ (n : ℕ) (L U : ℕ → K) (v : ℕ → K), 0 < n ∧ ∀ i, i < n → L i ≤ id (v i) ∧ id (v i) ≤ U i :=
  ⟨1, fun _ => 0, fun _ => 1, fun _ => 0, by norm_num, fun _ _ => by simp⟩

/-! ## Stage B — the affine fragment, and C01 end to end on purely affine models

Vocabulary (definitions in `Rooc/Proofs/Lin*.lean`, namespace `Rooc.LinP`):
* `ctxVal ρ c = Σ coeff·ρ(var) + rhs` for a linearization context `c : Ctx (Ext K)`; `CtxOK c` = all
  coefficients and the constant are finite and the variable names are distinct (the `IndexMap` invariant);
  `termsVal ρ ts` the same sum for a bare term list.
* `arithOnly e` = `e` is built from literals, variables, `+ - * /` and unary minus; `varsOf e` its variables.
* `AffineModel m d` = objective and every constraint are `arithOnly` comparisons (no bare assertion) over
  variables declared in `d` with a usage mark; `DefinedC c` = both sides of `c` evaluate at every assignment;
  `DomRel m d` = `d` has distinct names, only shrinks `m.domain`, and contains every source-feasible point.
* The two C10 facts about `Exp.flattenF` / `Exp.simplify` that `emit_constraint` relies on (`FlattenSound K`,
  `SimplifySoundArith K`) are taken from C10's lemmas in `Rooc/Proofs/LinC10.lean`. -/

section StageB
variable [FloorRing K]

theorem ctx_addVar {c : Ctx (Ext K)} (h : CtxOK c) (ρ : String → K) (name : String) (m : K) :
    CtxOK (c.addVar name (Ext.fin m)) ∧ ctxVal ρ (c.addVar name (Ext.fin m)) = ctxVal ρ c + m * ρ name :=
  ⟨addVar_ok h name m, addVar_val ρ h name m⟩

theorem ctx_mergeAdd {c o : Ctx (Ext K)} (hc : CtxOK c) (ho : CtxOK o) (ρ : String → K) :
    CtxOK (c.mergeAdd o) ∧ ctxVal ρ (c.mergeAdd o) = ctxVal ρ c + ctxVal ρ o :=
  ⟨(mergeAdd_spec ρ hc ho).1, (mergeAdd_spec ρ hc ho).2.1⟩

theorem ctx_mergeSub {c o : Ctx (Ext K)} (hc : CtxOK c) (ho : CtxOK o) (ρ : String → K) :
    CtxOK (c.mergeSub o) ∧ ctxVal ρ (c.mergeSub o) = ctxVal ρ c - ctxVal ρ o :=
  ⟨(mergeSub_spec ρ hc ho).1, (mergeSub_spec ρ hc ho).2.1⟩

theorem ctx_mulBy {c : Ctx (Ext K)} (hc : CtxOK c) (ρ : String → K) (m : K) :
    CtxOK (c.mulBy (Ext.fin m)) ∧ ctxVal ρ (c.mulBy (Ext.fin m)) = ctxVal ρ c * m :=
  ⟨(mulBy_spec ρ hc m).1, (mulBy_spec ρ hc m).2.1⟩

theorem ctx_divBy {c : Ctx (Ext K)} (hc : CtxOK c) (ρ : String → K) (d : K) (hd : d ≠ 0) :
    CtxOK (c.divBy (Ext.fin d)) ∧ ctxVal ρ (c.divBy (Ext.fin d)) = ctxVal ρ c / d :=
  ⟨(divBy_spec ρ hc d hd).1, (divBy_spec ρ hc d hd).2.1⟩

/-- `context_to_exp` round trip. -/
theorem ctxToExp_roundtrip (ρ : String → K) {c : Ctx (Ext K)} (hc : CtxOK c) :
    eval ρ (ctxToExp c) = some (ctxVal ρ c) :=
  ctxToExp_eval ρ hc

/-- `extract_coeffs` followed by the dot product of the linear model is the value of the term list,
as soon as every variable of the list is in `vars`. -/
theorem extractCoeffs_dotK (ρ : String → K) (vars : List String) (ts : List (String × Ext K))
    (hfin : TermsFin ts) (hnd : (ts.map (·.1)).Nodup) (hmem : ∀ p ∈ ts, p.1 ∈ vars) :
    dotK ρ (extractCoeffs ts vars) vars = some (termsVal ρ ts) := by
  obtain ⟨h1, h2, h3⟩ := extractCoeffs_spec ρ vars ts hfin hnd hmem
  rw [dotK_eq ρ _ _ h2 (le_of_eq h1), h3]

/-- The affine fragment of `Exp::linearize`: no auxiliary, no constraint, no state change at all; the
context mentions only variables of `e`; and it evaluates to the value of `e` wherever that is defined. -/
theorem linExp_affine (e : Exp (Ext K)) (he : arithOnly e = true) (req : Req) (s s' : St (Ext K))
    (c : Ctx (Ext K)) (h : linExp e req s = .ok (c, s')) :
    s' = s ∧ (∀ x ∈ ctxNames c, x ∈ varsOf e) ∧
      ∀ (ρ : String → K) (v : K), eval ρ e = some v → CtxOK c ∧ ctxVal ρ c = v :=
  let R := lin_arith e he req s c s' h
  ⟨R.state, R.names, R.value⟩

/-- `emit_constraint` on an affine comparison: exactly one row is appended, nothing else changes, and the
row holds iff the comparison does. -/
theorem emitConstraint_affine {S : String → Prop}
    {lhs rhs : Exp (Ext K)} {cmp : Cmp} {name : String} {s : St (Ext K)} {r : Unit × St (Ext K)}
    (hl : AG S lhs) (hr : AG S rhs) (h : emitConstraint lhs cmp rhs name s = .ok r) :
    ∃ row : MidRow (Ext K), r = ((), { s with rows := s.rows ++ [row] }) ∧ row.name = name ∧ row.cmp = cmp ∧
      (∀ x ∈ row.lhs.map (·.1), S x) ∧
      ∀ (ρ : String → K) (a b : K), eval ρ lhs = some a → eval ρ rhs = some b →
        RowOK row ∧ (rowTrue ρ row ↔ cmpK cmp a b = true) :=
  emit_arith flattenSound simplifySoundArith hl hr h

/-- **C01 on purely affine models** (through `flatten`, `simplify`, comparison normalisation of Boolean
variables against constants, the work-list loop, name de-duplication, the used-variable filter and
coefficient extraction): the linear model has no auxiliary variable and exactly the source's feasible set. -/
theorem c01_affine {m : Model (Ext K)} {b : BoundsMap (Ext K)} {d : List (DomVar (Ext K))} {lm : LinModel (Ext K)}
    (h : linearizeWith m b d = .ok lm)
    (haff : AffineModel m d) (hdef : ∀ c ∈ m.constraints, DefinedC c) (hdom : DomRel m d) :
    ∀ ρ : String → K, srcFeasible m ρ = true ↔ linFeasible lm ρ = true :=
  fun ρ => affine_feasible_iff flattenSound simplifySoundArith haff hdef hdom h ρ

/-- non-vacuity of `c01_affine`: the model `min x s.t. c: x ≤ y` (x, y free reals) compiles (for every ordered
field at once) and satisfies every hypothesis. -/
example : ∃ (m : Model (Ext K)) (b : BoundsMap (Ext K)) (d : List (DomVar (Ext K))) (lm : LinModel (Ext K)),
    linearizeWith m b d = .ok lm ∧ AffineModel m d ∧ (∀ c ∈ m.constraints, DefinedC c) ∧ DomRel m d := by
  obtain ⟨lm, h⟩ := exAffine_ok (K := K)
  exact ⟨exAffine, [], exAffine.domain, lm, h, exAffine_hyps.1, exAffine_hyps.2.1, exAffine_hyps.2.2⟩

/-- the same in the shape of the full target (the extension is the assignment itself). -/
theorem c01_affine' {m : Model (Ext K)} {b : BoundsMap (Ext K)} {d : List (DomVar (Ext K))} {lm : LinModel (Ext K)}
    (h : linearizeWith m b d = .ok lm)
    (haff : AffineModel m d) (hdef : ∀ c ∈ m.constraints, DefinedC c) (hdom : DomRel m d) (ρ : String → K) :
    srcFeasible m ρ = true ↔ ∃ ρ' : String → K, (∀ v, inScope d v → ρ' v = ρ v) ∧ linFeasible lm ρ' = true := by
  constructor
  · intro hs; exact ⟨ρ, fun _ _ => rfl, (c01_affine h haff hdef hdom ρ).mp hs⟩
  · rintro ⟨ρ', hag, hl⟩
    have hs' := (c01_affine h haff hdef hdom ρ').mpr hl
    -- source feasibility only reads declared, used variables
    refine (srcFeasible_congr (d := d) ?_ hdom.names hag).mp hs'
    intro c hc x hx
    rcases hx with hx | hx
    · exact (haff.cons c hc).lhs.2 x hx
    · exact (haff.cons c hc).rhs.2 x hx

end StageB

/-! ## Stages C and E — `abs`, `min`, `max` with auxiliaries; the work-list loop; C01 on piecewise-linear models

Vocabulary (definitions in `Rooc/Proofs/LinSpec.lean`, `LinFrag.lean`, `LinLoop.lean`, `LinFinal.lean`):
* `frag true e` = `e` is built from literals, variables, `+ - * /`, unary minus, `abs`, `min{…}`, `max{…}`
  (any nesting; `frag false` excludes `min`/`max`).
* `rel req a v` = what the requirement promises about the context value `a` against the true value `v`:
  `lower : v ≤ a`, `higher : a ≤ v`, `exact : a = v`.
* `Spec Src e req s c s'` (for `linExp e req s = .ok (c, s')`): rows untouched; domain and queue only grow; the
  state invariant `StInv` (distinct names, the bounds map is implied by the domains, every queue entry scoped,
  every NEW queue entry an everywhere-defined affine comparison) is preserved; `c` is well-formed over declared
  variables; **sound**: every assignment satisfying the new domains and the new queue has
  `rel req (ctxVal ρ c) (eval ρ e)`; **complete**: every solution of the old state extends — changing only fresh
  auxiliaries — to a solution of the new state with `ctxVal ρ' c = eval ρ e`.
* `FragModel true m d` = objective and both sides of every constraint are `frag true`, over variables
  declared in `d` with a usage mark, comparisons only (no bare logic assertion), defined at every assignment;
  `DomRel m d` as in Stage B; `BoxEnforced b d` = every assignment satisfying the domains `d` lies in the box
  `b` — the enclosure the rewrites rely on is enforced by the output's domains.  Its Boolean case is
  `BooleanBoundsUntouched` (the range of a Boolean variable in `b` contains 0 and 1); for the other variable
  kinds it is what `apply_to_domain` establishes.
The bounds oracle (`Lin.boundsOf` encloses `Sem.eval` on the box) is NOT a hypothesis: it is derived from C07's
`boundsOf_mem` in `Rooc/Proofs/LinOracle.lean` (`Lin.boundsOf` and `Analyzer.boundsOf` are the same function). -/

section StageCE
variable [FloorRing K]

/-- **The requirement-indexed specification of `Exp::linearize`, for EVERY expression** (Stages B, C and the
value part of D): requirement flips through `-`, negative scales and divisions; sign-known `abs` shortcuts;
one-sided `abs` rows; the exact big-M pair with selector; dominated-operand pruning; single retained operand;
one-sided `min`/`max` rows; selector rows with `Σ sel = 1`; `not e = 1 − e`; the reified `and`/`or` (n-ary),
`implies`, `iff`, `xor` with binary operands (`is_binary_context`).  The contract `Pre`: the state invariant
holds, the variables of `e` are declared and used, `e` is defined at every assignment. -/
theorem linExp_spec {Src : Constraint (Ext K) → Prop} (e : Exp (Ext K))
    (req : Req) (s : St (Ext K)) (c : Ctx (Ext K)) (s' : St (Ext K))
    (hpre : Pre Src e s) (h : linExp e req s = .ok (c, s')) : Spec Src e req s c s' :=
  lin_spec_all e req s c s' hpre h

/-- consequence, spelled out: a context returned for a logic connective is 0/1-valued and equal to the truth
value, at every assignment satisfying the new domains and queue (`compiled_logic_binary` of DESIGN.md, appendix A:
on compiled models truthiness and "equals 1" coincide). -/
theorem linExp_and_value {Src : Constraint (Ext K) → Prop} (es : List (Exp (Ext K)))
    (req : Req) (s : St (Ext K)) (c : Ctx (Ext K)) (s' : St (Ext K))
    (hpre : Pre Src (.and es) s) (h : linExp (.and es) req s = .ok (c, s'))
    (ρ : String → K) (hd : DomSat ρ s'.domain) (hq : QSat ρ s') (vs : List K) (hvs : Sem.evalList ρ es = some vs) :
    ctxVal ρ c = Sem.ofBool (vs.all Sem.truthy) := by
  have h' : linExp (.and es) .exact s = .ok (c, s') := by rw [linExp] at h ⊢; exact h
  have hm : eval ρ (.and es) = some (Sem.ofBool (vs.all Sem.truthy)) := by rw [eval]; simp [hvs]
  exact (lin_spec_all (Src := Src) (.and es) .exact s c s' hpre h').sound ρ hd hq _ hm

/-- the loop: it empties the queue, and — up to fresh auxiliaries — keeps exactly the solutions. -/
theorem drain_sound_complete {d0 : List (DomVar (Ext K))} (n : Nat) (s : St (Ext K)) (r : Unit × St (Ext K))
    (hinv : LoopInv true d0 s) (h : drain n s = .ok r) :
    LoopInv true d0 r.2 ∧ r.2.queue = [] ∧
    (∀ ρ : String → K, Sat ρ r.2 → Sat ρ s) ∧
    (∀ ρ : String → K, Sat ρ s → ∃ ρ' : String → K, (∀ x, inScope s.domain x → ρ' x = ρ x) ∧ Sat ρ' r.2) := by
  obtain ⟨h1, h2, h3⟩ := drain_spec (fun e he => lin_spec_pl e he) n s r hinv h
  exact ⟨h1, h2, fun ρ hs => (h3.sound ρ hs).1, fun ρ hs => h3.complete ρ hs trivial⟩

/-- **C01 on piecewise-linear models** (`abs`, `min`, `max`, arbitrary nesting, mixed-sign scales, the same
sub-expression on both sides, constraint-derived bounds): an assignment of the declared variables is
source-feasible iff it extends, by values for the compiler's auxiliaries only, to a point satisfying every row
and every domain of the linear model.

`_partial`: logic values / bare assertions (Stage D) are outside `FragModel`; `BoxEnforced b d` is the
"enforced" side condition (see the header; `boxEnforced_of_entries`, `bool_entry_ok` reduce it to a per-entry
check). -/
theorem c01_partial {m : Model (Ext K)} {b : BoundsMap (Ext K)} {d : List (DomVar (Ext K))}
    {lm : LinModel (Ext K)} (h : linearizeWith m b d = .ok lm)
    (hm : FragModel true m d) (hdom : DomRel m d) (hbox : BoxEnforced b d) (ρ : String → K) :
    srcFeasible m ρ = true ↔
      ∃ ρ' : String → K, (∀ x, inScope d x → ρ' x = ρ x) ∧ linFeasible lm ρ' = true :=
  pl_feasible_iff hm hdom hbox h ρ

/-- non-vacuity of `c01_partial`'s hypotheses (`min x s.t. x ≤ y`; it compiles for every ordered field). -/
example : ∃ (m : Model (Ext K)) (b : BoundsMap (Ext K)) (d : List (DomVar (Ext K))) (lm : LinModel (Ext K)),
    linearizeWith m b d = .ok lm ∧ FragModel true m d ∧ DomRel m d ∧ BoxEnforced b d := by
  obtain ⟨lm, h⟩ := exAffine_ok (K := K)
  obtain ⟨haff, hdef, hdom⟩ := exAffine_hyps (K := K)
  refine ⟨exAffine, [], exAffine.domain, lm, h, ⟨FG_of_AG haff.obj, ?_, ?_⟩, hdom, ?_⟩
  · intro ρ; exact ⟨ρ "x", by simp [exAffine, eval]⟩
  · intro c hc
    exact ⟨(haff.cons c hc).notAssert, FG_of_AG (haff.cons c hc).lhs, FG_of_AG (haff.cons c hc).rhs, hdef c hc⟩
  · intro ρ _ n bd _ hl; simp [lookupB] at hl

/-- non-vacuity with a REAL auxiliary: `min y s.t. c: abs{x} ≤ y`, `x ∈ [-1, 2]`, bounds map `x ∈ [-1, 2]` compiles
(declaring `$abs_0` and processing its two rows) and satisfies every hypothesis of `c01_partial`. -/
example : ∃ (m : Model (Ext K)) (b : BoundsMap (Ext K)) (d : List (DomVar (Ext K))) (lm : LinModel (Ext K)),
    linearizeWith m b d = .ok lm ∧ FragModel true m d ∧ DomRel m d ∧ BoxEnforced b d := by
  obtain ⟨lm, h⟩ := exAbs_ok (K := K)
  exact ⟨exAbs, exAbsBounds, exAbs.domain, lm, h, exAbs_hyps.1, exAbs_hyps.2.1, exAbs_hyps.2.2⟩

/-- **Counterexample for the excluded region** (`BoxEnforced` dropped): `max x s.t. c: max{x, 1/2} ≤ 1/2`,
`x` Boolean, with the bounds map `x ∈ [0, 1/2]` (a tightened Boolean range, as the bounds analysis produced
before fix 5ec6390): the operand `x` is pruned, the model compiles to the single row `0 ≤ 0`, and `x = 1` is
feasible for the linear model but not for the source.  Every other hypothesis of `c01_partial` holds. -/
theorem c01_counterexample :
    ∃ (m : Model (Ext K)) (b : BoundsMap (Ext K)) (d : List (DomVar (Ext K))) (lm : LinModel (Ext K))
      (ρ : String → K),
      linearizeWith m b d = .ok lm ∧ FragModel true m d ∧ DomRel m d ∧ ¬ BoxEnforced b d ∧
      ¬ (srcFeasible m ρ = true ↔
          ∃ ρ' : String → K, (∀ x, inScope d x → ρ' x = ρ x) ∧ linFeasible lm ρ' = true) :=
  boxEnforced_needed (ty := .bool) (k := (1 / 2 : K)) (x0 := 1) (by simp [inDomain]) (by norm_num) (by norm_num)

/-- **Counterexample for the definedness hypothesis** (`FragModel.cons … .defined`): `c: 0 * (x + inf) ≤ 1` is
undefined at every assignment (the source is infeasible), but `simplify` folds it to the tautology `0 ≤ 1`,
which is dropped: the linear model accepts every assignment.  All structural hypotheses hold. -/
theorem c01_defined_counterexample :
    ∃ (m : Model (Ext K)) (b : BoundsMap (Ext K)) (d : List (DomVar (Ext K))) (lm : LinModel (Ext K)),
      linearizeWith m b d = .ok lm ∧ DomRel m d ∧ BoxEnforced b d ∧
      (∀ c ∈ m.constraints, c.isAssert = false ∧ FG true (inScope d) c.lhs ∧ FG true (inScope d) c.rhs) ∧
      (∀ ρ : String → K, ¬ srcFeasible m ρ = true) ∧ (∀ ρ : String → K, linFeasible lm ρ = true) :=
  defined_needed

/-- **Regression for a repaired finding** (found with these theorems on HEAD 8a8f98f, fixed by rooc 5a25b35): in
`min x s.t. c: 0 * (x / 0) ≤ 1` every literal is finite and the constraint has no value at any assignment.
`simplify` keeps the product since rooc 9f62afd, but `Exp::linearize` on a product with constant factor `0`
used to return `0` without visiting the other factor: the row was `0 ≤ 1`.  Now a factor that may be undefined
is still lowered, and the compilation is rejected. -/
theorem c01_zero_factor_regression :
    linearizeWith (exUndefDiv : Model (Ext K)) [] (exUndefDiv : Model (Ext K)).domain = .error .divisionByZero :=
  exUndefDiv_error

/-- a decidable sufficient condition for the definedness hypothesis: finite literals, non-zero literal divisors,
non-empty `min`/`max`. -/
theorem definedE_check (e : Exp (Ext K)) (h : wellDef e = true) : DefinedE e := definedE_of_wellDef e h

/-- `BoxEnforced` from a per-entry check. -/
theorem boxEnforced_check {b : BoundsMap (Ext K)} {d : List (DomVar (Ext K))}
    (h : ∀ n bd, lookupB b n = some bd → ∃ dv ∈ d, dv.name = n ∧ dv.usage > 0 ∧
      ∀ x : K, inDomain x dv.ty = true → Encl bd x) : BoxEnforced b d :=
  boxEnforced_of_entries h

end StageCE

/-! ## The bridge — C01 for the WHOLE pipeline `Compile.linearize m tol maxSteps`

`Compile.linearize` (`Rooc/Compile.lean`) is `Linearizer::linearize`: normalise the constraints for bound
inference → `BoundsAnalyzer::analyze` → `enforceable` → `apply_to_domain` → the work-list lowering.  The two
side conditions of `c01_partial` are DISCHARGED here for the bounds map and the domain the pipeline computes:
`DomRel` (the published domain keeps names/usage, is inside the declared ranges, and is satisfied by every
source-feasible point — C07's soundness through C10's `normalize` on the fragment) and `BoxEnforced` (every
point of the published domain lies in the box the rewrites prune with).

Vocabulary (definitions in `Rooc/Proofs/LinBridge.lean`, `LinBridgeCounter.lean`):
* `DeclOK d` — decidable well-formedness of the DECLARED domain: names distinct; `IntegerRange` ends within
  `i32`; `Real`/`NonNegativeReal` ends not NaN; `NonNegativeReal(lo, _)` has `0 ≤ lo`; a declared variable that
  is never used (usage mark 0) has a non-empty declared range.
* `pipelineAnalyzer m tol n` — the analyzer state the pipeline computes (`analyze … |> enforceable`), `none` iff
  normalisation runs out of fuel.
* `IntRangesInBox an d` — for every `IntegerRange` variable with box `[l, u]` in `an` whose tolerant rounding
  `[⌈l − tol⌉, ⌊u + tol⌋]` is non-empty, both rounded ends lie in `[l, u]`.  Decidable on the computed state.
  It is what the integer rounding of `apply_to_domain` could break before fix b9d407a (`c01_int_tolerance_counterexample`);
  for the analyzer the pipeline computes it is now a theorem (`Rooc.LinP.enforceable_int_ranges_in_box`, `0 ≤ t < 1`), and it
  holds trivially when no `IntegerRange` variable is declared (`NoIntegerVars`). -/

section Bridge
variable [FloorRing K]
open Rooc.BoundsProofs

/-- **C01 for the whole pipeline, piecewise-linear models**, every tolerance `0 ≤ t < 1`, every step limit:
an assignment is source-feasible iff it extends, on the compiler's auxiliaries only, to a feasible point of the
linear model that `Compile.linearize` returns.  No hypothesis about the bounds map, the published domain or the
computed analyzer state is left: since fix b9d407a `enforceable` stores the rounded integer ranges, so
`IntRangesInBox` holds for what the pipeline computes (`Rooc.LinP.enforceable_int_ranges_in_box`; `t < 1` is what
keeps a rounded integer range inside the declared one — `DEFAULT_TOLERANCE = 1e-9`).  `_partial`: the fragment
(`FragModel`, as in `c01_partial`).  `c01_int_tolerance_counterexample` shows what the unrounded box allowed. -/
theorem c01_compile_partial {m : Model (Ext K)} {t : K} (ht : 0 ≤ t) {maxSteps : Nat} {lm : LinModel (Ext K)}
    (h : Compile.linearize m (.fin t) maxSteps = .ok lm)
    (hm : FragModel true m m.domain) (hok : DeclOK m.domain)
    (ht1 : t < 1)
    (ρ : String → K) :
    srcFeasible m ρ = true ↔
      ∃ ρ' : String → K, (∀ x, inScope m.domain x → ρ' x = ρ x) ∧ linFeasible lm ρ' = true :=
  compile_feasible_iff ht h hm hok (Or.inl ht1) ρ

/-- the same without any hypothesis on computed data, for models that declare no `IntegerRange` variable
(Boolean, `Real`, `NonNegativeReal` only): every tolerance `t ≥ 0`, every step limit. -/
theorem c01_compile_noint_partial {m : Model (Ext K)} {t : K} (ht : 0 ≤ t) {maxSteps : Nat} {lm : LinModel (Ext K)}
    (h : Compile.linearize m (.fin t) maxSteps = .ok lm)
    (hm : FragModel true m m.domain) (hok : DeclOK m.domain) (hni : NoIntegerVars m.domain)
    (ρ : String → K) :
    srcFeasible m ρ = true ↔
      ∃ ρ' : String → K, (∀ x, inScope m.domain x → ρ' x = ρ x) ∧ linFeasible lm ρ' = true :=
  compile_feasible_iff ht h hm hok (Or.inr hni) ρ

/-- what the bridge discharges, stated on its own: for the analyzer state the pipeline computes, the published
domain and the bounds map satisfy both side conditions of `c01_partial`. -/
theorem compile_side_conditions {m : Model (Ext K)} {t : K} (ht : 0 ≤ t) (maxSteps : Nat)
    (hm : FragModel true m m.domain) (hok : DeclOK m.domain) {an : Analyzer (Ext K)}
    (han : pipelineAnalyzer m (.fin t) maxSteps = some an) (ht1 : t < 1 ∨ NoIntegerVars m.domain) :
    DomRel m (an.applyToDomain m.domain) ∧
    BoxEnforced (Compile.toLinBounds an.variableBounds) (an.applyToDomain m.domain) :=
  pipeline_hyps ht maxSteps hm hok han ht1

/-- non-vacuity, every tolerance and every step limit: `min x s.t. x ≤ y` goes through the pipeline and satisfies
every hypothesis of `c01_compile_noint_partial` (hence of `c01_compile_partial`). -/
example (t : K) (n : Nat) : ∃ (m : Model (Ext K)) (lm : LinModel (Ext K)),
    Compile.linearize m (.fin t) n = .ok lm ∧ FragModel true m m.domain ∧ DeclOK m.domain ∧
      NoIntegerVars m.domain := by
  obtain ⟨lm, h⟩ := exAffine_compile (K := K) (.fin t) n
  obtain ⟨haff, hdef, _⟩ := exAffine_hyps (K := K)
  refine ⟨exAffine, lm, h, ⟨FG_of_AG haff.obj, ?_, ?_⟩, exAffine_declOK, exAffine_noInt⟩
  · intro ρ; exact ⟨ρ "x", by simp [exAffine, eval]⟩
  · intro c hc
    exact ⟨(haff.cons c hc).notAssert, FG_of_AG (haff.cons c hc).lhs, FG_of_AG (haff.cons c hc).rhs, hdef c hc⟩

/-- non-vacuity with a REAL auxiliary through the pipeline (step limit 0, every tolerance):
`min y s.t. abs{x} ≤ y`, `x ∈ [-1, 2]`. -/
example (t : K) : ∃ (m : Model (Ext K)) (lm : LinModel (Ext K)),
    Compile.linearize m (.fin t) 0 = .ok lm ∧ FragModel true m m.domain ∧ DeclOK m.domain ∧
      NoIntegerVars m.domain := by
  obtain ⟨lm, h⟩ := exAbs_compile (K := K) (.fin t)
  exact ⟨exAbs, lm, h, exAbs_hyps.1, exAbs_declOK, exAbs_noInt⟩

/-- **Counterexample for the excluded region** (`IntRangesInBox` dropped) — the integer-tolerance defect of
`apply_to_domain`.  For every tolerance `0 < t < 1` and every `k ∈ [5 − t, 5)`: with the analyzer state
`x ∈ [0, k]` (what bound inference derives from `max{x, k} ≤ k`, `x ∈ IntegerRange(0, 10)`), `apply_to_domain`
publishes `IntegerRange(⌈0 − t⌉, ⌊k + t⌋) = IntegerRange(0, 5)`, while `linearize_extreme` prunes `x` against
the box `[0, k]`: the model compiles to the single row `0 ≤ 0`, and `x = 5` is feasible for the linear model but
not for the source (`5 > k`).  Observed on the real code (HEAD 947e0f0, `roocverif explore`) with
`k = 4.9999999995`, `t = 1e-9`: the solver returns `n = 5`, the true optimum is `4`. -/
theorem c01_int_tolerance_counterexample {k t : K} (h0 : 0 ≤ t) (h1 : t < 1) (h5 : 5 ≤ k + t) (hk0 : 0 < k)
    (hk : k < 5) :
    ∃ (m : Model (Ext K)) (lm : LinModel (Ext K)) (ρ : String → K),
      m.domain = exIntDecl ∧
      linearizeWith m (Compile.toLinBounds (exIntAn k t).variableBounds)
        ((exIntAn k t).applyToDomain m.domain) = .ok lm ∧
      ¬ IntRangesInBox (exIntAn k t) m.domain ∧
      linFeasible lm ρ = true ∧ ¬ srcFeasible m ρ = true :=
  intTolerance_defect h0 h1 h5 hk0 hk

/-- the parameters of `c01_int_tolerance_counterexample` exist (e.g. `t = 1/2`, `k = 9/2`). -/
example : ∃ k t : K, 0 ≤ t ∧ t < 1 ∧ 5 ≤ k + t ∧ 0 < k ∧ k < 5 :=
  ⟨9 / 2, 1 / 2, by norm_num, by norm_num, by norm_num, by norm_num, by norm_num⟩

/-- the same mechanism as an instance of `c01_partial`'s excluded region: the published domain
`IntegerRange(0, 5)` with the box `[0, k]`, `4 < k < 5` — every hypothesis of `c01_partial` but `BoxEnforced`. -/
theorem c01_int_box_counterexample :
    ∃ (m : Model (Ext K)) (b : BoundsMap (Ext K)) (d : List (DomVar (Ext K))) (lm : LinModel (Ext K))
      (ρ : String → K),
      linearizeWith m b d = .ok lm ∧ FragModel true m d ∧ DomRel m d ∧ ¬ BoxEnforced b d ∧
      ¬ (srcFeasible m ρ = true ↔
          ∃ ρ' : String → K, (∀ x, inScope d x → ρ' x = ρ x) ∧ linFeasible lm ρ' = true) :=
  boxEnforced_needed (ty := .int 0 5) (k := (9 / 2 : K)) (x0 := 5) (by
      simp only [inDomain, Bool.and_eq_true, isIntK_iff, ef_le, ef_ofInt, decide_eq_true_eq]
      exact ⟨⟨⟨5, by norm_num⟩, by norm_num⟩, by norm_num⟩) (by norm_num) (by norm_num)

end Bridge

/-! ## Stage D end to end — logic values and bare assertions (the loop, `lower_logic_assertion`,
`try_lower_affine_logic_assertion`, `directional_logic_witness`, `try_normalize_logic_constraint`)

No syntactic fragment is left: the theorems hold for EVERY model on which the compilation succeeds, under a
STATIC contract on the source expressions — definedness is proved, not assumed.  Vocabulary
(`Rooc/Proofs/LinD2.lean`, `LinD4.lean`, `LinD5.lean`, `LinD10.lean`, `LinD11.lean`, `LinDef1–3.lean`,
`LinBridgeLogic.lean`):
* `GoodS d e` — the static contract on a source expression `e` over the domains `d`: every variable is declared
  with a usage mark; every literal is finite (`finiteLits`, syntactic); and at every assignment that satisfies
  `d` NO and/or NODE COLLAPSES TO A NON-0/1 VALUE (`NCon`: for every and/or node `n` of `e`, `simplify n` is
  0/1-valued where defined).  The last clause is exactly what the singleton collapse of `Exp::simplify` violates.
  It is a hypothesis of the `linearizeWith`-level theorems only: `Linearizer::linearize` checks it up front on the
  declared domains (`check_collapsing_logic_operands`, rooc 81a4b76 + e35561f; model `collapseCheckAll` on
  `Compile.scratchState`), and the pipeline theorems (`c01_compile_logic_partial`, ...) DERIVE it from the
  successful compilation (`ncon_of_compile`, `collapse_check_spec`), their contract being `StaticModel m` =
  scope + finite literals.  It is also implied by `collapsesNonbinary (isBoolVar d) e = false` — the Lean port of the harness flag
  `nary-singleton-nonbinary` (`harness/src/props/c01.rs::collapses_nonbinary`) — see `no_collapse_check`, and by
  C10's stronger `LogicOperands01` on the domains (`LOon`, `noCollapse_of_logicOperands`), for which
  `operandsOK d e` is a syntactic check.
* `GoodE d e` — `GoodS d e` plus `DefOn d e` (defined at every assignment satisfying `d`); used INSIDE the
  development (the specifications of the lowering functions below take `DefOn` of their argument); the
  end-to-end theorems obtain it from the successful run (`process_constraint_defined`).
* `SrcD d c` — both sides of the constraint `c` are `GoodS d`.
* `LogicModel m d` — the objective is `GoodS d`, every constraint (comparison or bare assertion) is `SrcD d`.
  Every `FragModel` is a `LogicModel`.
* `HasTruth e t ρ` — `e` evaluates to `1` (`t = true`) / `0` (`t = false`) at `ρ`;
  `AssertOK d0 s s' e t` — the loop state `s'` has, up to fresh auxiliaries, exactly the solutions of `s` at
  which `e` has truth `t` (sound and complete), the loop invariant is kept, and `e` is 0/1-valued on solutions;
  `DirOK d0 s s' e t x` — `x` is an affine 0/1 expression that can be `1` only where `e` has truth `t` and that can
  be made `1` wherever it has (a directional witness).
* `AssertShape m` — a bare assertion is stored as `lhs = 1` (what the front end produces; bound inference reads
  it that way). -/

section StageD
variable [FloorRing K]
open Rooc.BoundsProofs

/-- **`try_lower_affine_logic_assertion`**: it either leaves the state alone and answers `false`, or lowers the
assertion "the truth of `e` is `t`" to one affine row, soundly and completely. -/
theorem try_lower_affine_spec {d0 : List (DomVar (Ext K))} (e : Exp (Ext K)) (t : Bool) (name : String)
    (s : St (Ext K)) (b : Bool) (s' : St (Ext K)) (hinv : LoopInvD d0 s)
    (hsc : ∀ x ∈ varsOf e, inScope s.domain x) (h : tryLowerAffine e t name s = .ok (b, s')) :
    (b = false → s' = s) ∧ (b = true → AssertOK d0 s s' e t) :=
  tryLowerAffine_spec e t name s b s' hinv hsc h

/-- **`directional_logic_witness`** on every formula (and / or / not / implies / iff / xor, any nesting, both
polarities, affine shortcuts included): on success the returned expression is a directional witness. -/
theorem directional_witness_spec {d0 : List (DomVar (Ext K))} (e : Exp (Ext K)) (t : Bool) (s : St (Ext K))
    (x : Exp (Ext K)) (s' : St (Ext K)) (hinv : LoopInvD d0 s) (hsc : ∀ y ∈ varsOf e, inScope s.domain y)
    (hfin : FinE e) (hdef : DefOn s.domain e) (h : dirWitness e t s = .ok (x, s')) : DirOK d0 s s' e t x :=
  dirWitness_spec e t s x s' hinv hsc hfin hdef h

/-- **`lower_logic_assertion`** on every formula: on success the new state has — up to the auxiliaries —
exactly the solutions of the old one at which `e` has the truth value `t`. -/
theorem lower_assertion_spec {d0 : List (DomVar (Ext K))} (e : Exp (Ext K)) (t : Bool) (name : String)
    (s s' : St (Ext K)) (hinv : LoopInvD d0 s) (hsc : ∀ y ∈ varsOf e, inScope s.domain y)
    (hfin : FinE e) (hdef : DefOn s.domain e) (h : lowerAssertion e t name s = .ok ((), s')) :
    AssertOK d0 s s' e t :=
  lowerAssertion_spec e t name s s' hinv hsc hfin hdef h

/-- the loop on models with logic: it empties the queue and — up to fresh auxiliaries — keeps exactly the
solutions. -/
theorem drain_logic_sound_complete {d0 : List (DomVar (Ext K))} (n : Nat) (s : St (Ext K)) (r : Unit × St (Ext K))
    (hinv : LoopInvD d0 s) (h : drain n s = .ok r) :
    LoopInvD d0 r.2 ∧ r.2.queue = [] ∧
    (∀ ρ : String → K, Sat ρ r.2 → Sat ρ s) ∧
    (∀ ρ : String → K, Sat ρ s → ∃ ρ' : String → K, (∀ x, inScope s.domain x → ρ' x = ρ x) ∧ Sat ρ' r.2) := by
  obtain ⟨h1, h2, h3⟩ := drainD n s r hinv h
  exact ⟨h1, h2, fun ρ hs => (h3.sound ρ hs).1, fun ρ hs => h3.complete ρ hs trivial⟩

/-- **C01 for models with logic values and bare assertions** (every connective as a value inside arithmetic,
comparisons of a logic value against a constant, bare assertions of nested formulas, together with everything
`c01_partial` covers): for EVERY model that compiles and satisfies the contract, an assignment is
source-feasible iff it extends, on the compiler's auxiliaries only, to a feasible point of the linear model.

The contract `LogicModel m d` is STATIC: every side uses declared used variables only, has finite literals and
is not flagged `nary-singleton-nonbinary` (`no_collapse_check`).  DEFINEDNESS IS NOT A HYPOTHESIS: a successful
compilation proves every lowered side defined at every assignment (`linearize_exp_defined`,
`lower_assertion_defined`, `process_constraint_defined`, `compile_objective_defined`).

`_partial`: the excluded region is (i) models with an and/or node that collapses to a non-0/1 value on the
domains (`c01_logic_counterexample`; `linearizeWith` alone does not check, the pipeline does since rooc 81a4b76 +
e35561f and rejects the counterexample: `c01_collapse_regression`), (ii) non-finite
literals (`c01_defined_counterexample`).  Three places where rooc discarded a sub-expression without lowering it
were found with these theorems and are repaired (5a25b35, 46b0121, ba14904: `c01_zero_factor_regression`,
`c01_pruned_operand_regression`, `c01_verdict_regression`).  `DomRel`/`BoxEnforced` as in `c01_partial`; they
are discharged for the whole pipeline in `c01_compile_logic_partial`. -/
theorem c01_logic_partial {m : Model (Ext K)} {b : BoundsMap (Ext K)} {d : List (DomVar (Ext K))}
    {lm : LinModel (Ext K)} (h : linearizeWith m b d = .ok lm)
    (hm : LogicModel m d) (hdom : DomRel m d) (hbox : BoxEnforced b d) (ρ : String → K) :
    srcFeasible m ρ = true ↔
      ∃ ρ' : String → K, (∀ x, inScope d x → ρ' x = ρ x) ∧ linFeasible lm ρ' = true :=
  logic_feasible_iff hm hdom hbox h ρ

/-- **C01 for the whole pipeline `Compile.linearize`, models with logic**: every tolerance `0 ≤ t < 1` (or any
`t ≥ 0` without `IntegerRange` variables), every step limit; no hypothesis on computed data.  THE CONTRACT IS
`StaticModel m`: every side mentions declared used variables only and has finite literals — nothing semantic.
(The clause "no and/or node collapses to a non-0/1 value" that `c01_logic_partial` needs is established by the
up-front collapse check of `Linearizer::linearize`, rooc 81a4b76 + e35561f: `ncon_of_compile`.)  `_partial`: the
excluded region is non-finite literals (`c01_defined_counterexample`) and tolerances `t ≥ 1` with integer
variables (`c01_tolerance_counterexample`). -/
theorem c01_compile_logic_partial {m : Model (Ext K)} {t : K} (ht : 0 ≤ t) {maxSteps : Nat} {lm : LinModel (Ext K)}
    (h : Compile.linearize m (.fin t) maxSteps = .ok lm)
    (hm : StaticModel m) (hsh : AssertShape m) (hok : DeclOK m.domain)
    (ht1 : t < 1 ∨ NoIntVars m.domain) (ρ : String → K) :
    srcFeasible m ρ = true ↔
      ∃ ρ' : String → K, (∀ x, inScope m.domain x → ρ' x = ρ x) ∧ linFeasible lm ρ' = true :=
  compile_feasible_iff_static ht h hm hsh hok ht1 ρ

/-- **`check_collapsing_logic_operands`** (rooc 81a4b76): from a state satisfying the loop invariant, a successful
check is a sound and complete step (every solution of the old state extends, on new auxiliaries only, to a
solution of the new one, and every solution of the new one is one of the old) after which, at every solution, no
and/or node of the checked expression collapses to a non-0/1 value. -/
theorem collapse_check_spec {d0 : List (DomVar (Ext K))} (e : Exp (Ext K)) (s s' : St (Ext K))
    (hinv : LoopInvD d0 s) (hsc : ∀ x ∈ varsOf e, inScope s.domain x) (hfin : FinE e)
    (h : collapseCheck e s = .ok ((), s')) :
    LoopInvD d0 s' ∧ StepOK s s' (fun _ => True) ∧ ∀ ρ : String → K, Sat ρ s' → NC ρ e := by
  have C := collapseCheck_spec e s s' hinv hsc hfin h
  exact ⟨C.inv, C.step, C.ok⟩

/-- **`NCon` follows from "compile succeeds"** (`ncon_of_compile_ok`): when `Compile.linearize` succeeds on a
well-scoped model with finite literals and well-formed declarations, then at EVERY assignment of the declared
domains no and/or node of the objective or of a constraint side collapses to a non-0/1 value — the up-front check
of rooc e35561f runs on the declared domains with the declared boxes, which enclose every such assignment. -/
theorem ncon_of_compile {m : Model (Ext K)} {tol : Ext K} {maxSteps : Nat} {lm : LinModel (Ext K)}
    (h : Compile.linearize m tol maxSteps = .ok lm) (hm : StaticModel m) (hok : DeclOK m.domain) :
    NCon m.domain m.objective ∧
    ∀ c ∈ m.constraints, NCon m.domain c.lhs ∧ (c.isAssert = false → NCon m.domain c.rhs) :=
  ncon_of_compile_ok h hm hok

/-- a model that compiles under the static contract satisfies the contract of the `linearizeWith` theorems. -/
theorem logicModel_of_compile_ok {m : Model (Ext K)} {tol : Ext K} {maxSteps : Nat} {lm : LinModel (Ext K)}
    (h : Compile.linearize m tol maxSteps = .ok lm) (hm : StaticModel m) (hsh : AssertShape m)
    (hok : DeclOK m.domain) : LogicModel m m.domain :=
  logicModel_of_compile h hm hsh hok

/-- a decidable sufficient condition for C10's `LogicOperands01` on the domains. -/
theorem logic_operands_check {d : List (DomVar (Ext K))} (hnd : (d.map (·.name)).Nodup) {e : Exp (Ext K)}
    (h : operandsOK d e = true) (hsc : ∀ y ∈ varsOf e, inScope d y) : LOon d e :=
  loOn_of_operandsOK hnd h hsc

/-- `LogicOperands01` on the domains implies the and/or clause of the contract (it is the stronger condition). -/
theorem noCollapse_of_logicOperands {d : List (DomVar (Ext K))} {e : Exp (Ext K)} (hlo : LOon d e)
    (hd : DefOn d e) : NCon d e := NCon.ofLO hlo hd

/-- **the and/or clause of the contract is the harness flag**: an expression that `collapsesNonbinary` (the port
of `collapses_nonbinary` of `harness/src/props/c01.rs`, root cause flag `nary-singleton-nonbinary`) does not flag
satisfies it. -/
theorem no_collapse_check {d : List (DomVar (Ext K))} (hnd : (d.map (·.name)).Nodup) {e : Exp (Ext K)}
    (hsc : ∀ x ∈ varsOf e, inScope d x) (h : collapsesNonbinary (isBoolVar d) e = false) : NCon d e :=
  NCon.ofFlag hnd hsc h

/-- a decidable sufficient condition for the definedness clause: finite literals and the Rust guard
`may_be_undefined` answers `false` (every divisor is a non-zero literal, no empty `min`/`max`). -/
theorem defined_check {d : List (DomVar (Ext K))} {e : Exp (Ext K)} (hf : finiteLits e = true)
    (hu : Exp.mayBeUndefined e = false) : DefOn d e := by
  intro ρ _
  have := Rooc.Def_of_total ρ e hf hu
  exact ⟨_, Rooc.eval_of_Def this⟩

/-- **the contract from decidable checks only**: well-scoped, finite literals, not flagged
`nary-singleton-nonbinary` on every side.  Nothing else. -/
theorem logicModel_of_checks {m : Model (Ext K)} {d : List (DomVar (Ext K))} (hnd : (d.map (·.name)).Nodup)
    (hobj : (∀ x ∈ varsOf m.objective, inScope d x) ∧ finiteLits m.objective = true ∧
      collapsesNonbinary (isBoolVar d) m.objective = false)
    (hcons : ∀ c ∈ m.constraints,
      ((∀ x ∈ varsOf c.lhs, inScope d x) ∧ finiteLits c.lhs = true ∧
        collapsesNonbinary (isBoolVar d) c.lhs = false) ∧
      ((∀ x ∈ varsOf c.rhs, inScope d x) ∧ finiteLits c.rhs = true ∧
        collapsesNonbinary (isBoolVar d) c.rhs = false)) :
    LogicModel m d := by
  have mk : ∀ e : Exp (Ext K), ((∀ x ∈ varsOf e, inScope d x) ∧ finiteLits e = true ∧
      collapsesNonbinary (isBoolVar d) e = false) → GoodS d e :=
    fun e h => ⟨h.1, h.2.1, NCon.ofFlag hnd h.1 h.2.2⟩
  exact ⟨mk _ hobj, fun c hc => ⟨mk _ (hcons c hc).1, mk _ (hcons c hc).2⟩⟩

/-! ### compile succeeds ⇒ defined -/

/-- **success of `Exp::linearize` proves definedness**: an expression with finite literals that is lowered
successfully — any requirement, any state, no invariant — has a value at EVERY assignment.  (Every
sub-expression is lowered or skipped under `!may_be_undefined()`: rooc 5a25b35, 46b0121.) -/
theorem linearize_exp_defined {e : Exp (Ext K)} {req : Req} {s : St (Ext K)} {r : Ctx (Ext K) × St (Ext K)}
    (h : linExp e req s = .ok r) (hf : finiteLits e = true) (ρ : String → K) : ∃ v, eval ρ e = some v :=
  def_iff_exists.mp (def_of_linExp h hf ρ)

/-- the same for `lower_logic_assertion` (with `try_lower_affine_logic_assertion`, `directional_logic_witness`
and the `iff`/`xor` witnesses inside). -/
theorem lower_assertion_defined {e : Exp (Ext K)} {t : Bool} {name : String} {s s' : St (Ext K)}
    (h : lowerAssertion e t name s = .ok ((), s')) (hf : finiteLits e = true) (ρ : String → K) :
    ∃ v, eval ρ e = some v :=
  def_iff_exists.mp (def_of_lowerAssertion h hf ρ)

/-- the same for `directional_logic_witness`. -/
theorem directional_witness_defined {e : Exp (Ext K)} {t : Bool} {s : St (Ext K)} {r : Exp (Ext K) × St (Ext K)}
    (h : dirWitness e t s = .ok r) (hf : finiteLits e = true) (ρ : String → K) : ∃ v, eval ρ e = some v :=
  def_iff_exists.mp (dirWitness_def e t s r h hf ρ)

/-- **one iteration of the loop on a source constraint under the static contract**: when it succeeds, the left
side — and for a comparison the right side — AS WRITTEN BY THE USER (before `normalize`) has a value at every
assignment satisfying the domains. -/
theorem process_constraint_defined {d0 : List (DomVar (Ext K))} {c : Constraint (Ext K)} {s : St (Ext K)}
    {r : Unit × St (Ext K)} (h : processConstraint c s = .ok r) (hc : SrcD d0 c) (ρ : String → K)
    (hd : DomSat ρ d0) :
    (∃ v, eval ρ c.lhs = some v) ∧ (c.isAssert = false → ∃ v, eval ρ c.rhs = some v) := by
  obtain ⟨h1, h2⟩ := process_defined h hc ρ hd
  exact ⟨def_iff_exists.mp h1, fun ha => def_iff_exists.mp (h2 ha)⟩

/-- the objective of a model that compiles under the static contract is defined on the domains. -/
theorem linearizeWith_objective_defined {m : Model (Ext K)} {b : BoundsMap (Ext K)} {d : List (DomVar (Ext K))}
    {lm : LinModel (Ext K)} (hm : LogicModel m d) (h : linearizeWith m b d = .ok lm) : DefOn d m.objective :=
  hm.obj_defined h

/-- the whole pipeline: the objective has a value at every source-feasible assignment. -/
theorem compile_objective_defined {m : Model (Ext K)} {t : K} (ht : 0 ≤ t) {maxSteps : Nat} {lm : LinModel (Ext K)}
    (h : Compile.linearize m (.fin t) maxSteps = .ok lm)
    (hm : StaticModel m) (hsh : AssertShape m) (hok : DeclOK m.domain)
    (ht1 : t < 1 ∨ NoIntVars m.domain) (ρ : String → K) (hs : srcFeasible m ρ = true) :
    ∃ v, eval ρ m.objective = some v :=
  compile_obj_defined ht h (logicModel_of_compile h hm hsh hok) hsh hok ht1 ρ hs

/-- **the work-list loses nothing**: when `linearizeWith` succeeds, every source constraint went through one
successful loop iteration (no lowering function removes or reorders a queued constraint: `QExt`, proved for
`Exp::linearize`, the logic lowering and the loop body without any invariant). -/
theorem every_constraint_processed {m : Model (Ext K)} {b : BoundsMap (Ext K)} {d : List (DomVar (Ext K))}
    {lm : LinModel (Ext K)} (h : linearizeWith m b d = .ok lm) :
    ∀ c ∈ m.constraints, ∃ (s1 : St (Ext K)) (r1 : Unit × St (Ext K)), processConstraint c s1 = .ok r1 :=
  compiled_processed h

/-- **compile succeeds ⇒ defined, for the whole model** (`linearizeWith`): under the static contract every side
of every constraint is defined at every assignment satisfying the domains (the right side of a bare assertion
is not part of its meaning and is not lowered). -/
theorem linearizeWith_sides_defined {m : Model (Ext K)} {b : BoundsMap (Ext K)} {d : List (DomVar (Ext K))}
    {lm : LinModel (Ext K)} (hm : LogicModel m d) (h : linearizeWith m b d = .ok lm) :
    ∀ c ∈ m.constraints, DefOn d c.lhs ∧ (c.isAssert = false → DefOn d c.rhs) :=
  compiled_sides_defined hm h

/-- **compile succeeds ⇒ defined, for the whole pipeline `Compile.linearize`**, on the DECLARED domains, for any
tolerance and step limit, with no hypothesis besides the static contract: the objective and every side of every
constraint of a model that compiles has a value at every assignment that satisfies the declarations.  (What the
three repairs 5a25b35 / 46b0121 / ba14904 bought: an accepted model cannot contain an expression without a value.) -/
theorem c01_compile_defined {m : Model (Ext K)} {tol : Ext K} {maxSteps : Nat} {lm : LinModel (Ext K)}
    (h : Compile.linearize m tol maxSteps = .ok lm) (hm : StaticModel m) (hsh : AssertShape m)
    (hok : DeclOK m.domain) :
    DefOn m.domain m.objective ∧
    ∀ c ∈ m.constraints, DefOn m.domain c.lhs ∧ (c.isAssert = false → DefOn m.domain c.rhs) :=
  compile_sides_defined_static h hm hsh hok

/-- the piecewise-linear fragment is a special case. -/
theorem logicModel_of_fragModel {m : Model (Ext K)} {d : List (DomVar (Ext K))} (h : FragModel true m d) :
    LogicModel m d := LogicModel.ofFragModel h

/-- non-vacuity with real logic: `min a s.t. assert (a or b)`, `a`, `b` Boolean compiles (the assertion becomes the
row `a + b ≥ 1`) and satisfies every hypothesis of `c01_logic_partial`. -/
example : ∃ (m : Model (Ext K)) (b : BoundsMap (Ext K)) (d : List (DomVar (Ext K))) (lm : LinModel (Ext K)),
    linearizeWith m b d = .ok lm ∧ LogicModel m d ∧ DomRel m d ∧ BoxEnforced b d := by
  obtain ⟨lm, h⟩ := exOr_ok (K := K)
  exact ⟨exOr, [], exOr.domain, lm, h, exOr_logicModel, exOr_domRel, exOr_box⟩

/-- non-vacuity through the whole pipeline (every tolerance, step limit 0). -/
example (t : K) : ∃ (m : Model (Ext K)) (lm : LinModel (Ext K)),
    Compile.linearize m (.fin t) 0 = .ok lm ∧ StaticModel m ∧ AssertShape m ∧ DeclOK m.domain ∧
      NoIntVars m.domain := by
  obtain ⟨lm, h⟩ := exOr_compile (K := K) (.fin t)
  exact ⟨exOr, lm, h, StaticModel.ofLogic exOr_logicModel, exOr_assertShape, exOr_declOK, exOr_noInt⟩

/-- **Counterexample for the excluded region of `c01_logic_partial`** (the and/or clause `NCon` of the contract
dropped, at the level of `linearizeWith`, which does not run the collapse check): `min x s.t. c: (x and 1) = 3`,
`x ∈ Real(0, 4)`.  `simplify` drops the operand `1`, what is left is the non-Boolean `x`, and the row is `x = 3`:
the linear model has the feasible point `x = 3`, the source model has none (`x and 1` is 0 or 1).  Every other
hypothesis of `c01_logic_partial` holds.  The PIPELINE rejects this model: `c01_collapse_regression`. -/
theorem c01_logic_counterexample :
    ∃ (m : Model (Ext K)) (b : BoundsMap (Ext K)) (d : List (DomVar (Ext K))) (lm : LinModel (Ext K))
      (ρ : String → K),
      linearizeWith m b d = .ok lm ∧ DomRel m d ∧ BoxEnforced b d ∧
      (∀ c ∈ m.constraints, (∀ y, (y ∈ varsOf c.lhs ∨ y ∈ varsOf c.rhs) → inScope d y) ∧ FinE c.lhs ∧ FinE c.rhs ∧
        DefOn d c.lhs ∧ DefOn d c.rhs ∧ NCon d c.rhs) ∧
      GoodE d m.objective ∧
      linFeasible lm ρ = true ∧ ∀ ρ' : String → K, ¬ srcFeasible m ρ' = true :=
  lo_needed

/-- **Regression for the singleton collapse** (findings C01-nary-singleton-nonbinary*, repaired by rooc 81a4b76 +
e35561f): the model of `c01_logic_counterexample` is rejected by `Compile.linearize` with
`NonBinaryLogicOperand`, at every tolerance and every step limit. -/
theorem c01_collapse_regression (tol : Ext K) (maxSteps : Nat) :
    Compile.linearize (exAndOne : Model (Ext K)) tol maxSteps = .error .nonBinaryLogicOperand :=
  exAndOne_compile_rejected tol maxSteps

end StageD

/-! ## which hypotheses of the pipeline theorems can be dropped -/

section Hypotheses
variable [FloorRing K]
open Rooc.BoundsProofs

/-- **`t < 1` is sharp** (for models with `IntegerRange` variables): for EVERY tolerance `t ≥ 1` and every step
limit, `min x`, `x ∈ IntegerRange(0, 5)` compiles, every other hypothesis of `c01_compile_logic_partial` holds,
the linear model accepts `x = 6` and the source model does not.  (`enforceable` rounds the box to
`[⌈0 − t⌉, ⌊5 + t⌋] ⊇ [−1, 6]` and `apply_to_domain` publishes an even wider `IntegerRange`; the only shipped
tolerance, `DEFAULT_TOLERANCE = 1e-9`, is far below the threshold.) -/
theorem c01_tolerance_counterexample {t : K} (ht : 1 ≤ t) (maxSteps : Nat) :
    ∃ (m : Model (Ext K)) (lm : LinModel (Ext K)) (ρ : String → K),
      Compile.linearize m (.fin t) maxSteps = .ok lm ∧
      LogicModel m m.domain ∧ AssertShape m ∧ DeclOK m.domain ∧
      linFeasible lm ρ = true ∧ ¬ srcFeasible m ρ = true := by
  obtain ⟨lm, ρ, h1, h2, h3⟩ := tolerance_ge_one_breaks (K := K) ht maxSteps
  exact ⟨exI, lm, ρ, h1, exI_hyps.1, exI_hyps.2.1, exI_hyps.2.2, h2, h3⟩

/-- **regression for the repaired finding on pruning** (rooc 46b0121, found by this development):
`min y s.t. c: y ≥ max{10, 0 * (x / 0)}`.  The operand `0 * (x / 0)` has no value at any assignment, its box is
`[0, 0]`, so it is dominated by `10`; `linearize_extreme` used to PRUNE IT WITHOUT LOWERING IT — the division by
zero was never reported, the row was `y ≥ 10`, the linear model feasible and the source model not.  The
retention test is now `¬dominated ∨ may_be_undefined` (`retainedFlagsE`); the operand is lowered and the
compilation is rejected. -/
theorem c01_pruned_operand_regression :
    linearizeWith (exPr : Model (Ext K)) [] (exPr : Model (Ext K)).domain = .error .divisionByZero :=
  exPr_error

/-- **regression for the repaired finding 4** (rooc ba14904, found by this development and confirmed with
`Linearizer::linearize`): `min x s.t. c: (b and (x / 0)) ≤ 1`, `x ∈ Real(0, 1)`, `b` Boolean.
`try_normalize_logic_constraint` answered `Tautology` from the literal `1` alone, so the logic value was never
lowered and its division by zero never reported: the model compiled to NO row (while `(b and (x / 0)) ≤ 0` was
rejected).  The two constant verdicts are now guarded by `!may_be_undefined()`; the constraint takes the generic
path and the compilation is rejected. -/
theorem c01_verdict_regression :
    linearizeWith (exTaut : Model (Ext K)) [] (exTaut : Model (Ext K)).domain = .error .divisionByZero :=
  exTaut_error

/-- **`AssertShape` is discharged for every model that comes over the wire** (`Model.dec`, the decoder the
checker uses): a bare assertion is always stored as `lhs = 1`. -/
theorem assertShape_of_wire [Wire (Ext K)] {s : Sexp} {m : Model (Ext K)} (h : Model.dec s = some m) :
    AssertShape m := assertShape_of_dec h

end Hypotheses

/-! ## the error direction — supported affine models COMPILE

`L1 e` (`Rooc/Proofs/LinSucceed.lean`, decidable): arithmetic only, every product has a literal factor, every
divisor is a non-zero literal.  `SrcL c`: `c` is a comparison whose sides, AFTER CONSTANT FOLDING (`simplify`), are
`L1` and fit the flatten fuel (`fsize`, the size of the fully distributed form, ≤ 10⁶). -/

section Success
variable [FloorRing K]
open Rooc.Exp

/-- `Exp::linearize` never fails on a linear shape (no spurious `NonLinearExpression` / `DivisionByZero`), and
does not touch the state. -/
theorem linearize_exp_succeeds (e : Exp (Ext K)) (h : L1 e) (req : Req) (s : St (Ext K)) :
    ∃ c, linExp e req s = .ok (c, s) := linExp_L1 e h req s

/-- `L1` is closed under the whole `normalize` (simplify → flatten → simplify), which succeeds within the fuel
and does not grow the fuel measure. -/
theorem normalize_succeeds {e : Exp (Ext K)} (h : L1 (simplify e)) (hsz : fsize (simplify e) ≤ flattenFuel) :
    ∃ e', normalizeExp e = some e' ∧ L1 e' ∧ fsize e' ≤ fsize (simplify e) := normalize_L1 h hsz

/-- **no spurious error**: a model whose objective and constraints are supported affine expressions compiles —
through the whole pipeline, for every tolerance and every step limit, whatever the declared domains.
(`fragCheck m`: no logic node as written, so the up-front collapse check of rooc e35561f has nothing to do.) -/
theorem c01_affine_compile_succeeds {m : Model (Ext K)} (tol : Ext K) (maxSteps : Nat)
    (hscr : fragCheck m = true)
    (hobj : L1 (simplify m.objective)) (hobjsz : fsize (simplify m.objective) ≤ flattenFuel)
    (hcons : ∀ c ∈ m.constraints, SrcL c) (hlen : m.constraints.length < drainFuel) :
    ∃ lm, Compile.linearize m tol maxSteps = .ok lm :=
  compile_succeeds tol maxSteps (scratchOK_of_fragCheck tol maxSteps hscr) hobj hobjsz hcons hlen

/-- the same for `linearizeWith` with any bounds map and any domain. -/
theorem c01_affine_linearizeWith_succeeds {m : Model (Ext K)} (b : BoundsMap (Ext K)) (d : List (DomVar (Ext K)))
    (hobj : L1 (simplify m.objective)) (hobjsz : fsize (simplify m.objective) ≤ flattenFuel)
    (hcons : ∀ c ∈ m.constraints, SrcL c) (hlen : m.constraints.length < drainFuel) :
    ∃ lm, linearizeWith m b d = .ok lm :=
  linearizeWith_succeeds b d hobj hobjsz hcons hlen

/-- non-vacuity: `min x s.t. x ≤ y` is a supported affine model. -/
example : L1 (simplify (exAffine : Model (Ext K)).objective) ∧
    fsize (simplify (exAffine : Model (Ext K)).objective) ≤ flattenFuel ∧
    (∀ c ∈ (exAffine : Model (Ext K)).constraints, SrcL c) ∧
    (exAffine : Model (Ext K)).constraints.length < drainFuel := by
  refine ⟨by simp [exAffine, simplify, L1], by simp [exAffine, simplify, fsize, flattenFuel], ?_,
    by simp [exAffine, drainFuel]⟩
  intro c hc
  simp only [exAffine, List.mem_singleton] at hc
  subst hc
  exact ⟨rfl, by simp [simplify, L1], by simp [simplify, L1], by simp [simplify, fsize, flattenFuel]⟩

/-! ### the piecewise-linear fragment: `abs`, `min`, `max` (expression level)

Vocabulary (`Rooc/Proofs/LinNames.lean`, `LinFresh.lean`, `LinSucceedPW.lean`):
* `gen F i suf` — the auxiliary name of family `F` (`$abs_`, `$min_`, `$max_`, `$and_`, …, `$logic_witness_`), counter
  `i`, suffix `suf` (none, `_positive`, `_select_j`); `SrcName x` — `x` does not start with `$`.
* `NamesOK s` — every name in the domain of the state `s` is a `SrcName` or a `gen F i suf` with `i` below the current
  counter of `F`; `BAgree bm s` — the bounds map of `s` agrees with `bm` on `SrcName`s;
  `Grow s s'` — counters do not decrease, new names are generated at or above the old counters, bounds of `SrcName`s
  are untouched.
* `PW bm e q` — `e` is piecewise-linear (affine shapes, `abs`, `min`, `max`, any nesting; literal factors, non-zero
  literal divisors) and, wherever the requirement `q` forces a big-M gadget, the bounds `bm` are finite (exactly the
  condition whose failure is `MissingFiniteBounds`); decidable by recursion on `e`. -/

/-- **the auxiliary names never collide**: (family, counter, suffix) ↦ name is injective. -/
theorem aux_names_distinct {F F' : Fam} {i i' : Nat} {suf suf' : Suf} (h : gen F i suf = gen F' i' suf') :
    F = F' ∧ i = i' ∧ suf = suf' := gen_inj h

/-- **fresh-name availability**: in a state whose `$`-names were all generated below the current counters, a name
generated at or above the current counter of its family is new — `declare_variable` cannot fail on it. -/
theorem fresh_name_available {s : St (Ext K)} (h : NamesOK s) (F : Fam) {i : Nat} (hi : ctr s F ≤ i) (suf : Suf) :
    gen F i suf ∉ s.domain.map (·.name) := h.fresh F hi suf

/-- **no spurious error in `Exp::linearize` on the piecewise-linear fragment** (abs / min / max with the
finite-bounds conditions): from every state whose user names do not start with `$` and whose bounds agree with
`bm` on them, the lowering succeeds — every auxiliary variable (`$abs_i`, `$abs_i_positive`, `$max_i`,
`$max_i_select_j`, …) is new at the moment it is declared, pruning leaves at least what `PW` inspected, the
one-sided and big-M gadgets are emitted — and the step keeps the invariants. -/
theorem piecewise_linearize_succeeds {bm : BoundsMap (Ext K)} {e : Exp (Ext K)} {q : Req} (h : PW bm e q)
    (s : St (Ext K)) (hn : NamesOK s) (hb : BAgree bm s) :
    ∃ c s', linExp e q s = .ok (c, s') ∧ Grow s s' ∧ NamesOK s' ∧ BAgree bm s' := by
  obtain ⟨c, s', h1, g, _, _⟩ := linExp_PW h s hn hb
  exact ⟨c, s', h1, g, hn.grow g, hb.grow g⟩

/-- non-vacuity: `|x|` with `x ∈ [−3, 3]` at requirement `exact` needs the big-M gadget and is in the fragment; a
state with the single user variable `x` satisfies the invariants, so the lowering succeeds. -/
example : ∃ (bm : BoundsMap (Ext K)) (e : Exp (Ext K)) (s : St (Ext K)) (c : Ctx (Ext K)) (s' : St (Ext K)),
    PW bm e .exact ∧ NamesOK s ∧ BAgree bm s ∧ linExp e .exact s = .ok (c, s') := by
  obtain ⟨c, s', h, _, _, _⟩ := linExp_PW exPW_pw exPWState (exPW_names (K := K)) exPW_agree
  exact ⟨_, _, _, c, s', exPW_pw, exPW_names, exPW_agree, h⟩

/-! ### the piecewise-linear fragment: the loop and the whole pipeline

* `wt e` — number of nodes of `e`; `budget W = 10·W + 60`.
* `SrcPW bm W c` — `c` is a comparison; both sides normalise to expressions whose top node is arithmetic; their
  difference normalises to an expression in `PW bm · (requirement of the comparison)` of weight ≤ `W`.  Decidable.
The two size hypotheses below (`budget W ≤ flattenFuel`, `4·W·(#constraints + 1) + 1 ≤ drainFuel`, both fuels are
`10⁶`) are about the FUELS OF THE LEAN MODEL (the Rust code recurses / loops without fuel): the accounting shows
that a context has at most `wt e` entries, that lowering `e` queues at most `4·wt e − 2` rows, each an affine
comparison of size ≤ `10·wt e + 60`, and that the loop needs one iteration per source constraint plus one per
queued row. -/

/-- one iteration of the loop on a supported piecewise-linear comparison succeeds (all four verdicts of
`try_normalize_logic_constraint`), keeps the invariants and queues only small affine rows. -/
theorem piecewise_process_succeeds {bm : BoundsMap (Ext K)} {W : Nat} (hW : 1 ≤ W) {c : Constraint (Ext K)}
    (hc : SrcPW bm W c) (s : St (Ext K)) (hn : NamesOK s) (hb : BAgree bm s) :
    ∃ s', processConstraint c s = .ok ((), s') ∧ Grow s s' ∧ QStep W s s' := by
  obtain ⟨s', h, g, q⟩ := process_PW hW hc s hn hb
  exact ⟨s', h, g, q⟩

/-- **no spurious error on piecewise-linear models** (`linearizeWith`): the user's names do not start with `$`;
objective and constraints are in the fragment relative to the bounds map `b` (exactly: no `NonLinearExpression`,
`DivisionByZero`, `MissingFiniteBounds` condition is violated); the model fits the fuels.  Then the compilation
succeeds — no other error is possible: auxiliary names are always new, pruning never leaves an empty `min`/`max`
the fragment did not see, every queued row is affine and is lowered by the affine theorem. -/
theorem c01_piecewise_linearizeWith_succeeds {m : Model (Ext K)} (b : BoundsMap (Ext K)) (d : List (DomVar (Ext K)))
    {W : Nat} (hW : 1 ≤ W) (hB : budget W ≤ flattenFuel) (hnames : ∀ dv ∈ d, SrcName dv.name)
    (hobj : ∃ o, normalizeExp m.objective = some o ∧ PW b o (objReq m) ∧ wt o ≤ W)
    (hcons : ∀ c ∈ m.constraints, SrcPW b W c)
    (hfuel : 4 * W * (m.constraints.length + 1) + 1 ≤ drainFuel) :
    ∃ lm, linearizeWith m b d = .ok lm :=
  linearizeWith_succeeds_pw b d hW hB hnames hobj hcons hfuel

/-- **the same through the whole pipeline `Compile.linearize`**, the fragment being taken relative to the bounds
of the analyzer state `an` the pipeline computes (any tolerance, any step limit). -/
theorem c01_piecewise_compile_succeeds {m : Model (Ext K)} {tol : Ext K} {maxSteps : Nat} {an : Analyzer (Ext K)}
    (hscr : fragCheck m = true)
    (han : pipelineAnalyzer m tol maxSteps = some an) {W : Nat} (hW : 1 ≤ W) (hB : budget W ≤ flattenFuel)
    (hnames : ∀ dv ∈ m.domain, SrcName dv.name)
    (hobj : ∃ o, normalizeExp m.objective = some o ∧ PW (Compile.toLinBounds an.variableBounds) o (objReq m) ∧ wt o ≤ W)
    (hcons : ∀ c ∈ m.constraints, SrcPW (Compile.toLinBounds an.variableBounds) W c)
    (hfuel : 4 * W * (m.constraints.length + 1) + 1 ≤ drainFuel) :
    ∃ lm, Compile.linearize m tol maxSteps = .ok lm :=
  compile_succeeds_pw (scratchOK_of_fragCheck tol maxSteps hscr) han hW hB hnames hobj hcons hfuel

/-- non-vacuity: `min y s.t. |x| ≤ y`, `x ∈ [−1, 2]` satisfies every hypothesis of
`c01_piecewise_linearizeWith_succeeds` (with `W = 4`), so it compiles BY THE THEOREM. -/
example : ∃ (m : Model (Ext K)) (b : BoundsMap (Ext K)) (W : Nat), 1 ≤ W ∧ budget W ≤ flattenFuel ∧
    (∀ dv ∈ m.domain, SrcName dv.name) ∧
    (∃ o, normalizeExp m.objective = some o ∧ PW b o (objReq m) ∧ wt o ≤ W) ∧
    (∀ c ∈ m.constraints, SrcPW b W c) ∧ 4 * W * (m.constraints.length + 1) + 1 ≤ drainFuel := by
  refine ⟨exAbs, exAbsBounds, 4, by norm_num, by simp [budget, flattenFuel], ?_,
    ⟨.var "y", exAbs_norm_var "y", PW.var _ _, by simp [wt]⟩, exAbs_srcPW, by simp [exAbs, drainFuel]⟩
  intro dv hdv
  simp only [exAbs, List.mem_cons, List.mem_nil_iff, or_false] at hdv
  rcases hdv with rfl | rfl
  · exact srcName_x
  · exact srcName_y

end Success

end Rooc.Props.C01
