/- C01 — property theorems only (helper lemmas live in `Rooc/Proofs`). -/
namespace Rooc.Props.C01
end Rooc.Props.C01
