/- C12 — property theorems only (helper lemmas live in `Rooc/Proofs`). -/
namespace Rooc.Props.C12
end Rooc.Props.C12
