/-
C12 — compiled output is itself a valid program with the same meaning.  PROPERTY THEOREMS ONLY
(helper lemmas: `Rooc/Proofs/DisplayPratt.lean`).

`Display.items` is the binary-operator skeleton of `impl Display for Exp` (a parenthesised group and
every non-`BinOp` node are single leaf items), `Display.ReadsAs` the documented grouping rules
(precedence climbing with `BinOp::precedence` / `is_left_associative`, regenerated into `Gen.Prec`),
`Display.formatVarParts` the sign / magnitude decisions of `format_var`.
-/
import Rooc.Display
import Rooc.DisplayItems
import Rooc.Proofs.Field
import Rooc.Proofs.DisplayPratt
import Rooc.Proofs.DisplayTerm
import Rooc.Proofs.DisplayText
import Mathlib.Tactic.Linarith
import Mathlib.Data.Rat.Floor
namespace Rooc.Props.C12
open Rooc Rooc.Display Arith
set_option linter.unusedSectionVars false

variable {K : Type} [Field K] [LinearOrder K] [IsStrictOrderedRing K] [FloorRing K]

/-! ### parentheses of the expression rendering -/

/-- The grouping rules in their documented form: a right operand needs parentheses iff its operator
binds weaker than the parent, or equally and the parent is left-associative. -/
theorem needRight_iff {α : Type} (o o' : BinOp) (a b : Exp α) :
    needRight o (.bin o' a b) = true ↔
      Gen.binPrec o' < Gen.binPrec o ∨ (Gen.binPrec o' = Gen.binPrec o ∧ Gen.binLeftAssoc o = true) := by
  cases o <;> cases o' <;> simp [needRight, lbp, rbp, Gen.binPrec, Gen.binLeftAssoc]

/-- … a left operand needs them iff it binds weaker, or equally and it is itself right-associative. -/
theorem needLeft_iff {α : Type} (o o' : BinOp) (a b : Exp α) :
    needLeft o (.bin o' a b) = true ↔
      Gen.binPrec o' < Gen.binPrec o ∨ (Gen.binPrec o' = Gen.binPrec o ∧ Gen.binLeftAssoc o' = false) := by
  cases o <;> cases o' <;> simp [needLeft, lbp, rbp, Gen.binPrec, Gen.binLeftAssoc]

/-- The rendering only parenthesises an operand that binds strictly weaker than its parent. -/
theorem placed_iff {α : Type} (o o' : BinOp) (a b : Exp α) :
    placed o (.bin o' a b) = true ↔ Gen.binPrec o' < Gen.binPrec o := by
  simp [placed]

/-- The printed parentheses suffice: whenever the rendering puts parentheses (at least) where the
grouping rules need them — `noDefect`, a decidable predicate on the tree — the item stream of
`Display` is read back as exactly the tree that was printed.  The excluded shapes are real, see the
counterexamples below. -/
theorem exp_display_parens_sufficient_partial {α : Type} (e : Exp α) (h : noDefect e = true) :
    ReadsAs (items none e) e := by
  have := core (skel e) e (Nat.le_refl _) none 0 [] e [] h ?_ .stopNil
  · simpa [ReadsAs] using this
  · cases e with
    | bin o l r => right; exact ⟨by have := lbp_pos o; simp [topFits]; omega, trivial⟩
    | _ => left; exact ⟨_, rfl, rfl⟩

/-- The text `impl Display for Exp` produces IS the item stream the theorems talk about: items
separated by single blanks, a group as `( … )` around the rendering of its content. -/
theorem display_text_is_item_stream {α : Type} (tok : α → String) (e : Exp α) :
    displayExp tok e = renderItems tok (items none e) :=
  showE_eq_renderItems tok none e

/-- A right operand is rendered without the parentheses it needs exactly when it sits at its
parent's own precedence and the parent is left-associative (every operator but `implies`) … -/
theorem right_defect_iff {α : Type} (o o' : BinOp) (a b : Exp α) :
    (needRight o (.bin o' a b) = true ∧ placed o (.bin o' a b) = false) ↔
      (Gen.binPrec o' = Gen.binPrec o ∧ Gen.binLeftAssoc o = true) := by
  cases o <;> cases o' <;> simp [needRight, placed, lbp, rbp, Gen.binPrec, Gen.binLeftAssoc]

/-- … and a left operand exactly when it is an `implies` under `implies` or `iff`. -/
theorem left_defect_iff {α : Type} (o o' : BinOp) (a b : Exp α) :
    (needLeft o (.bin o' a b) = true ∧ placed o (.bin o' a b) = false) ↔
      (o' = .implies ∧ (o = .implies ∨ o = .iff)) := by
  cases o <;> cases o' <;> simp [needLeft, placed, lbp, rbp, Gen.binPrec, Gen.binLeftAssoc]

/-- The repaired rule of fixes/C12-display-parens.diff (parenthesise an operand exactly where the
grouping rules need it, by side) reads back as the printed tree for EVERY expression. -/
theorem exp_display_fixed_roundtrip {α : Type} (e : Exp α) : ReadsAs (itemsFixed none e) e := by
  have := coreFixed (skel e) e (Nat.le_refl _) none 0 [] e [] ?_ .stopNil
  · simpa [ReadsAs] using this
  · cases e with
    | bin o l r => right; exact ⟨by have := lbp_pos o; simp [topFits]; omega, trivial⟩
    | _ => left; exact ⟨_, rfl, rfl⟩

/-- non-vacuity: `x * (y + 1) - z / 2 + w` has no defective shape. -/
example : noDefect (.bin .add (.bin .sub (.bin .mul (.var "x") (.bin .add (.var "y") (.num 1)))
    (.bin .div (.var "z") (.num 2))) (.var "w") : Exp Int) = true := by decide

/-- `x / (2 * 3)` is rendered `x / 2 * 3`: the stream reads back as `(x / 2) * 3`. -/
theorem exp_display_div_counterexample :
    let e : Exp Int := .bin .div (.var "x") (.bin .mul (.num 2) (.num 3))
    noDefect e = false ∧
    items none e = [.atom (.var "x"), .infix .div, .atom (.num 2), .infix .mul, .atom (.num 3)] ∧
    ReadsAs (items none e) (.bin .mul (.bin .div (.var "x") (.num 2)) (.num 3)) := by
  refine ⟨by decide, by simp [items, Gen.binPrec], ?_⟩
  simp only [items, Gen.binPrec, ReadsAs, List.cons_append, List.nil_append, Nat.lt_irrefl, if_false]
  refine .mk rfl (.step (by decide) (.mk rfl (.stopOp (by decide))) ?_)
  exact .step (by decide) (.mk rfl .stopNil) .stopNil

/-- `x - (3 - 1)` is rendered `x - 3 - 1` (the `Sub` special case looks at the leafness of the inner
right operand `1`, not of the operand `3 - 1`): the stream reads back as `(x - 3) - 1`. -/
theorem exp_display_sub_counterexample :
    let e : Exp Int := .bin .sub (.var "x") (.bin .sub (.num 3) (.num 1))
    noDefect e = false ∧
    items none e = [.atom (.var "x"), .infix .sub, .atom (.num 3), .infix .sub, .atom (.num 1)] ∧
    ReadsAs (items none e) (.bin .sub (.bin .sub (.var "x") (.num 3)) (.num 1)) := by
  refine ⟨by decide, by simp [items, isLeaf, Gen.binPrec], ?_⟩
  simp only [items, isLeaf, Gen.binPrec, ReadsAs, List.cons_append, List.nil_append, Nat.lt_irrefl, if_false, if_true]
  refine .mk rfl (.step (by decide) (.mk rfl (.stopOp (by decide))) ?_)
  exact .step (by decide) (.mk rfl .stopNil) .stopNil

/-- `x - (y + 1)` is rendered `x - y + 1`: the stream reads back as `(x - y) + 1`. -/
theorem exp_display_sub_add_counterexample :
    let e : Exp Int := .bin .sub (.var "x") (.bin .add (.var "y") (.num 1))
    noDefect e = false ∧ subDivDefect e = true ∧
    ReadsAs (items none e) (.bin .add (.bin .sub (.var "x") (.var "y")) (.num 1)) := by
  refine ⟨by decide, by simp [subDivDefect, needRight, placed, lbp, rbp, Gen.binPrec, Gen.binLeftAssoc], ?_⟩
  simp only [items, isLeaf, Gen.binPrec, ReadsAs, List.cons_append, List.nil_append, Nat.lt_irrefl, if_false, if_true]
  refine .mk rfl (.step (by decide) (.mk rfl (.stopOp (by decide))) ?_)
  exact .step (by decide) (.mk rfl .stopNil) .stopNil

/-! ### the sign of a rendered term -/

/-- A rendered term denotes its coefficient — `termValue (formatVarParts v) = v` — for every finite
coefficient that is not a negative number closer to zero than the tolerance `tol = 10^-5` of
`float_lt`. -/
theorem term_roundtrip_partial (v : K) (h : ¬ (-(tol : K) < v ∧ v < 0)) :
    termValue (formatVarParts (Ext.fin v : Ext K)) = .fin v := by
  unfold formatVarParts termValue
  rw [floatLt_zero]
  by_cases h1 : v = 1
  · subst h1; simp [Arith.eq, Ext.eq, Arith.one, Arith.ofInt, Arith.neg, Ext.neg]
  by_cases h2 : v = -1
  · subst h2
    have : ¬ ((1:K) < tol) := not_lt.mpr tol_le_one
    simp [Arith.eq, Ext.eq, Arith.one, Arith.ofInt, Arith.neg, Ext.neg, this]
  have e1 : Arith.eq (Ext.fin v : Ext K) one = false := by simp [Arith.eq, Ext.eq, Arith.one, Arith.ofInt, h1]
  have e2 : Arith.eq (Ext.fin v : Ext K) (Arith.neg one) = false := by
    simp [Arith.eq, Ext.eq, Arith.one, Arith.ofInt, Arith.neg, Ext.neg, h2]
  simp only [e1, e2, Bool.or_false, Bool.false_eq_true, if_false]
  by_cases hv : v < 0
  · have : ¬ (|v| < tol) := by
      rw [abs_of_neg hv]; intro hh; exact h ⟨by linarith, hv⟩
    simp [hv, this, Arith.abs, Ext.abs, Arith.neg, Ext.neg]
  · simp [hv, Arith.abs, Ext.abs]

/-- the hypothesis of `term_roundtrip_partial` holds e.g. for `-3`, `0` and `1e-9`. -/
example : ¬ (-(tol : ℚ) < -3 ∧ (-3 : ℚ) < 0) := by
  intro h; have := tol_le_one (K := ℚ); linarith [h.1]

/-- Inside the excluded region the sign is lost: the coefficient `-tol/10` (= `-0.000001`, inside the
property's stated range) is rendered like `+tol/10` (known finding C12-format-var-sign). -/
theorem term_roundtrip_counterexample :
    termValue (formatVarParts (Ext.fin (-(tol / 10)) : Ext K)) = .fin ((tol : K) / 10) ∧
      (Ext.fin (-(tol / 10)) : Ext K) ≠ .fin ((tol : K) / 10) := by
  have hp := tol_pos (K := K)
  have h1 : ¬ (-(tol / 10) : K) = 1 := by intro h; linarith
  have h2 : ¬ (-(tol / 10) : K) = -1 := by intro h; have := tol_le_one (K := K); linarith
  have hneg : (-(tol / 10) : K) < 0 := by linarith
  have habs : |(-(tol / 10) : K)| < tol := by rw [abs_of_neg hneg]; linarith
  constructor
  · unfold formatVarParts termValue
    rw [floatLt_zero]
    have e1 : Arith.eq (Ext.fin (-(tol / 10)) : Ext K) one = false := by
      simp [Arith.eq, Ext.eq, Arith.one, Arith.ofInt, h1]
    have e2 : Arith.eq (Ext.fin (-(tol / 10)) : Ext K) (Arith.neg one) = false := by
      simp [Arith.eq, Ext.eq, Arith.one, Arith.ofInt, Arith.neg, Ext.neg, h2]
    simp only [e1, e2, Bool.or_false, Bool.false_eq_true, if_false]
    have habs' : ¬ ((tol : K) ≤ |(tol : K) / 10|) := by
      rw [abs_of_pos (by linarith)]; linarith
    simp [hneg, habs', Arith.abs, Ext.abs]
  · intro h; injection h with h; linarith

end Rooc.Props.C12
