/-
C12 — compiled output is itself a valid program with the same meaning.  PROPERTY THEOREMS ONLY
(helper lemmas: `Rooc/Proofs/DisplayPratt.lean`, `DisplayText.lean`).

`Display.showE` is the port of `impl Display for Exp` (`Exp::operand_to_string`), `Display.items` its
binary-operator skeleton (a parenthesised group and every non-`BinOp` node are single leaf items),
`Display.ReadsAs` the documented grouping rules (precedence climbing with `BinOp::precedence` /
`is_left_associative`, regenerated into `Gen.Prec`), `Display.formatVarParts` the sign / magnitude
decisions of `format_var`.
-/
import Rooc.Display
import Rooc.DisplayItems
import Rooc.Proofs.Field
import Rooc.Proofs.DisplayPratt
import Rooc.Proofs.DisplayText
import Rooc.Proofs.DisplayParse
import Rooc.Proofs.DisplayProgram
import Rooc.Proofs.DisplayProgramWitness
import Mathlib.Data.Rat.Floor
import Mathlib.Tactic.Linarith
namespace Rooc.Props.C12
open Rooc Rooc.Display Rooc.Display.Witness Arith
set_option linter.unusedSectionVars false

variable {K : Type} [Field K] [LinearOrder K] [IsStrictOrderedRing K] [FloorRing K]

/-! ### parentheses of the expression rendering -/

/-- The grouping rules in their documented form: a right operand needs parentheses iff its operator
binds weaker than the parent, or equally and the parent is left-associative. -/
theorem needRight_iff {α : Type} (o o' : BinOp) (a b : Exp α) :
    needRight o (.bin o' a b) = true ↔
      Gen.binPrec o' < Gen.binPrec o ∨ (Gen.binPrec o' = Gen.binPrec o ∧ Gen.binLeftAssoc o = true) := by
  cases o <;> cases o' <;> simp [needRight, lbp, rbp, Gen.binPrec, Gen.binLeftAssoc]

/-- … a left operand needs them iff it binds weaker, or equally and it is itself right-associative. -/
theorem needLeft_iff {α : Type} (o o' : BinOp) (a b : Exp α) :
    needLeft o (.bin o' a b) = true ↔
      Gen.binPrec o' < Gen.binPrec o ∨ (Gen.binPrec o' = Gen.binPrec o ∧ Gen.binLeftAssoc o' = false) := by
  cases o <;> cases o' <;> simp [needLeft, lbp, rbp, Gen.binPrec, Gen.binLeftAssoc]

/-- The rendering parenthesises an operand exactly where the grouping rules need it. -/
theorem parens_rule_is_need {α : Type} (parent : BinOp) (isRhs : Bool) (o : BinOp) (l r : Exp α) :
    parensRule parent isRhs o = needSide parent isRhs (.bin o l r) :=
  parensRule_eq_needSide parent isRhs o l r

/-- The text `impl Display for Exp` produces IS the item stream the theorems talk about: items
separated by single blanks, a group as `( … )` around the rendering of its content. -/
theorem display_text_is_item_stream {α : Type} (tok : α → String) (e : Exp α) :
    displayExp tok e = renderItems tok (items none e) :=
  showE_eq_renderItems tok none e

/-- **The printed parentheses suffice**: for EVERY expression tree the item stream of `Display` is
read back, by the documented grouping rules, as exactly the tree that was printed. -/
theorem exp_display_parens_sufficient {α : Type} (e : Exp α) : ReadsAs (items none e) e := by
  have := core (skel e) e (Nat.le_refl _) none 0 [] e [] ?_ .stopNil
  · simpa [ReadsAs] using this
  · cases e with
    | bin o l r => right; exact ⟨by have := lbp_pos o; simp [topFits]; omega, trivial⟩
    | _ => left; exact ⟨_, rfl, rfl⟩

/-- regression: `x / (2 * 3)` keeps its parentheses (it used to be rendered `x / 2 * 3`). -/
example : items none (.bin .div (.var "x") (.bin .mul (.num 2) (.num 3)) : Exp Int) =
    [.atom (.var "x"), .infix .div, .group (.bin .mul (.num 2) (.num 3))] := by rfl

/-- regression: `x - (3 - 1)` keeps its parentheses (it used to be rendered `x - 3 - 1`). -/
example : items none (.bin .sub (.var "x") (.bin .sub (.num 3) (.num 1)) : Exp Int) =
    [.atom (.var "x"), .infix .sub, .group (.bin .sub (.num 3) (.num 1))] := by rfl

/-- regression: `x - (y + 1)` keeps its parentheses (it used to be rendered `x - y + 1`). -/
example : items none (.bin .sub (.var "x") (.bin .add (.var "y") (.num 1)) : Exp Int) =
    [.atom (.var "x"), .infix .sub, .group (.bin .add (.var "y") (.num 1))] := by rfl

/-- … while `(x - 3) - 1` and `x + y * 2` need none. -/
example : items none (.bin .sub (.bin .sub (.var "x") (.num 3)) (.num 1) : Exp Int) =
    [.atom (.var "x"), .infix .sub, .atom (.num 3), .infix .sub, .atom (.num 1)] := by rfl

/-! ### the rendering is read back by the parser model (C09) -/

/-- **`parse (display e) = e`**: for every compiled expression of the fragment `Frag` — numbers as
opaque tokens under `NumOk` (an integer literal within `i64` or a float literal `ddd.ddd`, read back to
the same value), plain identifiers that are not keywords, `+ - * /` over ANY operands of the fragment (logic
nodes included: they are parenthesised since 5d62460), unary minus, `not`, and the two-operand logic nodes
`into_exp` builds — the TEXT that the ported
`impl Display for Exp` produces is cut by the lexer model and parsed by the parser model of C09 (PEG rules
of `exp`, pest's Pratt loop over the regenerated table) into the tree `toP e`, and `PreExp::into_exp`
maps that tree back to `e` itself.  (Instance of C09's `printer_roundtrip`: the tokens of `Display` are a
rendering with a superset of the needed parentheses.)
Outside the fragment, by the limits of the lexer model: `abs{}`/`min{}`/`max{}` blocks (braces), names with
an inner underscore or `$`-prefixed (`x_1`, `$abs_0`), negative number literals (they read back as unary
minus), n-ary `and`/`or` of other arities. -/
theorem parse_display_exp {α : Type} [Arith α] (tok : α → String) (numOf : String → α) (e : Exp α)
    (h : Frag tok numOf e) :
    Syntax.parseText (displayExp tok e).toList = .ok (toP tok e) ∧ intoExp numOf (toP tok e) = some e := by
  obtain ⟨items, hk, _⟩ := tkShow tok numOf e h none
  refine ⟨?_, intoExp_toP tok numOf e h⟩
  simp only [Syntax.parseText, lex_displayExp tok numOf e h, Rooc.Syntax.Proofs.parse_tk hk]

/-- **`parse (display constraint) = constraint`**: the TEXT that the ported `impl Display for Constraint`
produces for a compiled constraint of the fragment (optional plain name, expressions in `Frag`, a comparison
or a bare logic assertion) is cut by the lexer model into tokens that the `constraint` rule of the program
parser model (C11, `Syntax/Program.lean`: `constraint_name`, `tagged_exp`, `comparison`, `parse_constraint`)
reads as the `PreConstraint` with the same name, the same comparison / assertion flag and the trees
`toP lhs`, `toP rhs` — which `into_exp` maps back to the constraint's own expressions. -/
theorem parse_display_constraint {α : Type} [Arith α] (tok : α → String) (numOf : String → α) (c : Constraint α)
    (h : FragC tok numOf c) :
    Syntax.lex (displayConstraint tok c).toList = .ok (constraintDToks tok c)
    ∧ Syntax.parseConstraint (constraintDToks tok c) = .ok (toPConstraint tok c, [])
    ∧ intoExp numOf (toPConstraint tok c).lhs = some c.lhs
    ∧ (c.isAssert = false → intoExp numOf (toPConstraint tok c).rhs = some c.rhs) := by
  refine ⟨lex_displayConstraint tok numOf c h, parseConstraint_dToks tok numOf c h, intoExp_toP tok numOf c.lhs h.2.1, ?_⟩
  intro ha
  have hr : Frag tok numOf c.rhs := by
    rcases h.2.2 with hr | hr
    · rw [ha] at hr; cases hr
    · exact hr
  simpa [toPConstraint, ha] using intoExp_toP tok numOf c.rhs hr

/-- non-vacuity: `x - (3 - -y) * 3 <= …`-style expression with the token `3` for every number -/
example : Frag (fun _ : Ext K => "3") (fun _ => (Ext.fin 0 : Ext K))
    (.bin .sub (.var "x") (.bin .mul (.bin .sub (.num (.fin 3)) (.un .neg (.var "y"))) (.num (.fin 3)))) := by
  have hn : NumOk (fun _ : Ext K => "3") (fun _ => (Ext.fin 0 : Ext K)) (.fin 3) :=
    Or.inl ⟨by show isIntText "3" = true; decide, by show Syntax.digitsToNat "3".toList ≤ Syntax.i64Max; decide,
      by show Arith.ofInt ((Syntax.digitsToNat "3".toList : Nat) : Int) = (Ext.fin 3 : Ext K)
         have : Syntax.digitsToNat ['3'] = 3 := by decide
         simp [Arith.ofInt, this]⟩
  have hx : Rooc.Syntax.Proofs.plainWord "x".toList = true ∧ Syntax.isKeyword "x" = false := ⟨by decide, by decide⟩
  have hy : Rooc.Syntax.Proofs.plainWord "y".toList = true ∧ Syntax.isKeyword "y" = false := ⟨by decide, by decide⟩
  exact ⟨rfl, hx, rfl, ⟨rfl, hn, hy⟩, hn⟩

/-- non-vacuity of `parse_display_constraint`: `cap: x <= 3` -/
example : FragC (fun _ : Ext K => "3") (fun _ => (Ext.fin 0 : Ext K))
    ⟨"cap", .var "x", .le, .num (.fin 3), false⟩ := by
  have hn : NumOk (fun _ : Ext K => "3") (fun _ => (Ext.fin 0 : Ext K)) (.fin 3) :=
    Or.inl ⟨by show isIntText "3" = true; decide, by show Syntax.digitsToNat "3".toList ≤ Syntax.i64Max; decide,
      by show Arith.ofInt ((Syntax.digitsToNat "3".toList : Nat) : Int) = (Ext.fin 3 : Ext K)
         have : Syntax.digitsToNat ['3'] = 3 := by decide
         simp [Arith.ofInt, this]⟩
  have h1 : Syntax.Proofs.plainWord "cap".toList = true := by decide
  have h2 : Syntax.isKeyword "cap" = false := by decide
  have h3 : Syntax.Proofs.plainWord "x".toList = true := by decide
  have h4 : Syntax.isKeyword "x" = false := by decide
  exact ⟨Or.inr ⟨h1, h2⟩, ⟨h3, h4⟩, Or.inr hn⟩

/-- non-vacuity with a logic operand under arithmetic: `(b and not d) + x - (b implies d)` is in the fragment -/
example : Frag (fun _ : Ext K => "3") (fun _ => (Ext.fin 0 : Ext K))
    (.bin .sub (.bin .add (.and [.var "b", .not (.var "d")]) (.var "x")) (.implies (.var "b") (.var "d"))) := by
  have hb : Rooc.Syntax.Proofs.plainWord "b".toList = true ∧ Syntax.isKeyword "b" = false := ⟨by decide, by decide⟩
  have hd : Rooc.Syntax.Proofs.plainWord "d".toList = true ∧ Syntax.isKeyword "d" = false := ⟨by decide, by decide⟩
  have hx : Rooc.Syntax.Proofs.plainWord "x".toList = true ∧ Syntax.isKeyword "x" = false := ⟨by decide, by decide⟩
  exact ⟨rfl, ⟨rfl, ⟨hb, hd⟩, hx⟩, ⟨hb, hd⟩⟩

/-- regression (repaired in 5d62460): a logic node under an arithmetic operator keeps its parentheses —
`(b and d) + x` used to be printed `b and d + x`, which reads as `b and (d + x)`. -/
example : displayExp (fun _ : Int => "?") (.bin .add (.and [.var "b", .var "d"]) (.var "x")) = "(b and d) + x" := by
  simp [displayExp, showE, logicWrap, joinWith, logicOperand, isLeaf, binOpStr]


/-! ### whole rendered models -/

/-- **`parse (display model) = model`** (`impl Display for Model`): the tokens of the rendered compiled model —
objective line, `s.t.`, one line per constraint, the `define` block grouped by printed type — are read by the
program-level parser model (C11: `problem`, `objective`, `constraint_list`, `domains_declaration`) as the
`PreModel` `modelProgram`: same objective kind, the constraints `toPConstraint c` in order, the declarations as
printed; and `into_exp` maps the objective and both sides of every constraint back to the model's own
expressions.  (At least one constraint: an empty `s.t.` section is rejected by the grammar — known finding
`C12-empty-st`.  That the lexer model cuts the rendered TEXT into exactly `modelToks` is checked per case by the
driver: the program-level lexing lemmas — newline, indentation — are not proved.) -/
theorem parse_display_model {α : Type} [Arith α] (tok : α → String) (numOf : String → α) (m : Model α)
    (h : ModelFrag tok numOf m) (hc : m.constraints ≠ []) :
    Syntax.parseProgram (modelToks tok m) = .ok (modelProgram tok m)
    ∧ (modelProgram tok m).constraints = m.constraints.map (toPConstraint tok)
    ∧ (m.optType ≠ .satisfy → intoExp numOf (modelProgram tok m).objective = some m.objective)
    ∧ (∀ c ∈ m.constraints, intoExp numOf (toPConstraint tok c).lhs = some c.lhs
        ∧ (c.isAssert = false → intoExp numOf (toPConstraint tok c).rhs = some c.rhs)) := by
  refine ⟨parseProgram_modelToks tok numOf m h hc, ?_, ?_, ?_⟩
  · simp [modelProgram, progOf, constraintLine_pc]
  · intro hs
    rcases h.obj_ok with ho | ho
    · exact absurd ho hs
    · cases hop : m.optType with
      | satisfy => exact absurd hop hs
      | min => simpa [modelProgram, progOf, hop] using intoExp_toP tok numOf m.objective ho
      | max => simpa [modelProgram, progOf, hop] using intoExp_toP tok numOf m.objective ho
  · intro c hcm
    exact (parse_display_constraint tok numOf c (h.cons_ok c hcm)).2.2

/-- **`parse (display linear model) = linear model`, syntax** (`impl Display for LinearModel`): whenever the
rendering succeeds (`linToks` is `some`: no coefficient beyond the variable list), its tokens — `format_var`
terms with implicit products `3x`, the objective offset, `name:` prefixes, signed right sides, the `define`
block — are read by the program-level parser model as the `PreModel` `linProgram`.  Hypotheses (`LinFrag`):
names are not keywords and digit-string number tokens fit `i64`; at least one row. -/
theorem parse_display_lin {α : Type} [Arith α] (tok : α → String) (lm : LinModel α) (h : LinFrag tok lm)
    (hrows : lm.rows ≠ []) (ts : List Syntax.Tok) (hts : linToks tok lm = some ts) :
    ∃ pm, linProgram tok lm = some pm ∧ Syntax.parseProgram ts = .ok pm :=
  parseProgram_linToks tok lm h hrows ts hts

/-! ### the sign of a rendered term -/

/-- **A rendered term denotes its coefficient**: for every coefficient (finite or not) the sign and
magnitude `format_var` prints give back the coefficient. -/
theorem term_roundtrip (v : Ext K) : termValue (formatVarParts v) = v := by
  cases v with
  | fin k =>
    unfold formatVarParts termValue
    by_cases h1 : k = 1
    · subst h1; simp [Arith.eq, Ext.eq, Arith.one, Arith.ofInt, Arith.neg, Ext.neg, Arith.lt, Ext.lt, Arith.zero]
    by_cases h2 : k = -1
    · subst h2; simp [Arith.eq, Ext.eq, Arith.one, Arith.ofInt, Arith.neg, Ext.neg, Arith.lt, Ext.lt, Arith.zero]
    have e1 : Arith.eq (Ext.fin k : Ext K) one = false := by simp [Arith.eq, Ext.eq, Arith.one, Arith.ofInt, h1]
    have e2 : Arith.eq (Ext.fin k : Ext K) (Arith.neg one) = false := by
      simp [Arith.eq, Ext.eq, Arith.one, Arith.ofInt, Arith.neg, Ext.neg, h2]
    simp only [e1, e2, Bool.or_false, Bool.false_eq_true, if_false]
    by_cases hv : k < 0 <;>
      simp [hv, Arith.abs, Ext.abs, Arith.neg, Ext.neg, Arith.lt, Ext.lt, Arith.zero, Arith.ofInt]
  | _ =>
    simp [formatVarParts, termValue, Arith.eq, Ext.eq, Arith.one, Arith.ofInt, Arith.neg, Ext.neg, Arith.lt, Ext.lt,
      Arith.zero, Arith.abs, Ext.abs]

/-- regression: the coefficient `-0.000001` keeps its sign (it used to be rendered `0.000001x`). -/
example : (formatVarParts (Ext.fin (-(1 / 1000000 : K)) : Ext K)).1 = true := by
  have : (-(1 / 1000000 : K)) < 0 := by norm_num
  simp [formatVarParts, Arith.lt, Ext.lt, Arith.zero, Arith.ofInt, this]

/-! ### the rendered linear model, read back -/

/-- **`parse (display linear model) = linear model`, meaning**: read back term by term (`readSum`: variable,
sign times magnitude; `readSigned`), the constraints of `linProgram` are the rows of the linear model — same
name, same comparison, for every non-zero coefficient the same variable with the same coefficient and nothing
else, the same right side.  Over the exact extended numbers; `hback`: the number reader maps each printed
magnitude (of a non-zero coefficient other than ±1, of a non-zero right side) back to its value. -/
theorem read_display_lin (tok : Ext K → String) (numOf : String → Ext K) (lm : LinModel (Ext K)) (pm : Syntax.PModel)
    (hpm : linProgram tok lm = some pm)
    (hback : ∀ r ∈ lm.rows,
        (∀ c ∈ r.coeffs, isZero c = false → ∀ x, (formatVarParts c).2 = some x → NumBack tok numOf x)
        ∧ (isZero r.rhs = false → NumBack tok numOf (if Arith.lt r.rhs zero then Arith.abs r.rhs else r.rhs))) :
    List.Forall₂ (RowReads numOf lm.vars) lm.rows (pm.constraints) := by
  unfold linProgram at hpm
  simp only [Option.map_eq_some_iff] at hpm
  obtain ⟨p, hp, rfl⟩ := hpm
  unfold linParts at hp
  split at hp
  · rename_i lines ots hlines hots
    simp only [Option.some.injEq] at hp
    subst hp
    simp only [progOf]
    rw [List.forall₂_map_right_iff]
    refine forall2_allSome _ _ _ _ ?_ hlines
    intro r hr l hl
    unfold rowLineOf at hl
    simp only [Option.map_eq_some_iff] at hl
    obtain ⟨ts, hts, rfl⟩ := hl
    obtain ⟨hc, hrhs⟩ := hback r hr
    refine ⟨?_, rfl, rfl, ⟨ts, hts, ?_⟩, ?_⟩
    · simp only [Line.pc]; split <;> rfl
    · have hb : TermsBack tok numOf ts := by
        intro q hq x hx
        exact hc _ (termList_mem r.coeffs lm.vars ts hts q hq).2 (termList_nonzero r.coeffs lm.vars ts hts q hq) x hx
      have := readSum_linExp tok numOf ts hb
      simp only [Line.pc]
      rw [this]
      congr 1
      conv_rhs => rw [← List.map_id ts]
      apply List.map_congr_left
      intro q _
      rw [term_roundtrip]
      rfl
    · simpa [Line.pc, tailRhs] using readSigned_rhs tok numOf r.rhs hrhs
  · cases hp

/-! ### non-vacuity of the whole-model theorems -/

/-- non-vacuity of `parse_display_lin`: the witness `exLin` (`min 3x - y + 3  s.t.  cap: - x + 3y <= 3 ; 3y >= 0`,
`x as Real`, `y as IntegerRange(-2, 7)`) satisfies the hypotheses, so its tokens are read back as its `linProgram` -/
example : ∃ ts pm, linToks (fun _ : Ext K => "3") exLin = some ts ∧ linProgram (fun _ : Ext K => "3") exLin = some pm
    ∧ Syntax.parseProgram ts = .ok pm := by
  obtain ⟨ts, hts⟩ := Option.isSome_iff_exists.1 (exLin_some (K := K))
  obtain ⟨pm, h1, h2⟩ := parse_display_lin _ exLin exLin_frag (by simp [exLin]) ts hts
  exact ⟨ts, pm, hts, h1, h2⟩

/-- non-vacuity of `read_display_lin`: the hypothesis `hback` holds for the witness -/
example (numOf : String → Ext K) : ∀ r ∈ (exLin : LinModel (Ext K)).rows,
        (∀ c ∈ r.coeffs, isZero c = false → ∀ x, (formatVarParts c).2 = some x → NumBack (fun _ : Ext K => "3") numOf x)
        ∧ (isZero r.rhs = false → NumBack (fun _ : Ext K => "3") numOf (if Arith.lt r.rhs zero then Arith.abs r.rhs else r.rhs)) := by
  have h30 : ¬ (3 : K) < 0 := by norm_num
  intro r hr
  simp [exLin] at hr
  rcases hr with rfl | rfl
  · refine ⟨?_, ?_⟩
    · intro c hc
      simp at hc
      exact back3 numOf c (by rcases hc with rfl | rfl <;> simp)
    · intro _
      simpa [Arith.lt, Ext.lt, Arith.zero, Arith.ofInt, h30] using numBack3 numOf
  · refine ⟨?_, ?_⟩
    · intro c hc
      simp at hc
      exact back3 numOf c (by rcases hc with rfl | rfl <;> simp)
    · intro hz
      simp [isZero, Arith.eq, Ext.eq, Arith.zero, Arith.ofInt] at hz

/-- non-vacuity of `parse_display_model`: `max x + 3  s.t.  cap: x <= 3 ; b implies d` with a `define` block -/
example : ModelFrag (fun _ : Ext K => "3") (fun _ => (Ext.fin 0 : Ext K)) exModel ∧ (exModel : Model (Ext K)).constraints ≠ [] := by
  have hn : NumOk (fun _ : Ext K => "3") (fun _ => (Ext.fin 0 : Ext K)) (.fin 3) :=
    Or.inl ⟨by show isIntText "3" = true; decide, by show Syntax.digitsToNat "3".toList ≤ Syntax.i64Max; decide,
      by show Arith.ofInt ((Syntax.digitsToNat "3".toList : Nat) : Int) = (Ext.fin 3 : Ext K)
         have : Syntax.digitsToNat ['3'] = 3 := by decide
         simp [Arith.ofInt, this]⟩
  have hx : Syntax.Proofs.plainWord "x".toList = true ∧ Syntax.isKeyword "x" = false := ⟨by decide, by decide⟩
  have hb : Syntax.Proofs.plainWord "b".toList = true ∧ Syntax.isKeyword "b" = false := ⟨by decide, by decide⟩
  have hd : Syntax.Proofs.plainWord "d".toList = true ∧ Syntax.isKeyword "d" = false := ⟨by decide, by decide⟩
  have hcap : Syntax.Proofs.plainWord "cap".toList = true ∧ Syntax.isKeyword "cap" = false := ⟨by decide, by decide⟩
  refine ⟨⟨Or.inr ⟨rfl, hx, hn⟩, ?_, ?_, ?_, ?_⟩, by simp [exModel]⟩
  · intro c hc
    simp [exModel] at hc
    rcases hc with rfl | rfl
    · exact ⟨Or.inr hcap, hx, Or.inr hn⟩
    · exact ⟨Or.inl rfl, ⟨hb, hd⟩, Or.inl rfl⟩
  · intro d hdm
    simp [exModel] at hdm
    rcases hdm with rfl | rfl | rfl
    · exact ⟨hx.2, ⟨intOk3, intOk3⟩, ⟨intOk3, intOk3⟩⟩
    · exact ⟨hb.2, trivial⟩
    · exact ⟨hd.2, trivial⟩
  · -- no line begins with a word that reads `for`
    intro c hc
    simp [exModel] at hc
    rcases hc with rfl | rfl
    · refine ⟨by show Syntax.lowerWord "cap" ≠ "for"; decide, ?_⟩
      intro w hw
      simp only [toP, Syntax.Proofs.headName, Option.some.injEq] at hw
      subst hw; decide
    · refine ⟨by show Syntax.lowerWord "" ≠ "for"; decide, ?_⟩
      intro w hw
      simp only [toP, Syntax.Proofs.headName, Option.some.injEq] at hw
      subst hw; decide
  · intro d hdm
    simp [exModel] at hdm
    rcases hdm with rfl | rfl | rfl
    · show Syntax.lowerWord "x" ≠ "for"; decide
    · show Syntax.lowerWord "b" ≠ "for"; decide
    · show Syntax.lowerWord "d" ≠ "for"; decide

end Rooc.Props.C12
