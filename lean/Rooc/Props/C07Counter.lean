/-
C07 — proved COUNTEREXAMPLES by evaluation of the executable model at `Ext Rat` (the instantiation the oracle runs;
`decide +kernel` on closed terms, no axioms).  Import-free on purpose: only the computable `ExactField Rat`
instance is in scope.  Tolerance `1e-9`, as in `bounds.rs`.
-/
import Rooc.Bounds
namespace Rooc.Props.C07
open Rooc

/-- `(name, lower, upper)` of every entry of the analyzer's box. -/
def boxOf (an : Analyzer (Ext Rat)) : List (String × Ext Rat × Ext Rat) :=
  an.variableBounds.map fun p => (p.1, p.2.lower, p.2.upper)
def tol9 : Ext Rat := .fin (1 / 1000000000)
def cx (name : String) (l : Exp (Ext Rat)) (c : Cmp) (r : Exp (Ext Rat)) : Constraint (Ext Rat) := ⟨name, l, c, r, false⟩
def q (x : Rat) : Exp (Ext Rat) := .num (.fin x)

/-- **Format, excluded inputs**: with an INFINITE literal a published range can have `lower = +inf`:
`x as Real(0, inf); x >= inf` publishes `x ∈ [+inf, +inf]` (still an ordered interval, see
`published_ranges_ordered`; no real number satisfies the row). With finite literals this cannot happen on a
feasible model (`feasible_ranges_proper`). -/
theorem infinite_literal_range_counterexample :
    boxOf (Analyzer.analyze [⟨"x", .real (.fin 0) .pinf, 1⟩] [cx "c" (.var "x") .ge (.num .pinf)] tol9 10)
      = [("x", .pinf, .pinf)] := by decide +kernel

/-- **Monotonicity fails (freeze)**: adding a constraint can WIDEN a derived range. `x ∈ [0,10]; x <= 5` gives
`x ∈ [0,5]`; with the contradictory row `1 <= 0` in front, propagation freezes at once and `x` keeps `[0,10]`. -/
theorem monotonicity_counterexample_freeze :
    boxOf (Analyzer.analyze [⟨"x", .real (.fin 0) (.fin 10), 1⟩] [cx "b" (.var "x") .le (q 5)] tol9 10000)
      = [("x", .fin 0, .fin 5)] ∧
    boxOf (Analyzer.analyze [⟨"x", .real (.fin 0) (.fin 10), 1⟩]
        [cx "a" (q 1) .le (q 0), cx "b" (.var "x") .le (q 5)] tol9 10000)
      = [("x", .fin 0, .fin 10)] := by decide +kernel

/-- **Monotonicity fails (step limit)**: the added row uses up the step budget. With `max_steps = 1`:
`x <= 5` alone tightens `x`; `y <= 7; x <= 5` only visits the first row. (With `DEFAULT_MAX_STEPS = 10000` the
same happens on slowly contracting systems — the `step-limit` stream of the harness.) -/
theorem monotonicity_counterexample_step_limit :
    boxOf (Analyzer.analyze [⟨"x", .real (.fin 0) (.fin 10), 1⟩, ⟨"y", .real (.fin 0) (.fin 10), 1⟩]
        [cx "b" (.var "x") .le (q 5)] tol9 1)
      = [("x", .fin 0, .fin 5), ("y", .fin 0, .fin 10)] ∧
    boxOf (Analyzer.analyze [⟨"x", .real (.fin 0) (.fin 10), 1⟩, ⟨"y", .real (.fin 0) (.fin 10), 1⟩]
        [cx "a" (.var "y") .le (q 7), cx "b" (.var "x") .le (q 5)] tol9 1)
      = [("x", .fin 0, .fin 10), ("y", .fin 0, .fin 7)] := by decide +kernel

/-- the declared domain and rows of `reanalysis_not_idempotent_counterexample`. -/
def idemDomain : List (DomVar (Ext Rat)) := [⟨"x", .int 0 10, 2⟩, ⟨"y", .real (.fin 0) (.fin 10), 1⟩]
def idemRows : List (Constraint (Ext Rat)) :=
  [cx "a" (.bin .mul (q 2) (.var "x")) .le (q 7), cx "b" (.var "y") .le (.var "x")]

/-- **No fixpoint**: `analyze ∘ apply_to_domain ∘ analyze ≠ analyze`. `x ∈ IntegerRange(0,10)`, `y ∈ [0,10]`,
`2x <= 7`, `y <= x`: the analysis derives `x <= 3.5`, `y <= 3.5`; `enforceable` rounds the stored range of `x` to
`[0,3]` and `apply_to_domain` publishes `IntegerRange(0,3)`, but `y` keeps `3.5`; analysing the published domain
again gives `y <= 3`. (Sound both times; the published range of `y` is just not the tightest one.) -/
theorem reanalysis_not_idempotent_counterexample :
    let an1 := (Analyzer.analyze idemDomain idemRows tol9 10000).enforceable idemDomain
    let published := an1.applyToDomain idemDomain
    let an2 := (Analyzer.analyze published idemRows tol9 10000).enforceable published
    boxOf an1 = [("x", .fin 0, .fin 3), ("y", .fin 0, .fin (7/2))] ∧
    boxOf an2 = [("x", .fin 0, .fin 3), ("y", .fin 0, .fin 3)] := by decide +kernel

end Rooc.Props.C07
