/- C16 — property theorems only (helper lemmas live in `Rooc/Proofs`). -/
namespace Rooc.Props.C16
end Rooc.Props.C16
