/-
C16 — All front doors agree.  PROPERTY THEOREMS ONLY (helper lemmas: `Rooc/Proofs/BuilderLemmas.lean`,
`Rooc/Proofs/ExtArith.lean`, `Rooc/Proofs/ExpVars.lean`, `Rooc/Proofs/SemDefined.lean`).

Proved here, about the model of the builder door (`Rooc/Builder.lean`, diffed against
`ModelBuilder::into_model` and `BuilderSolution::eval` in `./check C16`):
* `toExp` is a name-for-index homomorphism (only leaves change; total exactly on in-range indices;
  injective up to the index value when names are distinct; result mentions only declared names);
* the builder's own evaluator `evalExpr` agrees with the language semantics `Sem.eval` wherever the latter
  is defined, and the places where they differ are exactly the undefined ones (non-finite literal, empty
  min/max, division by zero), with the values `evalExpr` takes there;
* `intoModel` marks every declared variable as used, keeps their order, defaults the objective to
  `satisfy 0`, translates the constraints one for one — hence its result is `Closed` (the hypothesis of
  the C03 theorems) and feasibility forces EVERY declared variable, used in an expression or not, into
  its domain.
The agreement of the text / pipe / one-shot doors with the builder door is the correspondence run.
-/
import Rooc.Proofs.BuilderLemmas
import Rooc.Proofs.SemDefined
import Rooc.Proofs.RefLemmas
import Rooc.Proofs.RatInst
import Rooc.Proofs.BuilderHistLemmas
import Rooc.Proofs.ComposeSolver
import Rooc.Proofs.TextTwin
import Rooc.Proofs.PipesLemmas
import Rooc.Proofs.LinBridgeStatic
import Rooc.Gen.PipeTable
import Rooc.Proofs.ComposeSolverExamples
import Rooc.Proofs.ComposeExamples
import Rooc.Proofs.Compose
import Rooc.Props.C03
namespace Rooc.Props.C16
open Rooc Rooc.Exp Rooc.Builder

/-! ### 5. `toExp` : index → name homomorphism -/
section toExp
variable {α : Type}

/-- `toExp` succeeds exactly when every leaf is a valid index (`inRange`, decidable) — where the Rust
would index out of range the model answers `none`. -/
theorem toExp_total (names : List String) (e : Exp α) :
    (toExp names e).isSome = inRange names e := by
  rw [toExp_closed, inRange]; split <;> simp_all

/-- `toExp` only renames leaves: the result is `mapVars (rename names)` of the input — same constructors,
operators, literals, list lengths, in the same positions. -/
theorem toExp_eq_mapVars {names : List String} {e e' : Exp α} (h : toExp names e = some e') :
    e' = mapVars (rename names) e := (toExp_eq_some.1 h).2

/-- same constructor skeleton: erasing the leaf names makes input and output equal. -/
theorem toExp_same_shape {names : List String} {e e' : Exp α} (h : toExp names e = some e') :
    mapVars (fun _ => "") e' = mapVars (fun _ => "") e := by
  rw [toExp_eq_mapVars h, mapVars_mapVars]; rfl

/-- every variable of the translated expression is one of the declared names; more precisely the i-th
leaf of the result is `names[k]` where `k` is the index written at the i-th leaf of the input. -/
theorem toExp_vars {names : List String} {e e' : Exp α} (h : toExp names e = some e') :
    (∀ s ∈ vars e', s ∈ names) ∧ vars e' = (vars e).map (rename names) := by
  obtain ⟨hr, rfl⟩ := toExp_eq_some.1 h
  exact ⟨mem_names_of_renamed hr, vars_mapVars _ _⟩

/-- injective on shape: with pairwise distinct names, two builder expressions with the same translation
are equal up to the spelling of each index (the model writes indices as decimal strings; `g ∘ idx`
re-spells the leaf from its index value, for any `g`). -/
theorem toExp_injective_on_shape {names : List String} (hnd : names.Nodup) {e₁ e₂ e' : Exp α}
    (h₁ : toExp names e₁ = some e') (h₂ : toExp names e₂ = some e') (g : Option Nat → String) :
    mapVars (g ∘ idx) e₁ = mapVars (g ∘ idx) e₂ := by
  obtain ⟨hr₁, rfl⟩ := toExp_eq_some.1 h₁
  obtain ⟨hr₂, he⟩ := toExp_eq_some.1 h₂
  rw [← unrename hnd g hr₁, ← unrename hnd g hr₂, he]

/-- without distinct names injectivity fails: indices 0 and 1 of `["x","x"]` translate alike. -/
theorem toExp_not_injective_dup :
    toExp ["x", "x"] (.var "0" : Exp α) = toExp ["x", "x"] (.var "1") ∧ idx "0" ≠ idx "1" := by
  have h0 : idx "0" = some 0 := idx_repr 0
  have h1 : idx "1" = some 1 := idx_repr 1
  simp [toExp, h0, h1]

end toExp

/-! ### 4. the builder's evaluator agrees with the language semantics -/
section evaluator
variable {K : Type} [Field K] [LinearOrder K] [IsStrictOrderedRing K] [FloorRing K]

/-- THE STATEMENT.  `var i` is the (finite) value the solution gives to the i-th declared variable and
`ρ` any assignment of names with `ρ names[i] = var i`.  Whenever the language semantics gives the
translated expression a value `v`, the builder's evaluator returns exactly `fin v`. -/
theorem evalExpr_eq_eval (names : List String) (ρ : String → K) (var : Nat → Ext K)
    (hvar : ∀ i (h : i < names.length), var i = .fin (ρ names[i]))
    {e e' : Exp (Ext K)} {v : K} (ht : toExp names e = some e') (hv : Sem.eval ρ e' = some v) :
    evalExpr var e = .fin v := by
  obtain ⟨hr, rfl⟩ := toExp_eq_some.1 ht
  exact evalExpr_fin_core names ρ var hvar e v hr hv

/-- the same with definedness as a decidable hypothesis (`Sem.defined`, appendix A's "defined when"). -/
theorem evalExpr_eq_eval_of_defined (names : List String) (ρ : String → K) (var : Nat → Ext K)
    (hvar : ∀ i (h : i < names.length), var i = .fin (ρ names[i]))
    {e e' : Exp (Ext K)} (ht : toExp names e = some e') (hd : Sem.defined ρ e' = true) :
    ∃ v, Sem.eval ρ e' = some v ∧ evalExpr var e = .fin v := by
  rw [← Sem.eval_isSome] at hd
  obtain ⟨v, hv⟩ := Option.isSome_iff_exists.1 hd
  exact ⟨v, hv, evalExpr_eq_eval names ρ var hvar ht hv⟩

/-- reading back BY NAME: for pairwise distinct names and a value vector of the same length, the
association list `names.zip vals` resolves `names[i]` to `vals[i]`. -/
theorem lookup_zip : ∀ (names : List String) (vals : List K), names.Nodup →
    vals.length = names.length → ∀ i (h : i < names.length),
    Ref.lookup (names.zip vals) names[i] = vals.getD i 0
  | [], _, _, _, i, h => by simp at h
  | n :: ns, [], _, hl, _, _ => by simp at hl
  | n :: ns, x :: xs, hnd, hl, 0, _ => by simp [Ref.lookup_cons_self]
  | n :: ns, x :: xs, hnd, hl, i + 1, h => by
    have hnd' := List.nodup_cons.1 hnd
    have hi : i < ns.length := by simpa using h
    have hne : n ≠ ns[i] := fun heq => hnd'.1 (heq ▸ List.getElem_mem hi)
    simp only [List.zip_cons_cons, List.getElem_cons_succ, List.getD_cons_succ]
    rw [Ref.lookup_cons_ne _ _ hne]
    exact lookup_zip ns xs hnd'.2 (by simpa using hl) i hi

/-- value-vector form (handles ↦ values, names ↦ values): with distinct names, evaluating a builder
expression at the value vector equals the language semantics of its translation at the assignment that
reads the same vector back by name. -/
theorem evalExpr_eq_eval_vals (names : List String) (vals : List K) (hnd : names.Nodup)
    (hl : vals.length = names.length) {e e' : Exp (Ext K)} {v : K} (ht : toExp names e = some e')
    (hv : Sem.eval (Ref.lookup (names.zip vals)) e' = some v) :
    evalExpr (fun i => .fin (vals.getD i 0)) e = .fin v :=
  evalExpr_eq_eval names (Ref.lookup (names.zip vals)) _
    (fun i h => by rw [lookup_zip names vals hnd hl i h]) ht hv

/-- WHERE THE TWO MAY DIFFER: exactly where `Sem.eval` is undefined.  There `evalExpr` is still total and
returns IEEE's answer: `x/0 = ±inf` by the sign of `x`, `0/0 = NaN`, `min [] = +inf`, `max [] = -inf`,
and a non-finite literal is returned as it is. -/
theorem evalExpr_where_undefined (ρ : String → K) (var : Nat → Ext K) :
    let n (q : K) : Exp (Ext K) := .num (.fin q)
    (Sem.eval ρ (.bin .div (n 1) (n 0)) = none ∧ evalExpr var (.bin .div (n 1) (n 0)) = .pinf) ∧
    (Sem.eval ρ (.bin .div (n (-1)) (n 0)) = none ∧ evalExpr var (.bin .div (n (-1)) (n 0)) = .ninf) ∧
    (Sem.eval ρ (.bin .div (n 0) (n 0)) = none ∧ evalExpr var (.bin .div (n 0) (n 0)) = .nan) ∧
    (Sem.eval ρ (.min []) = none ∧ evalExpr var (.min [] : Exp (Ext K)) = .pinf) ∧
    (Sem.eval ρ (.max []) = none ∧ evalExpr var (.max [] : Exp (Ext K)) = .ninf) ∧
    (∀ x : Ext K, x.isFinite = false → Sem.eval ρ (.num x) = none ∧ evalExpr var (.num x) = x) := by
  refine ⟨?_, ?_, ?_, ?_, ?_, ?_⟩
  · simp [Sem.eval, Sem.binVal, evalExpr, ExtArith.div_fin_zero]
  · simp [Sem.eval, Sem.binVal, evalExpr, ExtArith.div_fin_zero]
  · simp [Sem.eval, Sem.binVal, evalExpr, ExtArith.div_fin_zero]
  · simp [Sem.eval, Sem.evalList, evalExpr, evalList]
  · simp [Sem.eval, Sem.evalList, evalExpr, evalList]
  · intro x hx
    cases x <;> simp_all [Sem.eval, evalExpr, Ext.isFinite]

/-- `Sem.eval` is undefined exactly when `Sem.defined` (decidable) fails — so the theorem above covers
every case in which the evaluators are not tied together. -/
theorem eval_undefined_iff (ρ : String → K) (e : Exp (Ext K)) :
    Sem.eval ρ e = none ↔ Sem.defined ρ e = false := by
  rw [← Sem.eval_isSome]; cases Sem.eval ρ e <;> simp

end evaluator

/-! ### 6. `intoModel` -/
section intoModel
variable {α : Type} [Arith α]

/-- `intoModel` succeeds exactly when every index used by a constraint or the objective is declared. -/
theorem intoModel_total (b : BModel α) : (intoModel b).isSome = bInRange b := by
  rw [intoModel_closed]; split <;> simp_all

/-- every declared variable of the result carries the usage mark 1 (> 0), and the domain lists exactly
the declared variables, with their types, in declaration order. -/
theorem intoModel_marks_all {b : BModel α} {m : Model α} (h : intoModel b = some m) :
    m.domain = b.vars.map (fun p => { name := p.1, ty := p.2, usage := 1 }) ∧
    m.domain.map (·.name) = b.vars.map (·.1) ∧
    (∀ d ∈ m.domain, d.usage = 1) ∧ m.domain.length = b.vars.length := by
  rw [intoModel_closed] at h
  split at h
  · simp only [Option.some.injEq] at h
    subst h
    refine ⟨rfl, by simp [Function.comp_def], ?_, by simp⟩
    intro d hd
    simp only [List.mem_map] at hd
    obtain ⟨p, _, rfl⟩ := hd
    rfl
  · cases h

/-- no objective ⇒ `satisfy` with the literal 0. -/
theorem intoModel_default_objective {b : BModel α} {m : Model α} (h : intoModel b = some m)
    (hb : b.objective = none) : m.optType = .satisfy ∧ m.objective = .num Arith.zero := by
  rw [intoModel_closed] at h
  split at h
  · simp only [Option.some.injEq] at h
    subst h
    simp [objOf, hb, mapVars]
  · cases h

/-- a given objective is kept: same direction, expression translated by `toExp`. -/
theorem intoModel_objective {b : BModel α} {m : Model α} (h : intoModel b = some m) {ot : OptType}
    {oe : Exp α} (hb : b.objective = some (ot, oe)) :
    m.optType = ot ∧ toExp (b.vars.map (·.1)) oe = some m.objective := by
  rw [intoModel_closed] at h
  split at h
  · next hr =>
    simp only [Option.some.injEq] at h
    subst h
    simp only [bInRange, Bool.and_eq_true] at hr
    simp only [objOf, hb, Option.getD_some] at hr ⊢
    exact ⟨trivial, toExp_eq_some.2 ⟨hr.2, rfl⟩⟩
  · cases h

/-- `to_constraint`, spelled out: name and assertion flag kept, left-hand side translated by `toExp`; a comparison keeps
its operator and has its right-hand side translated; an assertion is stored as `lhs = 1` (`Constraint::new_logic_assertion`)
whatever the builder constraint's public `constraint_type` / `rhs` fields hold. -/
theorem toConstraint_spec {names : List String} {c c' : Constraint α} (h : toConstraint names c = some c') :
    c'.name = c.name ∧ c'.isAssert = c.isAssert ∧ toExp names c.lhs = some c'.lhs ∧
    (if c.isAssert then c'.cmp = .eq ∧ c'.rhs = .num Arith.one
     else c'.cmp = c.cmp ∧ toExp names c.rhs = some c'.rhs) := by
  rw [toConstraint_closed] at h
  split at h
  · next hr =>
    simp only [Option.some.injEq] at h
    subst h
    simp only [cInRange, Bool.and_eq_true, Bool.or_eq_true] at hr
    by_cases ha : c.isAssert = true
    · simp only [renameC, ha, if_true, and_self, and_true, true_and]
      exact toExp_eq_some.2 ⟨hr.1, rfl⟩
    · simp only [renameC, ha, Bool.false_eq_true, if_false, true_and]
      exact ⟨toExp_eq_some.2 ⟨hr.1, rfl⟩, toExp_eq_some.2 ⟨hr.2.resolve_left ha, rfl⟩⟩
  · cases h

/-- constraints are translated one for one, in order, each by `to_constraint`. -/
theorem intoModel_constraints {b : BModel α} {m : Model α} (h : intoModel b = some m) :
    m.constraints.length = b.constraints.length ∧
    ∀ i (h₁ : i < b.constraints.length) (h₂ : i < m.constraints.length),
      toConstraint (b.vars.map (·.1)) b.constraints[i] = some m.constraints[i] := by
  rw [intoModel_closed] at h
  split at h
  · next hr =>
    simp only [Option.some.injEq] at h
    subst h
    refine ⟨by simp, ?_⟩
    intro i h₁ h₂
    simp only [bInRange, Bool.and_eq_true, List.all_eq_true] at hr
    have hc := hr.1 _ (List.getElem_mem h₁)
    simp only [List.getElem_map, toConstraint_closed, hc, if_true]
  · cases h

/-- the result is `Closed` — every variable occurring in it is a declared variable with a usage mark —
which is the hypothesis of the C03 reference theorems: they apply to every builder model. -/
theorem intoModel_closed_model {b : BModel α} {m : Model α} (h : intoModel b = some m) :
    Ref.Closed m = true := by
  rw [intoModel_closed] at h
  split at h
  · next hr =>
    simp only [Option.some.injEq] at h
    subst h
    simp only [bInRange, Bool.and_eq_true, List.all_eq_true] at hr
    have hused : ∀ s, s ∈ b.vars.map (·.1) →
        s ∈ Ref.usedNames (b.vars.map fun p => ({ name := p.1, ty := p.2, usage := 1 } : DomVar α)) := by
      intro s hs
      rw [Ref.mem_usedNames]
      obtain ⟨p, hp, rfl⟩ := List.mem_map.1 hs
      exact ⟨_, List.mem_map.2 ⟨p, hp, rfl⟩, by simp, rfl⟩
    simp only [Ref.Closed, List.all_eq_true, List.contains_iff_mem, Ref.modelVars, List.mem_append,
      List.mem_flatMap]
    rintro s (hs | ⟨c', hc', hs⟩)
    · exact hused s (mem_names_of_renamed hr.2 s hs)
    · obtain ⟨c, hc, rfl⟩ := List.mem_map.1 hc'
      have hcr := hr.1 c hc
      simp only [cInRange, Bool.and_eq_true, Bool.or_eq_true] at hcr
      simp only [Ref.consVars, renameC] at hs
      by_cases ha : c.isAssert = true
      · simp only [ha, if_true] at hs
        exact hused s (mem_names_of_renamed hcr.1 s hs)
      · simp only [ha, Bool.false_eq_true, if_false, List.mem_append] at hs
        rcases hs with hs | hs
        · exact hused s (mem_names_of_renamed hcr.1 s hs)
        · exact hused s (mem_names_of_renamed (hcr.2.resolve_left ha) s hs)
  · cases h

end intoModel

/-- declared-but-unused builder variables still get a value inside their domain: any assignment feasible
for the builder's model puts EVERY declared variable in its domain, whether or not an expression uses it. -/
theorem intoModel_feasible_inDomain {K : Type} [Field K] [LinearOrder K] [IsStrictOrderedRing K]
    [FloorRing K] {b : BModel (Ext K)} {m : Model (Ext K)} (h : intoModel b = some m)
    {ρ : String → K} (hf : Sem.srcFeasible m ρ = true) :
    ∀ p ∈ b.vars, Sem.inDomain (ρ p.1) p.2 = true := by
  intro p hp
  have hd := (intoModel_marks_all h).1
  simp only [Sem.srcFeasible, Bool.and_eq_true, List.all_eq_true] at hf
  have := hf.2 { name := p.1, ty := p.2, usage := 1 } (by rw [hd]; exact List.mem_map.2 ⟨p, hp, rfl⟩)
  simpa using this

/-! ### 7. builder CALL HISTORIES (`Rooc/BuilderHist.lean`: the `ModelBuilder` state machine)

`run BState.new ops` replays a history of `add_var / add_vars / with / with_all / maximize / minimize / satisfy` calls
(every call under `catch_unwind` in the harness: after the duplicate-name panic the builder is used on). -/
section histories
variable {α : Type} [Arith α]

/-- every history keeps the builder's invariant: `variable_names` are exactly the keys of the domain map, in
declaration order, and PAIRWISE DISTINCT — duplicate rejection is what discharges the `names.Nodup` hypothesis of
`toExp_injective_on_shape` / `evalExpr_eq_eval_vals` for every model a builder can produce. -/
theorem history_invariant (ops : List (Op α)) :
    let s := (run (BState.new : BState α) ops).1
    s.variableNames = s.domain.map (·.1) ∧ s.variableNames.Nodup :=
  let h := run_inv ops (inv_new (α := α)); ⟨h.keys, h.nodup⟩

/-- duplicate rejection, exactly: in a state reached by a history `add_var` panics iff the name is declared;
otherwise it mints the next index, which resolves to that name, and changes nothing else. -/
theorem addVar_spec (ops : List (Op α)) (n : String) (ty : VarType α) :
    let s := (run (BState.new : BState α) ops).1
    ((∃ e, addVar s n ty = .error e) ↔ n ∈ s.variableNames) ∧
    (∀ s' h, addVar s n ty = .ok (s', h) → h = s.variableNames.length ∧ s'.variableNames[h]? = some n ∧
      s'.variableNames = s.variableNames ++ [n] ∧ s'.domain = s.domain ++ [(n, ty)] ∧
      s'.constraints = s.constraints ∧ s'.objective = s.objective) := by
  refine ⟨addVar_error_iff (run_inv ops inv_new) n ty, fun s' h hok => ?_⟩
  obtain ⟨h1, h2, h3, h4, h5, _⟩ := addVar_ok hok
  exact ⟨h1, addVar_handle_resolves hok, h2, h3, h4, h5⟩

/-- handles are stable: whatever a handle resolves to at some point of a history, it resolves to after any further
calls (names are only ever appended). -/
theorem history_handles_stable (s : BState α) (ops : List (Op α)) {h : Nat} {n : String}
    (hr : s.variableNames[h]? = some n) : (run s ops).1.variableNames[h]? = some n :=
  resolves_of_prefix (run_prefix ops s) hr

/-- CLOSED FORM of a history: the declarations are those of the declaration calls alone, the constraints are the
added ones in call order (`with_all cs` = the `with`s of `cs`), and the LAST objective call wins. -/
theorem history_closed_form (ops : List (Op α)) (s : BState α) :
    (run s ops).1.variableNames = (run s (ops.filter isDecl)).1.variableNames ∧
    (run s ops).1.domain = (run s (ops.filter isDecl)).1.domain ∧
    (run s ops).1.constraints = s.constraints ++ consOf ops ∧
    (run s ops).1.objective = (match lastObj ops with | some o => some o | none => s.objective) :=
  run_closed ops s

/-- ORDER INDEPENDENCE ("objective before/after constraints, with / with_all"): two histories with the same
declaration calls, the same constraints in the same order and the same last objective build the same model. -/
theorem history_order_independent (ops₁ ops₂ : List (Op α)) (s : BState α)
    (hd : ops₁.filter isDecl = ops₂.filter isDecl) (hc : consOf ops₁ = consOf ops₂)
    (ho : lastObj ops₁ = lastObj ops₂) : (run s ops₁).1.intoModel = (run s ops₂).1.intoModel := by
  obtain ⟨a1, a2, a3, a4⟩ := run_closed ops₁ s
  obtain ⟨b1, b2, b3, b4⟩ := run_closed ops₂ s
  have : (run s ops₁).1 = (run s ops₂).1 := by
    cases h1 : (run s ops₁).1; cases h2 : (run s ops₂).1
    simp only [h1, h2] at a1 a2 a3 a4 b1 b2 b3 b4
    simp only [BState.mk.injEq]
    exact ⟨by rw [a1, b1, hd], by rw [a2, b2, hd], by rw [a3, b3, hc], by rw [a4, b4, ho]⟩
  rw [this]

/-- `into_model` of a history is `Builder.intoModel` of the declared variables, constraints and objective it
accumulated — so every theorem of section 6 applies to it. -/
theorem history_intoModel (ops : List (Op α)) :
    let s := (run (BState.new : BState α) ops).1
    s.intoModel = intoModel { vars := s.domain, constraints := s.constraints, objective := s.objective } :=
  BState.intoModel_eq (run_inv ops inv_new).keys

/-- the model of a history: closed (C03's hypothesis), every declared variable marked, names pairwise distinct. -/
theorem history_model (ops : List (Op α)) {m : Model α}
    (h : (run (BState.new : BState α) ops).1.intoModel = some m) :
    Ref.Closed m = true ∧ (∀ d ∈ m.domain, d.usage = 1) ∧ (m.domain.map (·.name)).Nodup ∧
    m.domain.map (·.name) = (run (BState.new : BState α) ops).1.variableNames := by
  have hi := run_inv ops (inv_new (α := α))
  rw [history_intoModel] at h
  obtain ⟨_, h2, h3, _⟩ := intoModel_marks_all h
  refine ⟨intoModel_closed_model h, h3, ?_, ?_⟩
  · rw [h2]; simpa [← hi.keys] using hi.nodup
  · rw [h2]; simpa using hi.keys.symm

end histories

/-! ### 8. `BuilderSolution::eval` at the returned solution is the language semantics -/
section readback
variable {K : Type} [Field K] [LinearOrder K] [IsStrictOrderedRing K] [FloorRing K]
open Rooc.Compose

/-- `eval` resolves a handle to the solved value of its name (0 for a handle or name without a value); whenever the
language semantics gives the translated expression a value at the assignment the solution denotes
(`Compose.assignmentOf`, the assignment the C03 theorems speak about), `eval` returns exactly that value.  Finite
solution values is a decidable condition on the returned `LpSolution`. -/
theorem solution_eval_eq_semEval (b : BSolution (Ext K))
    (hfin : ∀ n val, b.solution.valueOf n = some val → ∃ k : K, val.toNum = .fin k)
    {e e' : Exp (Ext K)} {v : K} (ht : toExp b.variableNames e = some e')
    (hv : Sem.eval (assignmentOf b.solution) e' = some v) : b.eval e = .fin v := by
  refine evalExpr_eq_eval b.variableNames (assignmentOf b.solution) b.resolver ?_ ht hv
  intro i hi
  simp only [BSolution.resolver, BSolution.numericValue, BSolution.varValue, List.getElem?_eq_getElem hi,
    assignmentOf]
  cases hval : b.solution.valueOf b.variableNames[i] with
  | none => simp
  | some val =>
    obtain ⟨k, hk⟩ := hfin _ _ hval
    simp [hk, StdSem.toK]

/-- `var_value` / `numeric_value` through a handle are the value of the handle's NAME in the solver's solution
(first duplicate wins, `SolverWrap.Solution.valueOf`), `None` for a handle that does not belong to the model. -/
theorem solution_varValue (b : BSolution (Ext K)) (h : Nat) :
    (∀ n, b.variableNames[h]? = some n → b.varValue h = b.solution.valueOf n ∧
      b.numericValue h = (b.solution.valueOf n).map SolverWrap.Val.toNum) ∧
    (b.variableNames.length ≤ h → b.varValue h = none ∧ b.numericValue h = none ∧ b.resolver h = .fin 0) := by
  refine ⟨fun n hn => by simp [BSolution.varValue, BSolution.numericValue, hn], fun hle => ?_⟩
  simp [BSolution.varValue, BSolution.numericValue, BSolution.resolver, List.getElem?_eq_none hle]

end readback

/-! ### 9. builder door ≍ text door

`TextTwin bm tm` (`Rooc/Proofs/TextTwin.lean`): the two source models have the same direction, objective, constraints,
declared names and types, and differ at most in the usage counts — the builder marks every declaration
(`intoModel_marks_all`), the text front end counts occurrences, so a declaration that occurs nowhere has count 0 there and
is dropped by the compiler.  This is the relation `./check C16` observes between `ModelBuilder::into_model` and
`RoocParser::parse_and_transform` of the printed text (`same-tree`: equal with the usage column stripped).

Hypotheses on the TEXT model, all established by the text front end: `Closed tm` (every occurring variable is a marked
declaration: the transformer's usage counting), distinct declared names (`IndexMap` keys), and every never-used
declaration has a non-empty domain (`to_variable_type` rejects `IntegerRange(a, b)` with `a > b`; these are the `nodup` /
`inhabited` fields of `LinP.DeclOK`).  `builder_text_counterexample` shows the last one cannot be dropped. -/
section twin
variable {K : Type} [Field K] [LinearOrder K] [IsStrictOrderedRing K] [FloorRing K]
open Rooc.Sem Rooc.Ref Rooc.Props.C03

/-- SAME FEASIBLE ASSIGNMENTS of the used variables, same objective: an assignment satisfies the builder's model iff it
satisfies the text model and puts the never-used declarations inside their domains; every assignment satisfying the text
model can be changed on the never-used declarations only so that it satisfies the builder's, with the same objective. -/
theorem builder_text_feasible {bm tm : Model (Ext K)} (h : TextTwin bm tm) (hb : ∀ d ∈ bm.domain, d.usage > 0)
    (hc : Closed tm = true) (hnd : (tm.domain.map (·.name)).Nodup)
    (hne : ∀ d ∈ tm.domain, d.usage = 0 → ∃ x : K, inDomain x d.ty = true) :
    (∀ ρ : String → K, srcFeasible bm ρ = true ↔
      (srcFeasible tm ρ = true ∧ ∀ d ∈ tm.domain, d.usage = 0 → inDomain (ρ d.name) d.ty = true)) ∧
    (∀ ρ : String → K, srcFeasible tm ρ = true → ∃ ρ' : String → K, srcFeasible bm ρ' = true ∧
      eval ρ' bm.objective = eval ρ tm.objective ∧ ∀ d ∈ tm.domain, d.usage > 0 → ρ' d.name = ρ d.name) :=
  ⟨srcFeasible_twin h hb, fun _ hf => twin_extend h hb hc hnd hne hf⟩

/-- SAME VERDICT AND OPTIMAL VALUE: on enumerable declarations the reference interpreter answers the two models alike —
`infeasible` for both or neither, `optimal` with the SAME value, a `satisfy` witness for both or neither.  (Through
`Props.C03.c03_default_solver_logic_partial` this is the verdict and value each door's pipeline returns.) -/
theorem builder_text_same_verdict {bm tm : Model (Ext K)} (h : TextTwin bm tm) (hb : ∀ d ∈ bm.domain, d.usage > 0)
    (hc : Closed tm = true) (hnd : (tm.domain.map (·.name)).Nodup)
    (hne : ∀ d ∈ tm.domain, d.usage = 0 → ∃ x : K, inDomain x d.ty = true)
    {asgB asgT : List (List (String × K))} (haB : assignments bm.domain = some asgB)
    (haT : assignments tm.domain = some asgT) :
    (refSolve bm = .infeasible ↔ refSolve tm = .infeasible) ∧
    (∀ v, (∃ w, refSolve bm = .optimal v w) ↔ (∃ w, refSolve tm = .optimal v w)) ∧
    ((∃ w, refSolve bm = .feasibleAny w) ↔ (∃ w, refSolve tm = .feasibleAny w)) := by
  have hcB : Closed bm = true := twin_closed h hb hc
  have toT : ∀ ρ : String → K, srcFeasible bm ρ = true → srcFeasible tm ρ = true :=
    fun ρ hf => ((srcFeasible_twin h hb ρ).1 hf).1
  have toB := fun (ρ : String → K) (hf : srcFeasible tm ρ = true) => twin_extend h hb hc hnd hne hf
  refine ⟨?_, ?_, ?_⟩
  · rw [refSolve_infeasible_iff haB hcB, refSolve_infeasible_iff haT hc]
    constructor
    · intro hall ρ
      cases hf : srcFeasible tm ρ with
      | false => rfl
      | true => obtain ⟨ρ', hf', _⟩ := toB ρ hf; rw [hall ρ'] at hf'; cases hf'
    · intro hall ρ
      cases hf : srcFeasible bm ρ with
      | false => rfl
      | true => have := toT ρ hf; rw [hall ρ] at this; cases this
  · intro v
    constructor
    · rintro ⟨w, hr⟩
      obtain ⟨hne', hfw, hvw, hbest⟩ := refSolve_optimal_spec hr
      have hdef : ∀ ρ' : String → K, srcFeasible tm ρ' = true → (eval ρ' tm.objective).isSome = true := by
        intro ρ' hf'
        obtain ⟨ρ'', hf'', hobj, _⟩ := toB ρ' hf'
        rw [← hobj]; exact refSolve_optimal_objective_defined hr hcB hf''
      obtain ⟨v', w', hr'⟩ := refSolve_optimal_complete haT hc (by rw [h.optType]; exact hne') (toT _ hfw) hdef
      obtain ⟨_, hfw', hvw', hbest'⟩ := refSolve_optimal_spec hr'
      have h1 : better bm.optType v' v = false := by
        obtain ⟨ρ'', hf'', hobj, _⟩ := toB _ hfw'
        exact hbest hcB ρ'' hf'' v' (by rw [hobj, hvw'])
      have h2 : better bm.optType v v' = false := by
        have := hbest' hc (lookup w) (toT _ hfw) v (by rw [h.objective]; exact hvw)
        rwa [h.optType] at this
      have : v' = v := Rooc.Compose.eq_of_not_better hne' h1 h2
      exact ⟨w', this ▸ hr'⟩
    · rintro ⟨w, hr⟩
      obtain ⟨hne', hfw, hvw, hbest⟩ := refSolve_optimal_spec hr
      obtain ⟨ρB, hfB, hobjB, _⟩ := toB _ hfw
      have hdef : ∀ ρ' : String → K, srcFeasible bm ρ' = true → (eval ρ' bm.objective).isSome = true := by
        intro ρ' hf'
        rw [← h.objective]; exact refSolve_optimal_objective_defined hr hc (toT ρ' hf')
      obtain ⟨v', w', hr'⟩ := refSolve_optimal_complete haB hcB (by rw [← h.optType]; exact hne') hfB hdef
      obtain ⟨_, hfw', hvw', hbest'⟩ := refSolve_optimal_spec hr'
      have h1 : better tm.optType v' v = false :=
        hbest hc (lookup w') (toT _ hfw') v' (by rw [h.objective]; exact hvw')
      have h2 : better tm.optType v v' = false := by
        have := hbest' hcB ρB hfB v (by rw [hobjB, hvw])
        rwa [← h.optType] at this
      have : v' = v := Rooc.Compose.eq_of_not_better hne' h1 h2
      exact ⟨w', this ▸ hr'⟩
  · constructor
    · rintro ⟨w, hr⟩
      obtain ⟨hs, hf⟩ := refSolve_feasibleAny_spec hr
      exact refSolve_feasibleAny_complete haT hc (by rw [h.optType]; exact hs) (toT _ hf)
    · rintro ⟨w, hr⟩
      obtain ⟨hs, hf⟩ := refSolve_feasibleAny_spec hr
      obtain ⟨ρB, hfB, _⟩ := toB _ hf
      exact refSolve_feasibleAny_complete haB hcB (by rw [← h.optType]; exact hs) hfB

end twin

/-! ### 9b. `solve_with(Auto)` end to end: what is read back through the handles

`BState.solveWith` is `ModelBuilder::solve_with` (`linearize()?`, `solver.solve(&linearized)?`, wrap with the names); with the
`Auto` solver the solver argument is `auto_solver` = `SolverWrap.wrapAuto` around microlp's raw answer, i.e. the builder door
runs `Compose.oneShot` on the model of its history.  Under the hypotheses of `Props.C03.c03_default_solver_logic_partial`
(the compile contract on the model and the recorded assumption `SolverSpec` about microlp) the returned `BuilderSolution`
denotes an assignment that satisfies the model, puts EVERY declared variable — used in an expression or not — inside its
domain, and `eval(objective expression)` through the handles IS the reported `value()`. -/
section solveWith
variable {K : Type} [Field K] [LinearOrder K] [IsStrictOrderedRing K] [FloorRing K]
open Rooc.Compose Rooc.LinP Rooc.Sem
open Rooc.SolverWrap (MlpOutcome wrapAuto)

theorem c16_builder_solve_logic_partial {mlp : LinModel (Ext K) → MlpOutcome (Ext K)} (ops : List (Op (Ext K)))
    {m : Model (Ext K)} (hm : (run (BState.new : BState (Ext K)) ops).1.intoModel = some m)
    {t : K} (ht : 0 ≤ t) {maxSteps : Nat} {lm : LinModel (Ext K)}
    (h : Compile.linearize m (.fin t) maxSteps = .ok lm)
    (hlm : LogicModel m m.domain) (hsh : AssertShape m) (hok : DeclOK m.domain)
    (ht1 : t < 1 ∨ NoIntegerVars m.domain) (hspec : SolverSpec lm (mlp lm))
    {bs : BSolution (Ext K)}
    (hs : (run (BState.new : BState (Ext K)) ops).1.solveWith (.fin t) maxSteps (fun lm => wrapAuto lm (mlp lm)) = .ok bs)
    (hst : bs.solution.status = .optimal)
    (hfin : ∀ n val, bs.solution.valueOf n = some val → ∃ k : K, val.toNum = .fin k) :
    srcFeasible m (assignmentOf bs.solution) = true ∧
    (∀ p ∈ (run (BState.new : BState (Ext K)) ops).1.domain, inDomain (assignmentOf bs.solution p.1) p.2 = true) ∧
    (∀ ot oe, (run (BState.new : BState (Ext K)) ops).1.objective = some (ot, oe) → bs.eval oe = bs.value) := by
  have hi := run_inv ops (inv_new (α := Ext K))
  -- unfold `solve_with`
  have hsol : wrapAuto lm (mlp lm) = .ok bs.solution ∧
      bs.variableNames = (run (BState.new : BState (Ext K)) ops).1.variableNames := by
    unfold BState.solveWith at hs
    simp only [hm, h] at hs
    cases hw : wrapAuto lm (mlp lm) with
    | ok sol => simp only [hw, BRes.ok.injEq] at hs; subst hs; exact ⟨rfl, rfl⟩
    | err v => simp [hw] at hs
    | panic => simp [hw] at hs
  obtain ⟨ho, w, hw, hobj⟩ := hspec.optimal bs.solution hsol.1 hst
  have hc := compilesTo_of_compile_logic ht h hlm hsh hok ht1
  have hfeas := src_of_lin hc ho.feasible
  have hm' := hm
  rw [history_intoModel] at hm'
  refine ⟨hfeas, fun p hp => intoModel_feasible_inDomain hm' hfeas p hp, ?_⟩
  intro ot oe hobjE
  obtain ⟨_, hto⟩ := intoModel_objective hm' hobjE
  have hval : Sem.eval (assignmentOf bs.solution) m.objective = some w := by
    obtain ⟨v, hopt, hlv⟩ := optimal_transfer hc ho
    rw [hobj] at hlv; cases hlv
    exact hopt.value
  have := solution_eval_eq_semEval bs hfin (e := oe) (e' := m.objective) (v := w)
    (by rw [hsol.2, hi.keys]; exact hto) hval
  rw [this, BSolution.value, hw]

/-! #### the static form: what is left to assume about a builder model is finite literals

A model produced by `into_model` mentions declared variables only and every declaration is marked (`intoModel_closed_model`),
and its assertions are stored as `lhs = 1` (`toConstraint_spec`): the static contract `LinP.StaticModel` and `AssertShape`
hold by construction, except for the finiteness of the literals the caller wrote into the expressions. -/

/-- every assertion of a builder model has the shape `lhs = 1`. -/
theorem intoModel_assertShape {b : BModel (Ext K)} {m : Model (Ext K)} (h : intoModel b = some m) : AssertShape m := by
  rw [intoModel_closed] at h
  split at h
  · simp only [Option.some.injEq] at h
    subst h
    intro c' hc' ha
    obtain ⟨c, _, rfl⟩ := List.mem_map.1 hc'
    by_cases hca : c.isAssert = true
    · simp [renameC, hca]
    · simp [renameC, hca] at ha
  · cases h

/-- finite literals on every side (decidable). -/
def FinSides (m : Model (Ext K)) : Prop :=
  FinE m.objective ∧ ∀ c ∈ m.constraints, FinE c.lhs ∧ FinE c.rhs

/-- a builder model with finite literals satisfies the static contract of the pipeline theorems. -/
theorem intoModel_static {b : BModel (Ext K)} {m : Model (Ext K)} (h : intoModel b = some m) (hf : FinSides m) :
    StaticModel m := by
  have hdom := (intoModel_marks_all h).1
  have scope : ∀ x, x ∈ b.vars.map (·.1) → inScope m.domain x := by
    intro x hx
    obtain ⟨p, hp, rfl⟩ := List.mem_map.1 hx
    exact ⟨{ name := p.1, ty := p.2, usage := 1 }, by rw [hdom]; exact List.mem_map.2 ⟨p, hp, rfl⟩, rfl, by simp⟩
  rw [intoModel_closed] at h
  split at h
  · next hr =>
    simp only [Option.some.injEq] at h
    subst h
    simp only [bInRange, Bool.and_eq_true, List.all_eq_true] at hr
    refine ⟨fun x hx => scope x (mem_names_of_renamed hr.2 x (by rw [Rooc.Compose.vars_eq_varsOf]; exact hx)), hf.1, ?_⟩
    intro c' hc'
    obtain ⟨c, hc, rfl⟩ := List.mem_map.1 hc'
    have hcr := hr.1 c hc
    simp only [cInRange, Bool.and_eq_true, Bool.or_eq_true] at hcr
    refine ⟨?_, ?_, (hf.2 _ hc').1, (hf.2 _ hc').2⟩
    · intro x hx
      have : x ∈ vars (mapVars (rename (b.vars.map (·.1))) c.lhs) := by
        rw [Rooc.Compose.vars_eq_varsOf]; by_cases hca : c.isAssert = true <;> simpa [renameC, hca] using hx
      exact scope x (mem_names_of_renamed hcr.1 x this)
    · intro x hx
      by_cases hca : c.isAssert = true
      · simp [renameC, hca, varsOf] at hx
      · have : x ∈ vars (mapVars (rename (b.vars.map (·.1))) c.rhs) := by
          rw [Rooc.Compose.vars_eq_varsOf]; simpa [renameC, hca] using hx
        exact scope x (mem_names_of_renamed (hcr.2.resolve_left hca) x this)
  · cases h

/-- **`solve_with(Auto)` end to end under the STATIC contract**: for the model of ANY call history, finite literals
(`FinSides`, decidable), `DeclOK`, the tolerance condition and the recorded assumption `SolverSpec` about microlp suffice —
no semantic hypothesis on the model. -/
theorem c16_builder_solve_static_partial {mlp : LinModel (Ext K) → MlpOutcome (Ext K)} (ops : List (Op (Ext K)))
    {m : Model (Ext K)} (hm : (run (BState.new : BState (Ext K)) ops).1.intoModel = some m)
    {t : K} (ht : 0 ≤ t) {maxSteps : Nat} {lm : LinModel (Ext K)}
    (h : Compile.linearize m (.fin t) maxSteps = .ok lm)
    (hfs : FinSides m) (hok : DeclOK m.domain)
    (ht1 : t < 1 ∨ NoIntegerVars m.domain) (hspec : SolverSpec lm (mlp lm))
    {bs : BSolution (Ext K)}
    (hs : (run (BState.new : BState (Ext K)) ops).1.solveWith (.fin t) maxSteps (fun lm => wrapAuto lm (mlp lm)) = .ok bs)
    (hst : bs.solution.status = .optimal)
    (hfin : ∀ n val, bs.solution.valueOf n = some val → ∃ k : K, val.toNum = .fin k) :
    srcFeasible m (assignmentOf bs.solution) = true ∧
    (∀ p ∈ (run (BState.new : BState (Ext K)) ops).1.domain, inDomain (assignmentOf bs.solution p.1) p.2 = true) ∧
    (∀ ot oe, (run (BState.new : BState (Ext K)) ops).1.objective = some (ot, oe) → bs.eval oe = bs.value) := by
  have hm' := hm
  rw [history_intoModel] at hm'
  have hsh := intoModel_assertShape hm'
  exact c16_builder_solve_logic_partial ops hm ht h
    (logicModel_of_compile h (intoModel_static hm' hfs) hsh hok) hsh hok ht1 hspec hs hst hfin

end solveWith

/-! ### 10. the staged pipe runner is function composition (`Rooc/Pipes.lean`, diffed on arbitrary pipe sequences) -/
section pipes
open Rooc.Pipes
variable {D E : Type}

/-- `runPipe_compose`: a successful run returns the start datum followed by every intermediate result — one per pipe — and
its last element is the `?`-composition of the stages applied to the start datum. -/
theorem runPipe_compose (pipes : List (D → Except E D)) (d : D) {rs : List D} (h : runPipe pipes d = .ok rs) :
    rs.length = pipes.length + 1 ∧ rs.head? = some d ∧ ∃ hne : rs ≠ [], chain pipes d = .ok (rs.getLast hne) := by
  rw [runPipe_eq_scan] at h
  cases hs : scan pipes d with
  | error x => obtain ⟨e, rs'⟩ := x; simp [hs] at h
  | ok rs' =>
    simp only [hs, Except.ok.injEq] at h
    subst h
    obtain ⟨h1, h2⟩ := scan_ok pipes d rs' hs
    exact ⟨by simp [h1], rfl, by simp, h2⟩

/-- a failing run: the error is the error of the composition, the results handed back are the start datum and the results
of the pipes BEFORE the failing one (strictly fewer than the pipes), the last of them being the composition of those
pipes — the datum the failing pipe was applied to. -/
theorem runPipe_error (pipes : List (D → Except E D)) (d : D) {e : E} {rs : List D}
    (h : runPipe pipes d = .error (e, rs)) :
    chain pipes d = .error e ∧ rs.head? = some d ∧ rs.length ≤ pipes.length ∧
    ∃ hne : rs ≠ [], chain (pipes.take (rs.length - 1)) d = .ok (rs.getLast hne) := by
  rw [runPipe_eq_scan] at h
  cases hs : scan pipes d with
  | ok rs' => simp [hs] at h
  | error x =>
    obtain ⟨e', rs'⟩ := x
    simp only [hs, Except.error.injEq, Prod.mk.injEq] at h
    obtain ⟨rfl, rfl⟩ := h
    obtain ⟨h1, h2, h3⟩ := scan_error pipes d e' rs' hs
    exact ⟨h2, rfl, by simp; omega, by simp, by simpa using h3⟩

/-- a built-in pipe answers `InvalidData { expected, got }` exactly on a tag mismatch (expected = the variant it reads,
got = the variant it was handed); on the right variant it is its stage function, wrapped. -/
theorem builtin_spec {P : Type} (k : PipeKind) (f : P → Option P) (t : DataTy) (p : P) :
    (t ≠ k.input → builtin k f (t, p) = .error (.invalidData k.input t)) ∧
    (t = k.input → builtin k f (t, p) = match k.output, f p with
      | some o, some q => .ok (o, q)
      | _, _ => .error (.stage k.errVariant)) := by
  constructor
  · intro h; simp [builtin, h]
  · intro h; subst h; simp only [builtin, bne_self_eq_false, Bool.false_eq_true, if_false]
    cases k.output <;> cases f p <;> rfl

/-- THE TIE TO THE SOURCE: the typing table of the model is the table `tools/extract.py` re-reads from
`pipe/pipe_executors.rs` on every run (`Rooc/Gen/PipeTable.lean`: for each `impl Pipeable`, the `as_X()?` it reads, the
`PipeableData` variant it returns, the `PipeError` variant it wraps its failure in) — a pipe added, removed or rewired in
the Rust source makes this proof obligation fail. -/
theorem pipe_table_agrees : Pipes.modelTable = Gen.pipeTable := by decide +kernel

/-- likewise the `format!` string of `add_vars` member names, which `Builder.familyName` implements. -/
theorem familyName_format : Gen.familyNameFormat = "{name}_{i}" ∧
    ∀ (name : String) (i : Nat), familyName name i = name ++ "_" ++ toString i := ⟨by decide +kernel, fun _ _ => rfl⟩

/-- the preset the doors use — `Compiler, PreModel, Model, LinearModel, AutoSolver` — is well typed: from a `String` it
yields the six data `String, Parser, PreModel, Model, LinearModel, MILPSolution` when no stage function fails. -/
example : runTags [.compiler, .preModel, .model, .linearModel, .autoSolver] .string none =
    .ok [.string, .parser, .preModel, .model, .linearModel, .milpSolution] := by decide
/-- a pipe in the wrong place: `ModelPipe` right after `CompilerPipe` is handed a `Parser`. -/
example : runTags [.compiler, .model] .string none = .error (.invalidData .preModel .parser, [.string, .parser]) := by decide

end pipes

/-! ### Non-vacuity: a concrete builder model at `K = ℚ`

`x ∈ {0..5}` (index 0), `y` Boolean (index 1), `z` Boolean declared but never used (index 2);
constraint `x + 2*y <= 6`; objective `max x + 2*y`. -/
section examples
attribute [local instance 2000] fieldExact

private theorem i0 : idx "0" = some 0 := idx_repr 0
private theorem i1 : idx "1" = some 1 := idx_repr 1

private def v0 : Exp (Ext ℚ) := .var "0"
private def v1 : Exp (Ext ℚ) := .var "1"
private def lin : Exp (Ext ℚ) := .bin .add v0 (.bin .mul (.num (.fin 2)) v1)
private def lin' : Exp (Ext ℚ) := .bin .add (.var "x") (.bin .mul (.num (.fin 2)) (.var "y"))

private def exB : BModel (Ext ℚ) :=
  { vars := [("x", .int 0 5), ("y", .bool), ("z", .bool)],
    constraints := [{ name := "c", lhs := lin, cmp := .le, rhs := .num (.fin 6), isAssert := false }],
    objective := some (.max, lin) }

private def exM : Model (Ext ℚ) :=
  { optType := .max, objective := lin',
    constraints := [{ name := "c", lhs := lin', cmp := .le, rhs := .num (.fin 6), isAssert := false }],
    domain := [{ name := "x", ty := .int 0 5, usage := 1 }, { name := "y", ty := .bool, usage := 1 },
               { name := "z", ty := .bool, usage := 1 }] }

example : toExp ["x", "y", "z"] lin = some lin' := by
  simp [toExp, lin, lin', v0, v1, i0, i1]

example : inRange ["x", "y", "z"] lin = true := by
  simp [inRange, leafOk, vars, lin, v0, v1, i0, i1]

/-- an index out of range: `toExp` fails (the Rust would panic on the slice index). -/
example : toExp ["x"] lin = none := by
  simp [toExp, lin, v0, v1, i0, i1]

private theorem exB_intoModel : intoModel exB = some exM := by
  simp [intoModel, toConstraint, exB, exM, toExp, lin, lin', v0, v1, i0, i1]

/-- `evalExpr_eq_eval_vals` applies: at `x = 3, y = 1` the builder's evaluator gives `5`, the value
of the translated expression under the language semantics. -/
example : evalExpr (fun i => .fin (([3, 1, 0] : List ℚ).getD i 0)) lin = .fin 5 :=
  evalExpr_eq_eval_vals (K := ℚ) ["x", "y", "z"] [3, 1, 0] (by decide) (by decide)
    (e' := lin') (by simp [toExp, lin, lin', v0, v1, i0, i1])
    (by rw [fieldExact_rat]; decide +kernel)

/-- the theorems about `intoModel` apply to `exB`: all three declared variables are marked … -/
example : exM.domain.map (·.name) = ["x", "y", "z"] ∧ ∀ d ∈ exM.domain, d.usage = 1 :=
  ⟨(intoModel_marks_all exB_intoModel).2.1, (intoModel_marks_all exB_intoModel).2.2.1⟩

/-- … the result is closed, so the C03 reference theorems apply to it … -/
example : Ref.Closed exM = true := intoModel_closed_model exB_intoModel

/-- … the reference solves it (`x = 4` or `5` with `y = 1`, capped at `x + 2y = 6`; first best wins) … -/
example : Ref.refSolve exM = .optimal 6 [("x", 4), ("y", 1), ("z", 0)] := by
  rw [fieldExact_rat]; decide +kernel

/-- … and the never-used `z` is forced into `{0,1}` at every feasible point. -/
example (ρ : String → ℚ) (hf : Sem.srcFeasible exM ρ = true) : Sem.inDomain (ρ "z") .bool = true :=
  intoModel_feasible_inDomain exB_intoModel hf ("z", .bool) (by simp [exB])

/-- default objective. -/
example : ∃ m, intoModel { exB with objective := none } = some m ∧ m.optType = .satisfy ∧
    m.objective = .num (.fin 0) := by
  refine ⟨{ exM with optType := .satisfy, objective := .num (.fin 0) }, ?_, rfl, rfl⟩
  simp [intoModel, toConstraint, exB, exM, toExp, lin, lin', v0, v1, i0, i1]

/-! #### a call history, replayed -/

private noncomputable def exOps : List (Op (Ext ℚ)) :=
  [.addVar "x" (.int 0 5), .addVars "y" 2 .bool, .addVar "y_1" .bool, .maximize (.var "0"),
   .with_ (bcNew (.bin .add (.var "0") (.bin .mul (.num (.fin 2)) (.var "1"))) .le (.num (.fin 6)) "c"),
   .satisfy, .with_ (bcAssert (.or [.var "1", .var "2"]) "a"),
   .maximize (.bin .add (.var "0") (.bin .mul (.num (.fin 2)) (.var "1")))]

/-- outcomes: handles 0, then the family `y_0, y_1` (handles 1, 2), then the duplicate-name panic of `add_var "y_1"`. -/
example : (run BState.new exOps).2 =
    [.handles [0], .handles [1, 2], .duplicate "y_1", .unit, .unit, .unit, .unit, .unit] := by decide +kernel

example : (run BState.new exOps).1.variableNames = ["x", "y_0", "y_1"] := by decide +kernel

/-- a family that collides half way leaves its earlier members declared. -/
example : (run (BState.new : BState (Ext ℚ)) [.addVar "v_1" .bool, .addVars "v" 3 .bool]).2 =
      [.handles [0], .duplicate "v_1"] ∧
    (run (BState.new : BState (Ext ℚ)) [.addVar "v_1" .bool, .addVars "v" 3 .bool]).1.variableNames = ["v_1", "v_0"] := by
  decide +kernel

/-- the same constraints and last objective in another call order (`with_all`, objective first): same model
(`history_order_independent` applies). -/
example : (run BState.new exOps).1.intoModel =
    (run BState.new ([.addVar "x" (.int 0 5), .addVars "y" 2 .bool, .addVar "y_1" .bool,
      .maximize (.bin .add (.var "0") (.bin .mul (.num (.fin 2)) (.var "1"))),
      .withAll [bcNew (.bin .add (.var "0") (.bin .mul (.num (.fin 2)) (.var "1"))) .le (.num (.fin 6)) "c",
                bcAssert (.or [.var "1", .var "2"]) "a"]] : List (Op (Ext ℚ)))).1.intoModel :=
  history_order_independent _ _ _ (by unfold exOps; rfl) (by simp [exOps, consOf]) (by simp [exOps, lastObj, objOfOp])

/-- `solution_eval_eq_semEval` applies: a solution `x = 4, y_0 = 1` (no value for `y_1`: it reads as 0). -/
example : BSolution.eval
      { solution := SolverWrap.lpSolutionNew [("x", .int 4), ("y_0", .bool true)] (.fin 6) [], variableNames := ["x", "y_0", "y_1"] }
      (.bin .add (.var "0") (.bin .mul (.num (.fin 2)) (.var "1")) : Exp (Ext ℚ)) = .fin 6 := by
  refine solution_eval_eq_semEval _ ?_ (e' := .bin .add (.var "x") (.bin .mul (.num (.fin 2)) (.var "y_0"))) ?_ ?_
  · intro n val hv
    have hcases : val = .int 4 ∨ val = .bool true := by
      simp only [SolverWrap.Solution.valueOf, SolverWrap.lpSolutionNew, SolverWrap.buildAssignmentMap, SolverWrap.imGet,
        List.foldl_cons, List.foldl_nil, List.any_nil, List.nil_append, List.any_cons, Bool.false_eq_true, if_false,
        Bool.or_false] at hv
      have hne : (("x" : String) == "y_0") = false := by decide
      simp only [hne, Bool.false_eq_true, if_false, List.cons_append, List.nil_append, List.find?_cons] at hv
      by_cases h1 : (("x" : String) == n) = true
      · simp only [h1] at hv; left; simpa using hv.symm
      · have h1' : (("x" : String) == n) = false := by simpa using h1
        simp only [h1'] at hv
        by_cases h2 : (("y_0" : String) == n) = true
        · simp only [h2] at hv; right; simpa using hv.symm
        · have h2' : (("y_0" : String) == n) = false := by simpa using h2
          simp [h2'] at hv
    rcases hcases with rfl | rfl
    · exact ⟨4, by simp [SolverWrap.Val.toNum]⟩
    · exact ⟨1, by simp [SolverWrap.Val.toNum]⟩
  · simp [toExp, i0, i1]
  · simp [Sem.eval, Sem.binVal, Rooc.Compose.assignmentOf, SolverWrap.Solution.valueOf, SolverWrap.lpSolutionNew,
      SolverWrap.buildAssignmentMap, SolverWrap.imGet, SolverWrap.Val.toNum, StdSem.toK]
    norm_num

/-! #### builder ≍ text -/

private def twinB : Model (Ext ℚ) :=
  { optType := .max, objective := .var "x", constraints := [],
    domain := [{ name := "x", ty := .bool, usage := 1 }, { name := "u", ty := .int 2 3, usage := 1 }] }
private def twinT : Model (Ext ℚ) := { twinB with domain := [{ name := "x", ty := .bool, usage := 1 }, { name := "u", ty := .int 2 3, usage := 0 }] }

/-- `builder_text_same_verdict` applies (the never-used `u` has the non-empty domain `{2,3}`): both doors' models get
`optimal 1`. -/
example : (∃ w, Ref.refSolve twinB = .optimal 1 w) ↔ (∃ w, Ref.refSolve twinT = .optimal 1 w) :=
  (builder_text_same_verdict (bm := twinB) (tm := twinT) ⟨rfl, rfl, rfl, rfl⟩ (by decide) (by decide) (by decide)
    (by
      intro d hd h0
      simp only [twinT, List.mem_cons, List.mem_nil_iff, or_false] at hd
      rcases hd with rfl | rfl
      · cases h0
      · exact ⟨2, by rw [fieldExact_rat]; decide +kernel⟩)
    (asgB := [[("x", 0), ("u", 2)], [("x", 1), ("u", 2)], [("x", 0), ("u", 3)], [("x", 1), ("u", 3)]])
    (asgT := [[("x", 0)], [("x", 1)]])
    (by rw [fieldExact_rat]; decide +kernel) (by rw [fieldExact_rat]; decide +kernel)).2.1 1

/-- the hypothesis "never-used declarations are inhabited" cannot be dropped: with `u as IntegerRange(3, 2)` the builder's
model is infeasible (the builder keeps `u` with bounds `3 ≤ u ≤ 2`) while the text model, which drops `u`, has optimum 1.
(The text front end never produces this twin: `to_variable_type` rejects `IntegerRange(3, 2)`; through the builder's public
`VariableType::IntegerRange(3, 2)` it can be declared.) -/
theorem builder_text_counterexample :
    ∃ bm tm : Model (Ext ℚ), TextTwin bm tm ∧ (∀ d ∈ bm.domain, d.usage > 0) ∧ Ref.Closed tm = true ∧
      (tm.domain.map (·.name)).Nodup ∧ Ref.refSolve bm = .infeasible ∧ ∃ w, Ref.refSolve tm = .optimal 1 w := by
  refine ⟨{ twinB with domain := [{ name := "x", ty := .bool, usage := 1 }, { name := "u", ty := .int 3 2, usage := 1 }] },
    { twinB with domain := [{ name := "x", ty := .bool, usage := 1 }, { name := "u", ty := .int 3 2, usage := 0 }] },
    ⟨rfl, rfl, rfl, rfl⟩, by decide, by decide, by decide, ?_, [("x", 1)], ?_⟩
  · rw [fieldExact_rat]; decide +kernel
  · rw [fieldExact_rat]; decide +kernel

open Rooc.Compose Rooc.LinP Rooc.SolverWrap in
/-- non-vacuity (every tolerance `t ≥ 0`, step limit 0): the history `x, y Boolean; c: x <= y; minimize x` builds `exBool`;
for microlp's answer `outBool` the assumption `SolverSpec` HOLDS (`solverSpec_lmBool`), `solve_with` hands back `solBool`
with the names `["x", "y"]`, and the theorem concludes that `eval(x)` through the handle is the reported value 0. -/
example (t : ℚ) (ht : 0 ≤ t) :
    BSolution.eval { solution := (solBool : SolverWrap.Solution (Ext ℚ)), variableNames := ["x", "y"] } (.var "0") = .fin 0 := by
  let ops : List (Op (Ext ℚ)) :=
    [.addVar "x" .bool, .addVar "y" .bool, .with_ (bcNew (.var "0") .le (.var "1") "c"), .minimize (.var "0")]
  have hm : (run (BState.new : BState (Ext ℚ)) ops).1.intoModel = some (exBool : Model (Ext ℚ)) := by
    simp [ops, run, step, addVar, BState.new, BState.intoModel, toConstraint, bcNew, toExp, i0, i1, Compose.exBool]
  have hc := exBool_compile0 (K := ℚ) (.fin t)
  have hs : (run (BState.new : BState (Ext ℚ)) ops).1.solveWith (.fin t) 0 (fun lm => wrapAuto lm outBool) =
      .ok { solution := solBool, variableNames := ["x", "y"] } := by
    unfold BState.solveWith
    rw [hm]
    simp only [hc, wrapAuto_lmBool]
    simp [ops, run, step, addVar, BState.new]
  have hfin : ∀ n val, (solBool : SolverWrap.Solution (Ext ℚ)).valueOf n = some val → ∃ k : ℚ, val.toNum = .fin k := by
    intro n val hv
    have hval : val = .bool false := by
      simp only [SolverWrap.Solution.valueOf, solBool, SolverWrap.buildAssignmentMap, SolverWrap.imGet,
        List.foldl_cons, List.foldl_nil, List.any_nil, List.nil_append, List.any_cons, Bool.false_eq_true, if_false,
        Bool.or_false] at hv
      have hne : (("x" : String) == "y") = false := by decide
      simp only [hne, Bool.false_eq_true, if_false, List.cons_append, List.nil_append, List.find?_cons] at hv
      by_cases h1 : (("x" : String) == n) = true
      · simp only [h1] at hv; simpa using hv.symm
      · have h1' : (("x" : String) == n) = false := by simpa using h1
        simp only [h1'] at hv
        by_cases h2 : (("y" : String) == n) = true
        · simp only [h2] at hv; simpa using hv.symm
        · have h2' : (("y" : String) == n) = false := by simpa using h2
          simp [h2'] at hv
    subst hval
    exact ⟨0, by simp [SolverWrap.Val.toNum]⟩
  have := (c16_builder_solve_logic_partial (mlp := fun _ => outBool) ops hm ht hc (LogicModel.ofFragModel exBool_frag)
    (assertShape_of_fragModel exBool_frag) exBool_declOK (Or.inr exBool_noInt) solverSpec_lmBool hs rfl hfin).2.2
    .min (.var "0") (by simp [ops, run, step, addVar, BState.new])
  simpa [BSolution.value, solBool] using this


/-- the static form applies to the same history: the only thing to check about the model is that its literals are finite. -/
example : FinSides (Compose.exBool : Model (Ext ℚ)) ∧ Rooc.LinP.AssertShape (Compose.exBool : Model (Ext ℚ)) := by
  have i0 : idx "0" = some 0 := idx_repr 0
  have i1 : idx "1" = some 1 := idx_repr 1
  have hb : intoModel (BModel.mk [("x", VarType.bool), ("y", VarType.bool)]
      [bcNew (Exp.var "0") Cmp.le (Exp.var "1") "c"] (some (OptType.min, Exp.var "0")) : BModel (Ext ℚ)) =
      some Compose.exBool := by
    simp [intoModel, toConstraint, bcNew, toExp, i0, i1, Compose.exBool]
  refine ⟨⟨rfl, ?_⟩, intoModel_assertShape hb⟩
  intro c hc
  simp only [Compose.exBool, List.mem_cons, List.mem_nil_iff, or_false] at hc
  subst hc
  exact ⟨rfl, rfl⟩

end examples

end Rooc.Props.C16
