/-
C20 — Shadow prices are the sensitivities of the optimum.  PROPERTY THEOREMS ONLY.

For a certified optimal primal–dual pair `(x, y)` of the minimisation form (`checkOptimal lp x y = true`, the very
test the exact oracle runs): the multipliers `y` are a subgradient of the optimal-value function in the right-hand
sides (weak duality on the perturbed problem — full), inactive rows have multiplier 0 (complementary slackness —
full), and the signs follow the table {min,max} × {≤,≥,=}.  `userPrices` turns the multipliers of the minimisation
form into the user's objective sense, which is the convention `LpSolution::shadow_prices` is compared against.
rooc's own part of the mapping (`collect_good_lp_duals`: non-empty names only) is covered by `unnamed_rows_absent`
and `named_row_price`.  The values Clarabel reports are compared by the harness with exact finite differences.
-/
import Rooc.Proofs.Cert
import Rooc.Proofs.SolverWrap
import Mathlib.Data.Rat.Floor
namespace Rooc.Props.C20
open Rooc Rooc.Cert Rooc.SolverWrap

variable {K : Type} [Field K] [LinearOrder K] [IsStrictOrderedRing K] [FloorRing K]

/-- shadow prices in the USER's sense from the multipliers of the minimisation form (`max f = −min −f`). -/
def userPrices (sense : OptType) (y : List K) : List K :=
  match sense with
  | .max => y.map (fun v => -v)
  | _ => y

/-- the perturbed problem: same objective, same bounds, right-hand sides `b + δ`. -/
def perturbLP (lp : LP K) (δ : List K) : LP K := { lp with rows := perturbRows lp.rows δ }

/-- SUBGRADIENT (minimisation): for a certified optimal pair `(x, y)` and EVERY perturbation `δ` of the right-hand
sides, every feasible point `x'` of the perturbed problem has `c·x' ≥ c·x + y·δ`; i.e.
`opt(b + δ) ≥ opt(b) + y·δ`. -/
theorem dual_is_subgradient (lp : LP K) (x y δ : List K) (h : checkOptimal lp x y = true)
    (hδ : δ.length = lp.rows.length) (x' : List K) (hx' : LpFeasible (perturbLP lp δ) x') :
    dot lp.obj x + dot y δ ≤ dot lp.obj x' := by
  unfold checkOptimal at h
  simp only [Bool.and_eq_true, decide_eq_true_eq] at h
  obtain ⟨_, hb⟩ := h
  cases hd : dualBound lp.obj lp.rows lp.bnds y with
  | none => simp [hd] at hb
  | some v =>
    simp [hd] at hb
    -- the same multipliers bound the perturbed problem by `v + y·δ`
    have hd' : dualBound lp.obj (perturbRows lp.rows δ) lp.bnds y = some (v + dot y δ) := by
      unfold dualBound at hd ⊢
      cases hr : reduce lp.obj lp.rows y with
      | none => simp [hr] at hd
      | some p =>
        obtain ⟨d, w⟩ := p
        rw [reduce_perturb lp.rows lp.obj y δ d w hr hδ]
        cases hs : bndSum d lp.bnds with
        | none => simp [hr, hs] at hd
        | some s =>
          simp [hr, hs] at hd
          subst hd
          simp only [hs, ef_add, Option.some.injEq]
          ring
    have hlen : lp.obj.length = x'.length := by
      rw [dualBound_length hd, bndsSat_length x' lp.bnds hx'.2]
    have := dualBound_le lp.obj (perturbRows lp.rows δ) lp.bnds y x' (v + dot y δ) hlen hd' hx'.1 hx'.2
    linarith

/-- SUPERGRADIENT (maximisation, user's sense): with the prices `π = −y` of `userPrices .max`, every feasible point of
the perturbed problem has `f·x' ≤ f·x + π·δ`; i.e. `max(b + δ) ≤ max(b) + π·δ`. -/
theorem dual_is_supergradient_max (p : Prob K) (x y δ : List K) (hs : p.sense = .max)
    (h : checkOptimal p.relax x y = true) (hδ : δ.length = p.rows.length)
    (x' : List K) (hx' : LpFeasible (perturbLP p.relax δ) x') :
    dot p.obj x' ≤ dot p.obj x + dot (userPrices .max y) δ := by
  have hrows : p.relax.rows = p.rows := rfl
  have hsub := dual_is_subgradient p.relax x y δ h (by rw [hrows]; exact hδ) x' hx'
  have hobj : p.relax.obj = negList p.obj := by simp [Prob.relax, hs]
  rw [hobj, dot_negList, dot_negList] at hsub
  have hneg : dot (userPrices .max y) δ = - dot y δ := dot_negList y δ
  rw [hneg]; linarith

/-- SENSITIVITY IS THE DUAL ("the same basis stays optimal").  Let `(x, y)` be a certified optimal pair of `lp` and `δ` a
perturbation of the right-hand sides.  If the perturbed problem has a feasible point `x'` that is still COMPLEMENTARY to
`y` — every row with a non-zero multiplier is active at `x'` (`RowsTight`), every variable with a non-zero reduced cost
`d = c − Σ yᵢaᵢ` sits at the corresponding bound (`BndsTight`); for a unique non-degenerate basis this is the basic
solution `B⁻¹(b + δ)`, which stays feasible for all small `δ` — then `x'` is optimal for the perturbed problem and

  `opt(b + δ) = c·x' = c·x + y·δ = opt(b) + y·δ`.

Together with `dual_is_subgradient` (the inequality for EVERY `δ`) this is "the shadow price is the rate of change of the
optimal value".  Partial: the existence of the complementary point for small `δ` (basis stability) is a hypothesis; the
harness checks it per instance by exact re-solves. -/
theorem nondegenerate_sensitivity_partial (lp : LP K) (x y δ d : List K) (w : K)
    (h : checkOptimal lp x y = true) (hδ : δ.length = lp.rows.length)
    (hred : reduce lp.obj lp.rows y = some (d, w))
    (x' : List K) (hx' : LpFeasible (perturbLP lp δ) x')
    (hrows : RowsTight (perturbRows lp.rows δ) y x') (hbnds : BndsTight d lp.bnds x') :
    dot lp.obj x' = dot lp.obj x + dot y δ ∧
    ∀ x'', LpFeasible (perturbLP lp δ) x'' → dot lp.obj x' ≤ dot lp.obj x'' := by
  have hsub := dual_is_subgradient lp x y δ h hδ
  unfold checkOptimal at h
  simp only [Bool.and_eq_true, decide_eq_true_eq] at h
  obtain ⟨⟨hlen, hfeas⟩, hb⟩ := h
  have hx := lpFeasible_sound hfeas
  cases hd : dualBound lp.obj lp.rows lp.bnds y with
  | none => simp [hd] at hb
  | some v =>
    simp [hd] at hb
    have hv : v ≤ dot lp.obj x := dualBound_le lp.obj lp.rows lp.bnds y x v hlen hd hx.1 hx.2
    unfold dualBound at hd
    simp only [hred] at hd
    cases hs : bndSum d lp.bnds with
    | none => simp [hs] at hd
    | some s =>
      simp [hs] at hd
      have h1 := reduce_tight x' (perturbRows lp.rows δ) lp.obj y d (w + dot y δ)
        (reduce_perturb lp.rows lp.obj y δ d w hred hδ) hrows
      have h2 := bndSum_tight d lp.bnds x' s hs hbnds
      have heq : dot lp.obj x' = dot lp.obj x + dot y δ := by
        have := hsub x' hx'
        linarith
      exact ⟨heq, fun x'' hx'' => by rw [heq]; exact hsub x'' hx''⟩

/-- the same for a perturbation of ONE right-hand side, `δ = t·eᵢ`: the optimal value moves by `yᵢ·t` — the price of row
`i` is the derivative of the optimal value in `bᵢ`. -/
theorem sensitivity_single_row_partial (lp : LP K) (x y d : List K) (w : K) (i : Nat) (yi t : K)
    (h : checkOptimal lp x y = true) (hylen : y.length = lp.rows.length) (hy : y[i]? = some yi)
    (hred : reduce lp.obj lp.rows y = some (d, w))
    (x' : List K) (hx' : LpFeasible (perturbLP lp (unitVec y.length i t)) x')
    (hrows : RowsTight (perturbRows lp.rows (unitVec y.length i t)) y x') (hbnds : BndsTight d lp.bnds x') :
    dot lp.obj x' = dot lp.obj x + yi * t ∧
    ∀ x'', LpFeasible (perturbLP lp (unitVec y.length i t)) x'' → dot lp.obj x' ≤ dot lp.obj x'' := by
  have := nondegenerate_sensitivity_partial lp x y (unitVec y.length i t) d w h
    (by rw [unitVec_length, hylen]) hred x' hx' hrows hbnds
  rw [dot_unitVec y i yi t hy] at this
  exact this

/-- COMPLEMENTARY SLACKNESS: in a certified optimal pair an INACTIVE row (`a·x ≠ b`) has multiplier 0 — inactive rows
report a zero price. -/
theorem inactive_row_zero_price (lp : LP K) (x y : List K) (h : checkOptimal lp x y = true)
    (i : Nat) (r : Row K) (yi : K) (hr : lp.rows[i]? = some r) (hy : y[i]? = some yi)
    (hin : dot r.coeffs x ≠ r.rhs) : yi = 0 := by
  unfold checkOptimal at h
  simp only [Bool.and_eq_true, decide_eq_true_eq] at h
  obtain ⟨⟨hlen, hfeas⟩, hb⟩ := h
  have hx := lpFeasible_sound hfeas
  cases hd : dualBound lp.obj lp.rows lp.bnds y with
  | none => simp [hd] at hb
  | some v =>
    simp [hd] at hb
    unfold dualBound at hd
    cases hred : reduce lp.obj lp.rows y with
    | none => simp [hred] at hd
    | some p =>
      obtain ⟨d, w⟩ := p
      cases hs : bndSum d lp.bnds with
      | none => simp [hred, hs] at hd
      | some s =>
        simp [hred, hs] at hd
        subst hd
        have hterm := reduce_term_le x lp.rows lp.obj y d w hred hlen hx.1 i r yi hr hy
        have hsum := bndSum_spec d lp.bnds x s hs hx.2
        have hrow := (hx.1 r (List.mem_of_getElem? hr)).2
        have hle : yi * (dot r.coeffs x - r.rhs) ≤ 0 := by linarith [hterm.2]
        have hge := signOk_mul hterm.1 hrow
        have hz : yi * (dot r.coeffs x - r.rhs) = 0 := le_antisymm hle (by linarith)
        rcases mul_eq_zero.mp hz with h0 | h0
        · exact h0
        · exact absurd (sub_eq_zero.mp h0) hin

/-- SIGN CONVENTION of the prices in the user's sense, for every row of a certified optimal pair:

| sense | `≤` row | `≥` row | `=` row |
|-------|---------|---------|---------|
| min   | π ≤ 0   | π ≥ 0   | any     |
| max   | π ≥ 0   | π ≤ 0   | any     |

(relaxing a `≤` row can only lower a minimum / raise a maximum). -/
theorem sign_convention (p : Prob K) (x y : List K) (hne : p.sense ≠ .satisfy)
    (h : checkOptimal p.relax x y = true)
    (i : Nat) (r : Row K) (π : K) (hr : p.rows[i]? = some r) (hπ : (userPrices p.sense y)[i]? = some π) :
    match p.sense, r.rel with
    | .max, .le => 0 ≤ π
    | .max, .ge => π ≤ 0
    | _, .le => π ≤ 0
    | _, .ge => 0 ≤ π
    | _, .eq => True := by
  unfold checkOptimal at h
  simp only [Bool.and_eq_true, decide_eq_true_eq] at h
  obtain ⟨⟨hlen, hfeas⟩, hb⟩ := h
  have hx := lpFeasible_sound hfeas
  cases hd : dualBound p.relax.obj p.relax.rows p.relax.bnds y with
  | none => simp [hd] at hb
  | some v =>
    unfold dualBound at hd
    cases hred : reduce p.relax.obj p.relax.rows y with
    | none => simp [hred] at hd
    | some q =>
      obtain ⟨d, w⟩ := q
      -- the multiplier of row i in the minimisation form
      have key : ∀ yi, y[i]? = some yi → signOk r.rel yi = true := fun yi hy =>
        (reduce_term_le x p.relax.rows p.relax.obj y d w hred hlen hx.1 i r yi hr hy).1
      cases hs : p.sense with
      | satisfy => exact absurd hs hne
      | min =>
        simp only [userPrices, hs] at hπ
        have := key π hπ
        cases hrel : r.rel <;> simp [signOk, hrel] at this ⊢ <;> exact this
      | max =>
        simp only [userPrices, hs, List.getElem?_map, Option.map_eq_some_iff] at hπ
        obtain ⟨yi, hyi, rfl⟩ := hπ
        have := key yi hyi
        cases hrel : r.rel <;> simp [signOk, hrel] at this ⊢ <;> linarith

omit [FloorRing K] in
/-- the scale good_lp's Clarabel bridge applies to Clarabel's cone multiplier `z ≥ 0` of an inequality row
(`shadow = z · (−objective_factor) · (±1 by relation)`, good_lp `solvers/clarabel.rs`; the convention rooc relies on
when it forwards `dual.dual(reference)` unchanged) lands in the same sign table. -/
theorem good_lp_scale_matches_convention (z : K) (hz : 0 ≤ z) (isMax isGe : Bool) :
    let objFactor : K := if isMax then -1 else 1
    let rhsScale : K := if isGe then -1 else 1
    let π := z * (-objFactor * rhsScale)
    match isMax, isGe with
    | true, false => 0 ≤ π      -- max, ≤
    | true, true => π ≤ 0       -- max, ≥
    | false, false => π ≤ 0     -- min, ≤
    | false, true => 0 ≤ π      -- min, ≥
    := by
  cases isMax <;> cases isGe <;> simp <;> linarith

/-! ### rooc's own part: `collect_good_lp_duals` -/

omit [Field K] [LinearOrder K] [IsStrictOrderedRing K] [FloorRing K] in
/-- unnamed rows report no shadow price. -/
theorem unnamed_rows_absent (duals : List (String × Ext K)) :
    ∀ p ∈ collectDuals duals, p.1 ≠ "" := by
  intro p hp
  unfold collectDuals at hp
  obtain ⟨q, hq, he⟩ := imCollect_key_mem _ p hp
  have := (List.mem_filter.mp hq).2
  rw [← he]
  intro hempty
  simp [hempty] at this

omit [Field K] [LinearOrder K] [IsStrictOrderedRing K] [FloorRing K] in
/-- a named row reports the dual of (the last row carrying) its name: with distinct names, its own. -/
theorem named_row_price (duals : List (String × Ext K)) (name : String) (hn : name ≠ "") :
    imGet (collectDuals duals) name = lastVal duals name := by
  unfold collectDuals
  rw [imCollect_get]
  induction duals with
  | nil => simp [lastVal]
  | cons d ds ih =>
    by_cases hd : d.1.isEmpty
    · have hne : ¬ (d.1 == name) = true := by
        intro he
        have : d.1 = name := by simpa using he
        rw [this] at hd
        exact hn (by simpa [String.isEmpty_iff] using hd)
      simp only [List.filter_cons, hd, Bool.not_true, Bool.false_eq_true, if_false, lastVal, hne, ih]
      simp
    · simp only [List.filter_cons, hd, Bool.not_false, if_true, lastVal, ih]

/-! ### non-vacuity -/

/-- `min x  s.t.  x ≥ 1` (multiplier 1) — the pair used in C05; here with the inactive row `x ≤ 5` (multiplier 0). -/
example : @checkOptimal ℚ (fieldExact ℚ) ⟨[1], [⟨[1], .ge, 1⟩, ⟨[1], .le, 5⟩], [⟨none, none⟩]⟩ [1] [1, 0] = true := by
  simp [checkOptimal, lpFeasible, rowHolds, bndsHold, bndHolds, loHolds, hiHolds, dualBound, reduce, signOk,
    rowSub, bndSum, bndTerm]

section sens_example
attribute [local instance 2000] fieldExact
/-- `nondegenerate_sensitivity_partial` / `sensitivity_single_row_partial`: `min x s.t. x ≥ 1` (multiplier 1), right-hand
side moved by `t`: the point `x' = 1 + t` is feasible, the row stays active, the reduced cost is 0 — all hypotheses
hold, for every `t`. -/
example (t : ℚ) :
    reduce ([1] : List ℚ) [⟨[1], .ge, 1⟩] [1] = some ([0], 1) ∧
    LpFeasible (perturbLP (⟨[1], [⟨[1], .ge, 1⟩], [⟨none, none⟩]⟩ : LP ℚ) (unitVec 1 0 t)) [1 + t] ∧
    RowsTight (perturbRows ([⟨[1], .ge, 1⟩] : List (Row ℚ)) (unitVec 1 0 t)) [1] [1 + t] ∧
    BndsTight ([0] : List ℚ) [⟨none, none⟩] [1 + t] := by
  refine ⟨by simp [reduce, signOk, rowSub], ?_, by simp [RowsTight, perturbRows, unitVec], by simp [BndsTight]⟩
  simp [LpFeasible, perturbLP, perturbRows, unitVec, RowSat, BndsSat, BndSat]
end sens_example

end Rooc.Props.C20
