/- C20 — property theorems only (helper lemmas live in `Rooc/Proofs`). -/
namespace Rooc.Props.C20
end Rooc.Props.C20
