/- C18 — property theorems only (helper lemmas live in `Rooc/Proofs`). -/
namespace Rooc.Props.C18
end Rooc.Props.C18
