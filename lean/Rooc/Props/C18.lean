/-
C18 — the compiler is total.  PROPERTY THEOREMS ONLY, about the modelled operator / cast / range core
(`Rooc/Pre/Prim.lean`, `Rooc/Pre/Types.lean`, `Rooc/Pre/Expand.lean`; the models are diffed against the
Rust on every run).  `OpErr.panic` marks exactly the places where the Rust would panic; the theorems
say where it is unreachable, and exhibit the one place where it is not.
-/
import Rooc.Pre.Prim
import Rooc.Pre.Types
import Rooc.Pre.Expand
import Rooc.Proofs.Field
import Rooc.Proofs.Pre
import Rooc.Proofs.Iter
namespace Rooc.Props.C18
set_option linter.unusedSectionVars false
open Rooc Rooc.Pre Rooc.Proofs.Pre

section generic
variable {α : Type} [Arith α]

/-! ### binary operators never panic -/

private theorem checkedDiv_ne_panic (a b : α) : checkedDiv a b ≠ .error .panic := by
  unfold checkedDiv; split <;> simp
private theorem floatArith_ne_panic (op : BinOp) (a b : α) : floatArith op a b ≠ .error .panic := by
  unfold floatArith; cases op <;> simp [checkedDiv_ne_panic]
private theorem ofI64_ne_panic (r : Option Int) : (ofI64 r : Res α) ≠ .error .panic := by
  unfold ofI64; cases r <;> simp
private theorem ofU64_ne_panic (r : Option Nat) : (ofU64 r : Res α) ≠ .error .panic := by
  unfold ofU64; cases r <;> simp

private theorem applyBinNumber_ne_panic (x : α) (op : BinOp) (b : Prim α) : applyBinNumber x op b ≠ .error .panic := by
  unfold applyBinNumber; cases b <;> simp [floatArith_ne_panic]

/-- `apply_binary_op` is panic-free for ALL operand values of ALL kinds (every integer operation is
`checked_*`, every division goes through `checked_div`). -/
theorem no_panic_applyBinary (a b : Prim α) (op : BinOp) : applyBinary a op b ≠ .error .panic := by
  cases a with
  | number x => simpa [applyBinary] using applyBinNumber_ne_panic x op b
  | boolean x =>
    simp only [applyBinary, applyBinBoolean]
    split
    · cases b <;> cases op <;> simp
    · exact applyBinNumber_ne_panic _ op b
  | string s => simp only [applyBinary, applyBinString]; cases b <;> cases op <;> simp
  | integer i =>
    simp only [applyBinary, applyBinInteger]
    cases b <;> cases op <;> simp [floatArith_ne_panic, ofI64_ne_panic, checkedDiv_ne_panic]
  | pint u =>
    simp only [applyBinary, applyBinPint]
    cases b <;> cases op <;> simp [floatArith_ne_panic, ofI64_ne_panic, ofU64_ne_panic, checkedDiv_ne_panic]
  | other k => cases k <;> simp [applyBinary]

example : applyBinary (.integer i64Max : Prim α) .add (.integer 1) = .error .overflow := by
  simp [applyBinary, applyBinInteger, ofI64, checkedI64, inI64, i64Max, i64Min]

/-! ### unary minus: panic-free since /repo 964974c (`checked_neg`) -/

/-- `apply_unary_op` is panic-free for ALL operands (FULL since the repair; before it the statement
was partial, see `applyUnaryUnchecked_panic_iff`). -/
theorem no_panic_applyUnary (op : UnOp) (a : Prim α) : applyUnary op a ≠ .error .panic := by
  cases a with
  | integer i => cases op <;> simp [applyUnary, ofI64_ne_panic]
  | pint u => cases op <;> simp [applyUnary, ofI64_ne_panic]
  | other k => cases k <;> cases op <;> simp [applyUnary]
  | _ => cases op <;> simp [applyUnary]

/-- the overflow is now a structured error -/
example : applyUnary .neg (.integer (-9223372036854775808) : Prim α) = .error .overflow := by
  simp [applyUnary, ofI64, checkedI64, inI64, i64Min, i64Max]
example : applyUnary .neg (.pint 9223372036854775808 : Prim α) = .ok (.integer (-9223372036854775808)) := by
  simp [applyUnary, ofI64, checkedI64, inI64, i64Min, i64Max]
example : applyUnary .neg (.pint 9223372036854775809 : Prim α) = .error .overflow := by
  simp [applyUnary, ofI64, checkedI64, inI64, i64Min, i64Max]

/-- exact negation: `-(i)` when it fits `i64`, the `Overflow` error otherwise (no silent wrap of values ≥ 2^63 any more) -/
theorem neg_exact_integer (i : Int) :
    applyUnary .neg (.integer i : Prim α) = if inI64 (-i) then .ok (.integer (-i)) else .error .overflow := by
  by_cases h : inI64 (-i) = true <;> simp [applyUnary, ofI64, checkedI64, h]
theorem neg_exact_pint (u : Nat) :
    applyUnary .neg (.pint u : Prim α) = if inI64 (-(u : Int)) then .ok (.integer (-(u : Int))) else .error .overflow := by
  by_cases h : inI64 (-(u : Int)) = true <;> simp [applyUnary, ofI64, checkedI64, h]

/-! #### regression reference: the code before the repair -/

/-- exact characterisation of the panic of the OLD `apply_unary_op` (`-self`, `-(*self as i64)`) -/
theorem applyUnaryUnchecked_panic_iff (op : UnOp) (a : Prim α) :
    applyUnaryUnchecked op a = .error .panic ↔ (op = .neg ∧ negatesMin a = true) := by
  cases a with
  | integer i => cases op <;> simp [applyUnaryUnchecked, applyUnary, negatesMin]
  | pint u => cases op <;> simp [applyUnaryUnchecked, applyUnary, negatesMin]
  | other k => cases k <;> cases op <;> simp [applyUnaryUnchecked, applyUnary, negatesMin]
  | _ => cases op <;> simp [applyUnaryUnchecked, applyUnary, negatesMin]

/-- the defect that was found: `-(0 - 9223372036854775807 - 1)` … -/
theorem applyUnaryUnchecked_counterexample : applyUnaryUnchecked .neg (.integer (-9223372036854775808) : Prim α) = .error .panic := by
  simp [applyUnaryUnchecked, i64Min]
/-- … and the same overflow reached from a `PositiveInteger` (2^63, e.g. `len(A)^7` for a 512-element array) -/
theorem applyUnaryUnchecked_counterexample_u64 : applyUnaryUnchecked .neg (.pint 9223372036854775808 : Prim α) = .error .panic := by
  simp [applyUnaryUnchecked, u64AsI64, i64Min]

/-- for values that fit `u64`, the only `PositiveInteger` whose unchecked negation panicked is 2^63 -/
theorem negatesMin_pint_iff (u : Nat) (hu : u ≤ u64Max) : negatesMin (.pint u : Prim α) = true ↔ u = 9223372036854775808 := by
  simp only [negatesMin, u64AsI64, i64Min, u64Max] at *
  split <;> simp <;> omega

/-- the repair changed nothing on operands whose negation fits (`Integer` above `i64::MIN`,
`PositiveInteger` below 2^63) -/
theorem repair_agrees_integer (i : Int) (h1 : i64Min < i) (h2 : i ≤ i64Max) :
    applyUnary .neg (.integer i : Prim α) = applyUnaryUnchecked .neg (.integer i) := by
  have hne : i ≠ i64Min := by omega
  have hin : inI64 (-i) = true := by rw [inI64_iff]; simp only [i64Min, i64Max] at h1 h2; omega
  simp [applyUnaryUnchecked, applyUnary, ofI64, checkedI64, hin, hne]
theorem repair_agrees_pint (u : Nat) (h : u < 9223372036854775808) :
    applyUnary .neg (.pint u : Prim α) = applyUnaryUnchecked .neg (.pint u) := by
  have hc : u64AsI64 u = (u : Int) := by simp [u64AsI64, h]
  have hne : (u : Int) ≠ i64Min := by simp only [i64Min]; omega
  have hin : inI64 (-(u : Int)) = true := by rw [inI64_iff]; omega
  simp [applyUnaryUnchecked, applyUnary, ofI64, checkedI64, hin, hne, hc]

/-! ### checked arithmetic is exact, results stay in range -/

/-- `Integer + Integer`: the mathematical sum when it fits `i64`, the `Overflow` error otherwise -/
theorem integer_add_exact (a b : Int) :
    applyBinary (.integer a : Prim α) .add (.integer b) = if inI64 (a + b) then .ok (.integer (a + b)) else .error .overflow := by
  by_cases h : inI64 (a + b) = true <;> simp [applyBinary, applyBinInteger, ofI64, checkedI64, h]
theorem integer_mul_exact (a b : Int) :
    applyBinary (.integer a : Prim α) .mul (.integer b) = if inI64 (a * b) then .ok (.integer (a * b)) else .error .overflow := by
  by_cases h : inI64 (a * b) = true <;> simp [applyBinary, applyBinInteger, ofI64, checkedI64, h]
theorem pint_add_exact (a b : Nat) :
    applyBinary (.pint a : Prim α) .add (.pint b) = if a + b ≤ u64Max then .ok (.pint (a + b)) else .error .overflow := by
  have ht : ((a : Int) + (b : Int)).toNat = a + b := by omega
  by_cases h : a + b ≤ u64Max
  · have hin : inU64 ((a : Int) + (b : Int)) = true := by rw [inU64_iff]; simp only [u64Max] at h; omega
    simp [applyBinary, applyBinPint, ofU64, checkedU64, hin, h, ht]
  · have hin : inU64 ((a : Int) + (b : Int)) = false := by
      cases hc : inU64 ((a : Int) + (b : Int)) with
      | false => rfl
      | true => rw [inU64_iff] at hc; simp only [u64Max] at h; omega
    simp [applyBinary, applyBinPint, ofU64, checkedU64, hin, h]

/-- every successful result is representable (`i64` / `u64` range) -/
def OkWf (r : Res α) : Prop := ∀ v, r = .ok v → v.wf = true

private theorem okWf_error (e : OpErr) : OkWf (.error e : Res α) := by intro v h; simp at h
private theorem okWf_number (x : α) : OkWf (.ok (.number x) : Res α) := by intro v h; simp at h; subst h; rfl
private theorem okWf_boolean (x : Bool) : OkWf (.ok (.boolean x) : Res α) := by intro v h; simp at h; subst h; rfl
private theorem okWf_string (x : String) : OkWf (.ok (.string x) : Res α) := by intro v h; simp at h; subst h; rfl
private theorem okWf_checkedDiv (a b : α) : OkWf (checkedDiv a b) := by
  unfold checkedDiv; split
  · exact okWf_error _
  · exact okWf_number _
private theorem okWf_floatArith (op : BinOp) (a b : α) : OkWf (floatArith op a b) := by
  unfold floatArith; cases op <;> first | exact okWf_number _ | exact okWf_checkedDiv _ _ | exact okWf_error _
private theorem okWf_ofI64 (r : Int) : OkWf (ofI64 (checkedI64 r) : Res α) := by
  intro v h
  unfold ofI64 checkedI64 at h
  by_cases hr : inI64 r = true
  · simp [hr] at h; subst h; simpa [Prim.wf] using hr
  · simp [hr] at h
private theorem okWf_ofU64 (r : Int) : OkWf (ofU64 (checkedU64 r) : Res α) := by
  intro v h
  unfold ofU64 checkedU64 at h
  by_cases hr : inU64 r = true
  · simp [hr] at h; subst h
    rw [inU64_iff] at hr
    rw [pint_wf_iff]; omega
  · simp [hr] at h
private theorem okWf_applyBinNumber (x : α) (op : BinOp) (b : Prim α) : OkWf (applyBinNumber x op b) := by
  unfold applyBinNumber; cases b <;> first | exact okWf_floatArith _ _ _ | exact okWf_error _

/-- closure: whatever the operands, a successful `apply_binary_op` returns a value inside the `i64` /
`u64` range of its kind (and the result is the exact one: `exact_integer_results`). -/
theorem applyBinary_wf (a b : Prim α) (op : BinOp) (v : Prim α) (h : applyBinary a op b = .ok v) : v.wf = true := by
  suffices hs : OkWf (applyBinary a op b) from hs v h
  cases a with
  | number x => simpa [applyBinary] using okWf_applyBinNumber x op b
  | boolean x =>
    simp only [applyBinary, applyBinBoolean]
    split
    · cases b <;> cases op <;> first | exact okWf_boolean _ | exact okWf_error _
    · exact okWf_applyBinNumber _ op b
  | string s => simp only [applyBinary, applyBinString]; cases b <;> cases op <;> first | exact okWf_string _ | exact okWf_error _
  | integer i =>
    simp only [applyBinary, applyBinInteger]
    cases b <;> cases op <;> first | exact okWf_ofI64 _ | exact okWf_floatArith _ _ _ | exact okWf_checkedDiv _ _ | exact okWf_error _
  | pint u =>
    simp only [applyBinary, applyBinPint]
    cases b <;> cases op <;> first | exact okWf_ofI64 _ | exact okWf_ofU64 _ | exact okWf_floatArith _ _ _ | exact okWf_checkedDiv _ _ | exact okWf_error _
  | other k => cases k <;> exact okWf_error _

/-! ### integer results are EXACT (the `as i64` wrap is gone since 9844b94) -/

def intOp (op : BinOp) (x y : Int) : Option Int :=
  match op with | .add => some (x + y) | .sub => some (x - y) | .mul => some (x * y) | _ => none

/-- every `Integer` / `PositiveInteger` result of `+ - *` on integer-valued operands (`Integer`,
`PositiveInteger`, `Boolean` on the right) is the mathematical result; a value that does not fit is the
`Overflow` error, never a wrapped number.  No hypothesis on the size of the operands. -/
theorem exact_integer_results (a b r : Prim α) (op : BinOp) (x y e : Int)
    (ha : a = .integer x ∨ (∃ u : Nat, a = .pint u ∧ x = u)) (hb : b.intVal = some y) (he : intOp op x y = some e)
    (h : applyBinary a op b = .ok r) : r.intVal = some e := by
  rcases ha with rfl | ⟨u, rfl, rfl⟩
  · cases b <;> cases op <;>
      simp_all [applyBinary, applyBinInteger, Prim.intVal, intOp, ofI64, checkedI64, boolI] <;>
      (split at h <;> simp_all) <;> (subst h; simp [Prim.intVal]) <;> omega
  · cases b <;> cases op <;>
      simp_all [applyBinary, applyBinPint, Prim.intVal, intOp, ofI64, ofU64, checkedI64, checkedU64, boolI] <;>
      (split at h <;> simp_all) <;> (try (subst h; simp [Prim.intVal])) <;> (try omega)
    all_goals (rename_i hq; obtain ⟨h1, h2⟩ := hq; rw [inU64_iff] at h1; omega)

/-- … and conversely the operation only fails with `Overflow` when the exact result is outside both ranges
that the result kind could hold: a representable `i64` result of a mixed operation is always returned -/
theorem mixed_integer_complete (x : Int) (u : Nat) (op : BinOp) (e : Int)
    (he : intOp op x u = some e) (hfit : inI64 e = true) :
    applyBinary (.integer x : Prim α) op (.pint u) = .ok (.integer e) := by
  cases op <;> simp_all [applyBinary, applyBinInteger, intOp, ofI64, checkedI64]

/-! #### regression: the code before the repair -/

/-- BEFORE 9844b94 a `PositiveInteger` OPERAND at or above 2^63 was reinterpreted (`as i64`) before the
checked operation, so the returned integer could be mathematically wrong: 2^63 + 1 = -(2^63) + 1 (the
harness reports these as `silent-integer-wrap`; the inputs stay in the regression stream). -/
theorem u64_operand_wrap_counterexample :
    applyBinaryWrap (.pint 9223372036854775808 : Prim α) .add (.integer 1) = .ok (.integer (-9223372036854775807)) := by
  simp [applyBinaryWrap, applyBinPintWrap, u64AsI64, ofI64, checkedI64, inI64, i64Min, i64Max]

/-- the repair changed nothing as long as every `PositiveInteger` operand is below 2^63 -/
theorem repair_agrees_binary (a b : Prim α) (op : BinOp)
    (ha : ∀ u, a = .pint u → u < 9223372036854775808) (hb : ∀ u, b = .pint u → u < 9223372036854775808) :
    applyBinary a op b = applyBinaryWrap a op b := by
  cases a with
  | integer i =>
    cases b with
    | pint n =>
      have hn := hb n rfl
      cases op <;> simp [applyBinaryWrap, applyBinIntegerWrap, applyBinary, applyBinInteger, u64AsI64, hn]
    | _ => cases op <;> simp [applyBinaryWrap, applyBinIntegerWrap, applyBinary, applyBinInteger]
  | pint u =>
    have hu := ha u rfl
    cases b with
    | pint n =>
      have hn := hb n rfl
      cases op <;> simp [applyBinaryWrap, applyBinPintWrap, applyBinary, applyBinPint, u64AsI64, hn, hu]
    | _ => cases op <;> simp [applyBinaryWrap, applyBinPintWrap, applyBinary, applyBinPint, u64AsI64, hu]
  | _ => simp [applyBinaryWrap]

example : applyBinary (.pint 9223372036854775808 : Prim α) .add (.integer 1) = .error .overflow := by
  simp [applyBinary, applyBinPint, ofI64, checkedI64, inI64, i64Min, i64Max]
example : applyBinary (.integer (-1) : Prim α) .add (.pint 9223372036854775808) = .ok (.integer 9223372036854775807) := by
  simp [applyBinary, applyBinInteger, ofI64, checkedI64, inI64, i64Min, i64Max]

private theorem opFailure_bin_eq {c d : OpErr} (h : opFailure TErr.binOpError c = .binOpError d) : c = d := by
  cases c <;> simp_all [opFailure]
private theorem opFailure_un_eq {c d : OpErr} (h : opFailure TErr.unOpError c = .unOpError d) : c = d := by
  cases c <;> simp_all [opFailure]
private theorem opFailure_un_ne_bin (c d : OpErr) : opFailure TErr.unOpError c ≠ .binOpError d := by
  cases c <;> simp [opFailure]
private theorem opFailure_bin_ne_un (c d : OpErr) : opFailure TErr.binOpError c ≠ .unOpError d := by
  cases c <;> simp [opFailure]

/-- `as_primitive` on operator expressions never panics -/
theorem eval_binary_never_panics (e : PExp α) : e.eval ≠ .error (.binOpError .panic) := by
  induction e with
  | lit p => simp [PExp.eval]
  | un op e ih =>
    simp only [PExp.eval]
    split
    · rename_i err h; intro hc; simp at hc; subst hc; exact ih h
    · split
      · simp
      · intro h; simp at h; exact opFailure_un_ne_bin _ _ h
  | bin op a b iha ihb =>
    simp only [PExp.eval]
    split
    · rename_i err h; intro hc; simp at hc; subst hc; exact iha h
    · split
      · rename_i err h; intro hc; simp at hc; subst hc; exact ihb h
      · split
        · simp
        · rename_i c hc; intro h; simp at h; have := opFailure_bin_eq h; subst this; exact no_panic_applyBinary _ _ _ hc

theorem eval_unary_never_panics (e : PExp α) : e.eval ≠ .error (.unOpError .panic) := by
  induction e with
  | lit p => simp [PExp.eval]
  | un op e ih =>
    simp only [PExp.eval]
    split
    · rename_i err h; intro hc; simp at hc; subst hc; exact ih h
    · split
      · simp
      · rename_i c hc; intro h; simp at h; have := opFailure_un_eq h; subst this; exact no_panic_applyUnary _ _ hc
  | bin op a b iha ihb =>
    simp only [PExp.eval]
    split
    · rename_i err h; intro hc; simp at hc; subst hc; exact iha h
    · split
      · rename_i err h; intro hc; simp at hc; subst hc; exact ihb h
      · split
        · simp
        · intro h; simp at h; exact opFailure_bin_ne_un _ _ h

end generic

/-! ### ranges: the allocation is the difference of two user numbers -/

/-- `range_size`: the number of elements `NumericRange::call` materialises — bounded by nothing but
the user's numbers (the hang / abort risk the harness exhibits with `0..100000000000`). -/
theorem range_size (lo hi : Int) (inclusive : Bool) :
    (rangeVals lo hi inclusive).length = if inclusive then (hi - lo + 1).toNat else (hi - lo).toNat := by
  simp [rangeVals, intsFrom_length]

example : (rangeVals 0 100000000000 false).length = 100000000000 := by rw [range_size]; rfl

/-- **output size of an expansion**: the number of terms a scoped aggregate / rows a quantified
constraint / variables a declaration expands to is exactly the product of the sizes of its iteration
sets (when these do not depend on outer iteration variables) — nothing else in the input makes the
compiled model grow. -/
theorem expansion_size {β : Type} (k : Env → Except IErr β) (its : List It) (P : Nat) (hP : iterProduct its = some P)
    (env : Env) (xs : List β) (h : iterate k its env = .ok xs) : xs.length = P := by
  simp only [iterate] at h
  cases he : envs its env with
  | error e => simp [he] at h
  | ok es =>
    simp [he] at h
    rw [Rooc.Proofs.Iter.mapE_length k es xs h, Rooc.Proofs.Iter.envs_length_prod its P hP env es he]

example : iterProduct [⟨["i"], .range (.lit 0) (.lit 3) false⟩, ⟨["a", "b"], .zip2 [1, 2] [3, 4, 5]⟩] = some 6 := by decide

/-! ### numeric casts stay inside the target type (exact arithmetic with IEEE special values) -/
section casts
variable {K : Type} [Field K] [LinearOrder K] [IsStrictOrderedRing K] [FloorRing K]

/-- the integer cast of an integer-valued primitive is EXACT: the value itself, or an error (full since /repo
2f900bf; before, see `integer_cast_wrap_counterexample`) -/
theorem integer_cast_exact (p : Prim (Ext K)) (x i : Int) (hx : p = .integer x ∨ (∃ u : Nat, p = .pint u ∧ x = u))
    (h : asIntegerCast p = .ok i) : i = x := by
  rcases hx with rfl | ⟨u, rfl, rfl⟩
  · simpa [asIntegerCast] using h.symm
  · simp only [asIntegerCast] at h
    split at h
    · simpa using h.symm
    · simp at h

/-- regression: BEFORE 2f900bf a `PositiveInteger` from 2^63 on was reinterpreted (`as i64`), so `0..n` with
`n = 2^63` (reachable as `len(A)^7` for 512 elements) was an EMPTY range instead of an error -/
theorem integer_cast_wrap_counterexample :
    asIntegerCastWrap (.pint 9223372036854775808 : Prim (Ext K)) = .ok (-9223372036854775808) := by
  simp [asIntegerCastWrap, u64AsI64]

/-- the repair changed nothing for values below 2^63 -/
theorem integer_cast_repair_agrees (p : Prim (Ext K)) (hp : ∀ u, p = .pint u → u < 9223372036854775808) :
    asIntegerCast p = asIntegerCastWrap p := by
  cases p with
  | pint u => have := hp u rfl; simp [asIntegerCastWrap, asIntegerCast, u64AsI64, this]
  | _ => rfl

/-- `as_integer_cast` returns an `i64` (`n as i64` on a `Number` saturates) -/
theorem asIntegerCast_in_range (p : Prim (Ext K)) (hwf : p.wf = true) (i : Int) (h : asIntegerCast p = .ok i) : inI64 i = true := by
  rw [inI64_iff]
  cases p with
  | integer n => simp [asIntegerCast] at h; subst h; simpa [Prim.wf, inI64_iff] using hwf
  | pint n =>
    simp only [asIntegerCast] at h
    split at h
    · simp at h; subst h; omega
    · simp at h
  | boolean b => simp [asIntegerCast, boolI] at h; subst h; cases b <;> simp
  | number x =>
    simp only [asIntegerCast] at h
    split at h
    · simp at h
    · simp at h; subst h
      exact toIntSat_range _ _ (by omega) (by omega) x
  | string s => simp [asIntegerCast] at h
  | other k => simp [asIntegerCast] at h

/-- `as_usize_cast` (`*n as usize`, saturating) returns a `u64` -/
theorem asUsizeCast_in_range (p : Prim (Ext K)) (hwf : p.wf = true) (n : Nat) (h : asUsizeCast p = .ok n) : n ≤ u64Max := by
  cases p with
  | pint m => simp [asUsizeCast] at h; subst h; rw [pint_wf_iff] at hwf; simpa [u64Max] using hwf
  | integer m =>
    simp only [asUsizeCast] at h
    split at h
    · simp at h
    · simp at h; subst h
      have := (inI64_iff m).mp (by simpa [Prim.wf] using hwf)
      simp only [u64Max]; omega
  | boolean b => simp [asUsizeCast] at h; subst h; cases b <;> simp [u64Max]
  | number x =>
    simp only [asUsizeCast] at h
    split at h
    · simp at h
    · simp at h; subst h
      have := toIntSat_range (K := K) 0 18446744073709551615 (by omega) (by omega) x
      simp only [ToU64.toU64, u64Max]; omega
  | string s => simp [asUsizeCast] at h
  | other k => simp [asUsizeCast] at h

example : asIntegerCast (.number (.pinf) : Prim (Ext K)) = .error .wrongArgument := by
  simp [asIntegerCast, floatNe, floatEq, fract, Arith.lt, Arith.abs, Arith.sub, Arith.ofInt, Arith.floor, Arith.ceil,
    Ext.lt, Ext.sub, Ext.add, Ext.neg, Ext.abs, nearZero, Arith.div, Ext.div]
end casts

end Rooc.Props.C18
