/- C02 — property theorems only (helper lemmas live in `Rooc/Proofs`). -/
namespace Rooc.Props.C02
end Rooc.Props.C02
