/-
C02 — Linearization preserves objective values and optima.  PROPERTY THEOREMS ONLY.
Same setting as `Rooc/Props/C01.lean` (see its header for the vocabulary and the proof stages).

FULL TARGET (stated here; only the parts that are PROVED appear below as declarations): under the hypotheses of
`c01`, for every source-feasible ρ with `eval ρ m.objective = some v`:
  * min : every extension ρ' of ρ (agreeing on the declared used variables) with `linFeasible lm ρ'` has
          `linObjective lm ρ' = some w` with `v ≤ w`, and some such extension attains `w = v`;
  * max : dually (`w ≤ v`, attained);   * satisfy : every feasible extension has `w = v`.
Consequently equal optimal values / optimal projections / infeasible-unbounded status.
-/
import Rooc.Proofs.LinC10
import Rooc.Proofs.LinExamples
import Rooc.Proofs.LinMain
import Rooc.Proofs.LinCounter
import Rooc.Proofs.LinBridgeCounter
import Rooc.Proofs.LinDExamples2
import Rooc.Proofs.LinOpt
import Rooc.Proofs.LinBridgeStatic
namespace Rooc.Props.C02
open Rooc Rooc.Lin Rooc.Sem Rooc.LinP

variable {K : Type} [Field K] [LinearOrder K] [IsStrictOrderedRing K] [FloorRing K]

/-- **C02 on purely affine models**: the linear objective (with its offset) IS the source objective, at every
assignment at which the source objective is defined (no auxiliaries, so nothing to optimise over). -/
theorem c02_affine {m : Model (Ext K)} {b : BoundsMap (Ext K)} {d : List (DomVar (Ext K))} {lm : LinModel (Ext K)}
    (h : linearizeWith m b d = .ok lm) (haff : AffineModel m d) :
    lm.optType = m.optType ∧
    ∀ (ρ : String → K) (v : K), eval ρ m.objective = some v → linObjective lm ρ = some v := by
  refine ⟨?_, fun ρ v hv => affine_objective flattenSound simplifySoundArith haff h ρ v hv⟩
  obtain ⟨_, _, h1, _⟩ := linearizeWith_affine flattenSound simplifySoundArith haff h
  exact h1

/-- non-vacuity of `c02_affine` (`min x s.t. x ≤ y`). -/
example : ∃ (m : Model (Ext K)) (b : BoundsMap (Ext K)) (d : List (DomVar (Ext K))) (lm : LinModel (Ext K)),
    linearizeWith m b d = .ok lm ∧ AffineModel m d ∧ ∀ ρ : String → K, ∃ v, eval ρ m.objective = some v := by
  obtain ⟨lm, h⟩ := exAffine_ok (K := K)
  exact ⟨exAffine, [], exAffine.domain, lm, h, exAffine_hyps.1, fun ρ => ⟨ρ "x", by simp [exAffine, eval]⟩⟩

/-- corollary in the shape of the full target: on an affine model every feasible "extension" has exactly the
source objective value (so the best one does, in either direction). -/
theorem c02_affine_best {m : Model (Ext K)} {b : BoundsMap (Ext K)} {d : List (DomVar (Ext K))} {lm : LinModel (Ext K)}
    (h : linearizeWith m b d = .ok lm) (haff : AffineModel m d)
    (ρ ρ' : String → K) (hag : ∀ v, inScope d v → ρ' v = ρ v) (v : K) (hv : eval ρ m.objective = some v) :
    linObjective lm ρ' = some v := by
  apply (c02_affine h haff).2
  rw [eval_congr m.objective (fun x hx => hag x (haff.obj.2 x hx))]
  exact hv

/-- **C02 on piecewise-linear models** (objective and constraints from literals, variables, `+ - * /`, unary
minus, `abs`, `min`, `max`; see `Rooc.Props.C01.c01_partial` for the hypotheses): for a source-feasible `ρ`
with objective value `v`,
* every auxiliary extension `ρ'` that is feasible for the linear model has a linear objective value `w` on the
  right side of `v` — `rel (objReq m) w v` is `v ≤ w` for `min`, `w ≤ v` for `max`, `w = v` for `satisfy` —
* and some feasible extension attains `w = v`.
So the best linear objective over the extensions, in the model's own direction, is the source objective. -/
theorem c02_partial {m : Model (Ext K)} {b : BoundsMap (Ext K)} {d : List (DomVar (Ext K))}
    {lm : LinModel (Ext K)} (h : linearizeWith m b d = .ok lm)
    (hm : FragModel true m d) (hdom : DomRel m d) (hbox : BoxEnforced b d)
    (ρ : String → K) (hs : srcFeasible m ρ = true) (v : K) (hv : eval ρ m.objective = some v) :
    (∀ ρ' : String → K, (∀ x, inScope d x → ρ' x = ρ x) → linFeasible lm ρ' = true →
        ∃ w, linObjective lm ρ' = some w ∧ rel (objReq m) w v) ∧
    (∃ ρ' : String → K, (∀ x, inScope d x → ρ' x = ρ x) ∧ linFeasible lm ρ' = true ∧
        linObjective lm ρ' = some v) :=
  pl_objective hm hdom hbox h ρ hs v hv

/-- non-vacuity with a real auxiliary and a source-feasible point: `min y s.t. abs{x} ≤ y`, `x ∈ [-1,2]`, at
`x = 0, y = 0` (objective 0). -/
example : ∃ (m : Model (Ext K)) (b : BoundsMap (Ext K)) (d : List (DomVar (Ext K))) (lm : LinModel (Ext K))
    (ρ : String → K) (v : K),
    linearizeWith m b d = .ok lm ∧ FragModel true m d ∧ DomRel m d ∧ BoxEnforced b d ∧
      srcFeasible m ρ = true ∧ eval ρ m.objective = some v := by
  obtain ⟨lm, h⟩ := exAbs_ok (K := K)
  refine ⟨exAbs, exAbsBounds, exAbs.domain, lm, fun _ => 0, 0, h, exAbs_hyps.1, exAbs_hyps.2.1, exAbs_hyps.2.2, ?_, ?_⟩
  · simp [srcFeasible, exAbs, constraintHolds, eval, kabs, cmpK, inDomain, geExt, leExt]
  · simp [exAbs, eval]

/-- the requirement chosen for the objective, spelled out. -/
theorem objReq_cases (m : Model (Ext K)) (w v : K) :
    rel (objReq m) w v ↔
      match m.optType with
      | .min => v ≤ w
      | .max => w ≤ v
      | .satisfy => w = v := by
  unfold objReq
  cases m.optType <;> simp [rel]

/-- Consequence: equal optimal values for a minimisation model — `v` is the least source objective over
source-feasible points iff it is the least linear objective over linear-feasible points (attained on both sides). -/
theorem c02_min_optimum_partial {m : Model (Ext K)} {b : BoundsMap (Ext K)} {d : List (DomVar (Ext K))}
    {lm : LinModel (Ext K)} (h : linearizeWith m b d = .ok lm)
    (hm : FragModel true m d) (hdom : DomRel m d) (hbox : BoxEnforced b d) (hmin : m.optType = .min)
    (ρ : String → K) (hs : srcFeasible m ρ = true) (v : K) (hv : eval ρ m.objective = some v)
    (hopt : ∀ ρ₂ : String → K, srcFeasible m ρ₂ = true → ∀ v₂, eval ρ₂ m.objective = some v₂ → v ≤ v₂) :
    (∃ ρ' : String → K, linFeasible lm ρ' = true ∧ linObjective lm ρ' = some v) ∧
    (∀ ρ'' : String → K, linFeasible lm ρ'' = true → ∀ w, linObjective lm ρ'' = some w → v ≤ w) := by
  obtain ⟨_, ρ', _, hf, ho⟩ := c02_partial h hm hdom hbox ρ hs v hv
  refine ⟨⟨ρ', hf, ho⟩, ?_⟩
  intro ρ'' hf'' w hw
  -- `ρ''` is an extension of itself; its projection is source-feasible
  have hsrc : srcFeasible m ρ'' = true :=
    (pl_feasible_iff hm hdom hbox h ρ'').mpr ⟨ρ'', fun _ _ => rfl, hf''⟩
  obtain ⟨v₂, hv₂⟩ := hm.objDefined ρ''
  obtain ⟨hall, _⟩ := c02_partial h hm hdom hbox ρ'' hsrc v₂ hv₂
  obtain ⟨w', hw', hrel⟩ := hall ρ'' (fun _ _ => rfl) hf''
  rw [hw] at hw'; cases hw'
  have := (objReq_cases m w v₂).mp hrel
  rw [hmin] at this
  exact le_trans (hopt ρ'' hsrc v₂ hv₂) this

/-- non-vacuity of `c02_partial`. -/
example : ∃ (m : Model (Ext K)) (b : BoundsMap (Ext K)) (d : List (DomVar (Ext K))) (lm : LinModel (Ext K))
    (ρ : String → K) (v : K),
    linearizeWith m b d = .ok lm ∧ FragModel true m d ∧ DomRel m d ∧ BoxEnforced b d ∧
      srcFeasible m ρ = true ∧ eval ρ m.objective = some v := by
  obtain ⟨lm, h⟩ := exAffine_ok (K := K)
  obtain ⟨haff, hdef, hdom⟩ := exAffine_hyps (K := K)
  refine ⟨exAffine, [], exAffine.domain, lm, fun _ => 0, 0, h, ⟨FG_of_AG haff.obj, ?_, ?_⟩, hdom, ?_, ?_, ?_⟩
  · intro ρ; exact ⟨ρ "x", by simp [exAffine, eval]⟩
  · intro c hc
    exact ⟨(haff.cons c hc).notAssert, FG_of_AG (haff.cons c hc).lhs, FG_of_AG (haff.cons c hc).rhs, hdef c hc⟩
  · intro ρ _ n bd _ hl; simp [lookupB] at hl
  · simp [srcFeasible, exAffine, constraintHolds, eval, cmpK, inDomain, geExt, leExt]
  · simp [exAffine, eval]

/-! ## The bridge — C02 for the whole pipeline `Compile.linearize m tol maxSteps`
(vocabulary: `DeclOK`, `pipelineAnalyzer`, `IntRangesInBox`, `NoIntegerVars` — see `Rooc/Props/C01.lean`, section
"The bridge"; `DomRel` and `BoxEnforced` are discharged from C07/C10 for what the pipeline computes). -/

open Rooc.BoundsProofs in
/-- **C02 for the whole pipeline, piecewise-linear models**, every tolerance `0 ≤ t < 1`, every step limit: for a
source-feasible `ρ` with objective value `v`, every feasible auxiliary extension has a linear objective on the
right side of `v` (`rel (objReq m) w v`, see `objReq_cases`), and some feasible extension attains `v`.
`_partial`: the fragment only — `IntRangesInBox` is discharged for the computed analyzer state since fix b9d407a
(`Rooc.LinP.enforceable_int_ranges_in_box`; `Rooc.Props.C01.c01_int_tolerance_counterexample` shows what the unrounded box
allowed: linear optimum 5, source optimum 4). -/
theorem c02_compile_partial {m : Model (Ext K)} {t : K} (ht : 0 ≤ t) {maxSteps : Nat} {lm : LinModel (Ext K)}
    (h : Compile.linearize m (.fin t) maxSteps = .ok lm)
    (hm : FragModel true m m.domain) (hok : DeclOK m.domain)
    (ht1 : t < 1)
    (ρ : String → K) (hs : srcFeasible m ρ = true) (v : K) (hv : eval ρ m.objective = some v) :
    (∀ ρ' : String → K, (∀ x, inScope m.domain x → ρ' x = ρ x) → linFeasible lm ρ' = true →
        ∃ w, linObjective lm ρ' = some w ∧ rel (objReq m) w v) ∧
    (∃ ρ' : String → K, (∀ x, inScope m.domain x → ρ' x = ρ x) ∧ linFeasible lm ρ' = true ∧
        linObjective lm ρ' = some v) :=
  compile_objective ht h hm hok (Or.inl ht1) ρ hs v hv

/-- the same for models that declare no `IntegerRange` variable: no hypothesis on computed data. -/
theorem c02_compile_noint_partial {m : Model (Ext K)} {t : K} (ht : 0 ≤ t) {maxSteps : Nat} {lm : LinModel (Ext K)}
    (h : Compile.linearize m (.fin t) maxSteps = .ok lm)
    (hm : FragModel true m m.domain) (hok : DeclOK m.domain) (hni : NoIntegerVars m.domain)
    (ρ : String → K) (hs : srcFeasible m ρ = true) (v : K) (hv : eval ρ m.objective = some v) :
    (∀ ρ' : String → K, (∀ x, inScope m.domain x → ρ' x = ρ x) → linFeasible lm ρ' = true →
        ∃ w, linObjective lm ρ' = some w ∧ rel (objReq m) w v) ∧
    (∃ ρ' : String → K, (∀ x, inScope m.domain x → ρ' x = ρ x) ∧ linFeasible lm ρ' = true ∧
        linObjective lm ρ' = some v) :=
  compile_objective ht h hm hok (Or.inr hni) ρ hs v hv

/-- Consequence for the whole pipeline: equal optimal values of a minimisation model (attained on both sides). -/
theorem c02_compile_min_optimum_partial {m : Model (Ext K)} {t : K} (ht : 0 ≤ t) {maxSteps : Nat}
    {lm : LinModel (Ext K)} (h : Compile.linearize m (.fin t) maxSteps = .ok lm)
    (hm : FragModel true m m.domain) (hok : Rooc.LinP.DeclOK m.domain)
    (ht1 : t < 1)
    (hmin : m.optType = .min)
    (ρ : String → K) (hs : srcFeasible m ρ = true) (v : K) (hv : eval ρ m.objective = some v)
    (hopt : ∀ ρ₂ : String → K, srcFeasible m ρ₂ = true → ∀ v₂, eval ρ₂ m.objective = some v₂ → v ≤ v₂) :
    (∃ ρ' : String → K, linFeasible lm ρ' = true ∧ linObjective lm ρ' = some v) ∧
    (∀ ρ'' : String → K, linFeasible lm ρ'' = true → ∀ w, linObjective lm ρ'' = some w → v ≤ w) := by
  obtain ⟨_, an, han, hlin⟩ := (compile_ok_iff m _ maxSteps lm).mp h
  obtain ⟨hdom, hbox⟩ := pipeline_hyps ht maxSteps hm hok han (Or.inl ht1)
  exact c02_min_optimum_partial hlin (fragModel_applyToDomain an hm) hdom hbox hmin ρ hs v hv hopt

/-- non-vacuity through the pipeline with a real auxiliary and a source-feasible point (step limit 0, every
tolerance): `min y s.t. abs{x} ≤ y`, `x ∈ [-1, 2]` at `x = y = 0`. -/
example (t : K) : ∃ (m : Model (Ext K)) (lm : LinModel (Ext K)) (ρ : String → K) (v : K),
    Compile.linearize m (.fin t) 0 = .ok lm ∧ FragModel true m m.domain ∧ DeclOK m.domain ∧
      NoIntegerVars m.domain ∧ srcFeasible m ρ = true ∧ eval ρ m.objective = some v := by
  obtain ⟨lm, h⟩ := exAbs_compile (K := K) (.fin t)
  refine ⟨exAbs, lm, fun _ => 0, 0, h, exAbs_hyps.1, exAbs_declOK, exAbs_noInt, ?_, ?_⟩
  · simp [srcFeasible, exAbs, constraintHolds, eval, kabs, cmpK, inDomain, geExt, leExt]
  · simp [exAbs, eval]

/-- non-vacuity for every tolerance AND every step limit (`min x s.t. x ≤ y`). -/
example (t : K) (n : Nat) : ∃ (m : Model (Ext K)) (lm : LinModel (Ext K)) (ρ : String → K) (v : K),
    Compile.linearize m (.fin t) n = .ok lm ∧ FragModel true m m.domain ∧ DeclOK m.domain ∧
      NoIntegerVars m.domain ∧ srcFeasible m ρ = true ∧ eval ρ m.objective = some v := by
  obtain ⟨lm, h⟩ := exAffine_compile (K := K) (.fin t) n
  obtain ⟨haff, hdef, _⟩ := exAffine_hyps (K := K)
  refine ⟨exAffine, lm, fun _ => 0, 0, h, ⟨FG_of_AG haff.obj, ?_, ?_⟩, exAffine_declOK, exAffine_noInt, ?_, ?_⟩
  · intro ρ; exact ⟨ρ "x", by simp [exAffine, eval]⟩
  · intro c hc
    exact ⟨(haff.cons c hc).notAssert, FG_of_AG (haff.cons c hc).lhs, FG_of_AG (haff.cons c hc).rhs, hdef c hc⟩
  · simp [srcFeasible, exAffine, constraintHolds, eval, cmpK, inDomain, geExt, leExt]
  · simp [exAffine, eval]

/-! ## Stage D end to end — C02 on models with logic values and bare assertions
(vocabulary: `LogicModel` — the STATIC contract, definedness is a consequence of the successful compilation —,
`GoodS`, `AssertShape`: see `Rooc/Props/C01.lean`, section "Stage D end to end"). -/

/-- **C02 for models with logic values and bare assertions**: for every model that compiles and satisfies the
contract, and every source-feasible `ρ` with objective value `v`: every feasible auxiliary extension has a
linear objective on the right side of `v`, and some feasible extension attains `v`.  `_partial`: as
`Rooc.Props.C01.c01_logic_partial`. -/
theorem c02_logic_partial {m : Model (Ext K)} {b : BoundsMap (Ext K)} {d : List (DomVar (Ext K))}
    {lm : LinModel (Ext K)} (h : linearizeWith m b d = .ok lm)
    (hm : LogicModel m d) (hdom : DomRel m d) (hbox : BoxEnforced b d)
    (ρ : String → K) (hs : srcFeasible m ρ = true) (v : K) (hv : eval ρ m.objective = some v) :
    (∀ ρ' : String → K, (∀ x, inScope d x → ρ' x = ρ x) → linFeasible lm ρ' = true →
        ∃ w, linObjective lm ρ' = some w ∧ rel (objReq m) w v) ∧
    (∃ ρ' : String → K, (∀ x, inScope d x → ρ' x = ρ x) ∧ linFeasible lm ρ' = true ∧
        linObjective lm ρ' = some v) :=
  logic_objective hm hdom hbox h ρ hs v hv

open Rooc.BoundsProofs in
/-- **C02 for the whole pipeline `Compile.linearize`, models with logic.**  The contract is `StaticModel m` (declared
used variables, finite literals): see `Rooc.Props.C01.c01_compile_logic_partial`. -/
theorem c02_compile_logic_partial {m : Model (Ext K)} {t : K} (ht : 0 ≤ t) {maxSteps : Nat} {lm : LinModel (Ext K)}
    (h : Compile.linearize m (.fin t) maxSteps = .ok lm)
    (hm : StaticModel m) (hsh : AssertShape m) (hok : DeclOK m.domain)
    (ht1 : t < 1 ∨ NoIntVars m.domain)
    (ρ : String → K) (hs : srcFeasible m ρ = true) (v : K) (hv : eval ρ m.objective = some v) :
    (∀ ρ' : String → K, (∀ x, inScope m.domain x → ρ' x = ρ x) → linFeasible lm ρ' = true →
        ∃ w, linObjective lm ρ' = some w ∧ rel (objReq m) w v) ∧
    (∃ ρ' : String → K, (∀ x, inScope m.domain x → ρ' x = ρ x) ∧ linFeasible lm ρ' = true ∧
        linObjective lm ρ' = some v) :=
  compile_objective_static ht h hm hsh hok ht1 ρ hs v hv

/-- non-vacuity with real logic and a source-feasible point: `min a s.t. assert (a or b)` at `a = 0, b = 1`. -/
example : ∃ (m : Model (Ext K)) (b : BoundsMap (Ext K)) (d : List (DomVar (Ext K))) (lm : LinModel (Ext K))
    (ρ : String → K) (v : K),
    linearizeWith m b d = .ok lm ∧ LogicModel m d ∧ DomRel m d ∧ BoxEnforced b d ∧
      srcFeasible m ρ = true ∧ eval ρ m.objective = some v := by
  obtain ⟨lm, h⟩ := exOr_ok (K := K)
  exact ⟨exOr, [], exOr.domain, lm, _, 0, h, exOr_logicModel, exOr_domRel, exOr_box, exOr_feasible.1, exOr_feasible.2⟩

/-! ## C02 at full strength — optimal values coincide

`srcValues m` / `linValues lm` = the objective values attained on the feasible set of the source / linear model
(`Rooc/Proofs/LinOpt.lean`).  From C01 and the objective agreement: for `min` the two sets have the same lower
bounds, one has a least element iff the other has, with the same value (the optimum is attained iff attained),
the same infimum, and are unbounded below together; dually for `max`; for `satisfy` the two sets are EQUAL;
and both feasible sets are empty together.  Stated for the whole pipeline; the same holds for `linearizeWith`
under `DomRel`/`BoxEnforced` (`objLink_of_logic`). -/

section Optimum
open Rooc.BoundsProofs
variable {m : Model (Ext K)} {t : K} {maxSteps : Nat} {lm : LinModel (Ext K)}

/-- feasibility status: the source model has a feasible point iff the compiled model has. -/
theorem c02_feasibility_status (ht : 0 ≤ t) (h : Compile.linearize m (.fin t) maxSteps = .ok lm)
    (hm : StaticModel m) (hsh : AssertShape m) (hok : DeclOK m.domain) (ht1 : t < 1 ∨ NoIntVars m.domain) :
    (∃ ρ : String → K, srcFeasible m ρ = true) ↔ ∃ ρ' : String → K, linFeasible lm ρ' = true :=
  (objLink_of_compile_static ht h hm hsh hok ht1).empty_iff

/-- **minimisation**: same lower bounds of the attainable objective values (so: unbounded together), the minimum
is attained by one model iff by the other and then has the same value, and the infimum is the same. -/
theorem c02_min_optimum (ht : 0 ≤ t) (h : Compile.linearize m (.fin t) maxSteps = .ok lm)
    (hm : StaticModel m) (hsh : AssertShape m) (hok : DeclOK m.domain) (ht1 : t < 1 ∨ NoIntVars m.domain)
    (hmin : m.optType = .min) :
    lowerBounds (linValues lm) = lowerBounds (srcValues m) ∧
    (∀ v, IsLeast (linValues lm) v ↔ IsLeast (srcValues m) v) ∧
    (∀ c, IsGLB (linValues lm) c ↔ IsGLB (srcValues m) c) :=
  have L := objLink_of_compile_static ht h hm hsh hok ht1
  ⟨L.lowerBounds_eq hmin, L.isLeast_iff hmin, L.isGLB_iff hmin⟩

/-- **maximisation**, dually. -/
theorem c02_max_optimum (ht : 0 ≤ t) (h : Compile.linearize m (.fin t) maxSteps = .ok lm)
    (hm : StaticModel m) (hsh : AssertShape m) (hok : DeclOK m.domain) (ht1 : t < 1 ∨ NoIntVars m.domain)
    (hmax : m.optType = .max) :
    upperBounds (linValues lm) = upperBounds (srcValues m) ∧
    (∀ v, IsGreatest (linValues lm) v ↔ IsGreatest (srcValues m) v) ∧
    (∀ c, IsLUB (linValues lm) c ↔ IsLUB (srcValues m) c) :=
  have L := objLink_of_compile_static ht h hm hsh hok ht1
  ⟨L.upperBounds_eq hmax, L.isGreatest_iff hmax, L.isLUB_iff hmax⟩

/-- **`Satisfy`**: the two models attain exactly the same objective values. -/
theorem c02_satisfy_values (ht : 0 ≤ t) (h : Compile.linearize m (.fin t) maxSteps = .ok lm)
    (hm : StaticModel m) (hsh : AssertShape m) (hok : DeclOK m.domain) (ht1 : t < 1 ∨ NoIntVars m.domain)
    (hsat : m.optType = .satisfy) : linValues lm = srcValues m :=
  (objLink_of_compile_static ht h hm hsh hok ht1).values_eq hsat

/-- in every direction, each source objective value is attained by the linear model. -/
theorem c02_values_attained (ht : 0 ≤ t) (h : Compile.linearize m (.fin t) maxSteps = .ok lm)
    (hm : StaticModel m) (hsh : AssertShape m) (hok : DeclOK m.domain) (ht1 : t < 1 ∨ NoIntVars m.domain) :
    srcValues m ⊆ linValues lm :=
  (objLink_of_compile_static ht h hm hsh hok ht1).values_sub

/-- the same three statements for `linearizeWith` with a given bounds map / domain. -/
theorem c02_optimum_linearizeWith {b : BoundsMap (Ext K)} {d : List (DomVar (Ext K))}
    (h : linearizeWith m b d = .ok lm) (hm : LogicModel m d) (hdom : DomRel m d) (hbox : BoxEnforced b d) :
    (m.optType = .min → lowerBounds (linValues lm) = lowerBounds (srcValues m) ∧
      ∀ v, IsLeast (linValues lm) v ↔ IsLeast (srcValues m) v) ∧
    (m.optType = .max → upperBounds (linValues lm) = upperBounds (srcValues m) ∧
      ∀ v, IsGreatest (linValues lm) v ↔ IsGreatest (srcValues m) v) ∧
    (m.optType = .satisfy → linValues lm = srcValues m) :=
  have L := objLink_of_logic hm hdom hbox h
  ⟨fun hmin => ⟨L.lowerBounds_eq hmin, L.isLeast_iff hmin⟩,
   fun hmax => ⟨L.upperBounds_eq hmax, L.isGreatest_iff hmax⟩, fun hsat => L.values_eq hsat⟩

/-- non-vacuity: `min a s.t. assert (a or b)` compiled through the pipeline attains its optimum `0` in both
models. -/
example (t : K) (ht : 0 ≤ t) : ∃ (m : Model (Ext K)) (lm : LinModel (Ext K)),
    Compile.linearize m (.fin t) 0 = .ok lm ∧ (0 : K) ∈ srcValues m ∧ (0 : K) ∈ linValues lm := by
  obtain ⟨lm, h⟩ := exOr_compile (K := K) (.fin t)
  have L := objLink_of_compile ht h exOr_logicModel exOr_assertShape exOr_declOK (Or.inr exOr_noInt)
  have h0 : (0 : K) ∈ srcValues (exOr : Model (Ext K)) := ⟨_, exOr_feasible.1, exOr_feasible.2⟩
  exact ⟨exOr, lm, h, h0, L.values_sub h0⟩

end Optimum

end Rooc.Props.C02
