/-
C02 — Linearization preserves objective values and optima.  PROPERTY THEOREMS ONLY.
Same setting as `Rooc/Props/C01.lean` (see its header for the vocabulary and the proof stages).

FULL TARGET (stated here; only the parts that are PROVED appear below as declarations): under the hypotheses of
`c01`, for every source-feasible ρ with `eval ρ m.objective = some v`:
  * min : every extension ρ' of ρ (agreeing on the declared used variables) with `linFeasible lm ρ'` has
          `linObjective lm ρ' = some w` with `v ≤ w`, and some such extension attains `w = v`;
  * max : dually (`w ≤ v`, attained);   * satisfy : every feasible extension has `w = v`.
Consequently equal optimal values / optimal projections / infeasible-unbounded status.
-/
import Rooc.Proofs.LinC10
import Rooc.Proofs.LinExamples
namespace Rooc.Props.C02
open Rooc Rooc.Lin Rooc.Sem Rooc.LinP

variable {K : Type} [Field K] [LinearOrder K] [IsStrictOrderedRing K] [FloorRing K]

/-- **C02 on purely affine models**: the linear objective (with its offset) IS the source objective, at every
assignment at which the source objective is defined (no auxiliaries, so nothing to optimise over). -/
theorem c02_affine {m : Model (Ext K)} {b : BoundsMap (Ext K)} {d : List (DomVar (Ext K))} {lm : LinModel (Ext K)}
    (h : linearizeWith m b d = .ok lm) (haff : AffineModel m d) :
    lm.optType = m.optType ∧
    ∀ (ρ : String → K) (v : K), eval ρ m.objective = some v → linObjective lm ρ = some v := by
  refine ⟨?_, fun ρ v hv => affine_objective flattenSound simplifySoundArith haff h ρ v hv⟩
  obtain ⟨_, _, h1, _⟩ := linearizeWith_affine flattenSound simplifySoundArith haff h
  exact h1

/-- non-vacuity of `c02_affine` (`min x s.t. x ≤ y`). -/
example : ∃ (m : Model (Ext K)) (b : BoundsMap (Ext K)) (d : List (DomVar (Ext K))) (lm : LinModel (Ext K)),
    linearizeWith m b d = .ok lm ∧ AffineModel m d ∧ ∀ ρ : String → K, ∃ v, eval ρ m.objective = some v := by
  obtain ⟨lm, h⟩ := exAffine_ok (K := K)
  exact ⟨exAffine, [], exAffine.domain, lm, h, exAffine_hyps.1, fun ρ => ⟨ρ "x", by simp [exAffine, eval]⟩⟩

/-- corollary in the shape of the full target: on an affine model every feasible "extension" has exactly the
source objective value (so the best one does, in either direction). -/
theorem c02_affine_best {m : Model (Ext K)} {b : BoundsMap (Ext K)} {d : List (DomVar (Ext K))} {lm : LinModel (Ext K)}
    (h : linearizeWith m b d = .ok lm) (haff : AffineModel m d)
    (ρ ρ' : String → K) (hag : ∀ v, inScope d v → ρ' v = ρ v) (v : K) (hv : eval ρ m.objective = some v) :
    linObjective lm ρ' = some v := by
  apply (c02_affine h haff).2
  rw [eval_congr m.objective (fun x hx => hag x (haff.obj.2 x hx))]
  exact hv

end Rooc.Props.C02
