/- C06 — property theorems only (helper lemmas live in `Rooc/Proofs`). -/
namespace Rooc.Props.C06
end Rooc.Props.C06
