/-
C06 — data-driven constructs expand exactly.  PROPERTY THEOREMS ONLY, about the modelled expansion
core (`Rooc/Pre/Expand.lean`: the aggregation folds of `into_exp`, `range`, `enumerate`, `zip`,
`flatten_variable_name`; diffed against the Rust on every run).  The program-level statement
`transform p = transform (unroll p)` is checked on the implementation by the harness against an
independent reference unroller (see `tools/props/C06.json`: planned as a theorem).
-/
import Rooc.Pre.Expand
import Rooc.Pre.Graph
import Rooc.Sem
import Rooc.Proofs.Field
import Rooc.Proofs.Pre
import Rooc.Proofs.Iter
import Rooc.Proofs.PreProgram
import Mathlib.Algebra.BigOperators.Group.List.Basic
namespace Rooc.Props.C06
set_option linter.unusedSectionVars false
open Rooc Rooc.Pre Rooc.Sem Rooc.Proofs.Pre

section folds
variable {K : Type} [Field K] [LinearOrder K] [IsStrictOrderedRing K] [FloorRing K]

private theorem evalList_cons (ρ : String → K) (x : Exp (Ext K)) (xs : List (Exp (Ext K))) (vs : List K)
    (h : evalList ρ (x :: xs) = some vs) : ∃ v ws, eval ρ x = some v ∧ evalList ρ xs = some ws ∧ vs = v :: ws := by
  simp only [evalList] at h
  cases hx : eval ρ x with
  | none => simp [hx] at h
  | some v =>
    cases hxs : evalList ρ xs with
    | none => simp [hx, hxs] at h
    | some ws => simp [hx, hxs] at h; exact ⟨v, ws, rfl, rfl, h.symm⟩

/-- `sum_fold_eval`: the value of the folded `sum` tree is the sum of the values of its operands, in
particular `0` for the empty sum -/
theorem sum_fold_eval (ρ : String → K) (xs : List (Exp (Ext K))) (vs : List K) (h : evalList ρ xs = some vs) :
    eval ρ (foldRight .add (.num (Arith.ofInt 0)) xs) = some vs.sum := by
  induction xs generalizing vs with
  | nil => simp [evalList] at h; subst h; simp [foldRight, eval, Arith.ofInt]
  | cons x rest ih =>
    obtain ⟨v, ws, hx, hrest, rfl⟩ := evalList_cons ρ x rest vs h
    cases rest with
    | nil => simp [evalList] at hrest; subst hrest; simp [foldRight, hx]
    | cons y rest' =>
      have := ih ws hrest
      simp [foldRight, eval, hx, this, binVal]

/-- the same for `prod` (empty product = 1) -/
theorem prod_fold_eval (ρ : String → K) (xs : List (Exp (Ext K))) (vs : List K) (h : evalList ρ xs = some vs) :
    eval ρ (foldRight .mul (.num (Arith.ofInt 1)) xs) = some vs.prod := by
  induction xs generalizing vs with
  | nil => simp [evalList] at h; subst h; simp [foldRight, eval, Arith.ofInt]
  | cons x rest ih =>
    obtain ⟨v, ws, hx, hrest, rfl⟩ := evalList_cons ρ x rest vs h
    cases rest with
    | nil => simp [evalList] at hrest; subst hrest; simp [foldRight, hx]
    | cons y rest' =>
      have := ih ws hrest
      simp [foldRight, eval, hx, this, binVal]

/-- `avg`: sum ÷ number of operands; undefined (`0 ÷ 0`) for the empty average -/
theorem avg_fold_eval (ρ : String → K) (xs : List (Exp (Ext K))) (vs : List K) (h : evalList ρ xs = some vs) (hne : xs ≠ []) :
    (aggregate .avg xs).bind (fun e => eval ρ e) = some (vs.sum / (xs.length : K)) := by
  have hs := sum_fold_eval ρ xs vs h
  have hlen : (xs.length : K) ≠ 0 := by
    have : 0 < xs.length := List.length_pos_of_ne_nil hne
    exact_mod_cast (Nat.pos_iff_ne_zero.mp this)
  simp only [aggregate, Option.bind_some, eval, hs, Option.bind_eq_bind]
  simp [Arith.ofInt, binVal, kzero, eval, hlen]
theorem avg_empty_undefined (ρ : String → K) : (aggregate .avg ([] : List (Exp (Ext K)))).bind (fun e => eval ρ e) = none := by
  simp [aggregate, foldRight, eval, Arith.ofInt, binVal, kzero]

private theorem truthy_ofBool (b : Bool) : truthy (ofBool b : K) = b := by
  cases b <;> simp [truthy, ofBool, kone, kzero]

private theorem xor_foldl (ρ : String → K) (rest : List (Exp (Ext K))) (ws : List K) (h : evalList ρ rest = some ws)
    (acc : Exp (Ext K)) (r0 : K) (hacc : eval ρ acc = some r0) :
    ∃ r, eval ρ (rest.foldl (fun a e => .xor a e) acc) = some r ∧ truthy r = (ws.map truthy).foldl (· != ·) (truthy r0) := by
  induction rest generalizing ws acc r0 with
  | nil => simp [evalList] at h; subst h; exact ⟨r0, hacc, rfl⟩
  | cons x rest ih =>
    obtain ⟨v, ws', hx, hrest, rfl⟩ := evalList_cons ρ x rest ws h
    have hstep : eval ρ (.xor acc x) = some (ofBool (truthy r0 != truthy v)) := by simp [eval, hacc, hx, binVal]
    obtain ⟨r, hr, ht⟩ := ih ws' hrest (.xor acc x) _ hstep
    refine ⟨r, by simpa using hr, ?_⟩
    simp [ht, truthy_ofBool]

/-- `xor` folds from the left; its truth value is the parity of the operands' truth values (`0`,
false, for the empty block) -/
theorem xor_fold_eval (ρ : String → K) (xs : List (Exp (Ext K))) (vs : List K) (h : evalList ρ xs = some vs) :
    ∃ r, eval ρ (foldXor xs) = some r ∧ truthy r = (vs.map truthy).foldl (· != ·) false := by
  cases xs with
  | nil => simp [evalList] at h; subst h; exact ⟨0, by simp [foldXor, eval, Arith.ofInt], by simp [truthy, kzero]⟩
  | cons x rest =>
    obtain ⟨v, ws, hx, hrest, rfl⟩ := evalList_cons ρ x rest vs h
    obtain ⟨r, hr, ht⟩ := xor_foldl ρ rest ws hrest x v hx
    refine ⟨r, by simpa [foldXor] using hr, ?_⟩
    simp [ht]

example (ρ : String → K) : evalList ρ [.var "a", .var "b", .var "c"] = some [ρ "a", ρ "b", ρ "c"] := by
  simp [evalList, eval]

end folds

/-! ### ranges -/

/-- `range_spec`: `lo..hi` contains exactly the integers `lo ≤ i < hi`, `lo..=hi` exactly `lo ≤ i ≤ hi`
(so both are empty when `hi < lo`, and `lo..lo` is empty while `lo..=lo` is `[lo]`) -/
theorem range_spec (lo hi : Int) (inclusive : Bool) (i : Int) :
    i ∈ rangeVals lo hi inclusive ↔ lo ≤ i ∧ (if inclusive then i ≤ hi else i < hi) := by
  cases inclusive <;> simp [rangeVals, mem_intsFrom] <;> omega

/-- iteration order: the `k`-th element is `lo + k` -/
theorem range_order (lo hi : Int) (inclusive : Bool) (k : Nat) (h : k < (rangeVals lo hi inclusive).length) :
    (rangeVals lo hi inclusive)[k]? = some (lo + k) := by
  unfold rangeVals at *
  rw [intsFrom_length'] at h
  exact intsFrom_get lo _ k h

example : rangeVals 2 2 false = [] ∧ rangeVals 2 2 true = [2] ∧ rangeVals (-2) 1 false = [-2, -1, 0] ∧ rangeVals 3 1 true = [] := by decide

/-! ### enumerate, zip -/

/-- `enumerate_spec`: the `i`-th element of `enumerate xs` is `(xs[i], i)` -/
theorem enumerate_spec {β : Type} (xs : List β) (i : Nat) : (enumerate xs)[i]? = xs[i]?.map (fun x => (x, i)) := by
  simp [enumerate, enumerateFrom_get]
theorem enumerate_length {β : Type} (xs : List β) : (enumerate xs).length = xs.length := by
  unfold enumerate
  generalize 0 = s
  induction xs generalizing s with
  | nil => rfl
  | cons x xs ih => simp [enumerateFrom, ih]

private theorem heads_isSome {β : Type} (ls : List (List β)) : (heads ls).isSome = ls.all (fun l => !l.isEmpty) := by
  induction ls with
  | nil => rfl
  | cons l rest ih => cases l <;> simp_all [heads, Option.isSome_map]
private theorem shortest_tail {β : Type} (ls : List (List β)) (hne : ls ≠ []) (hall : ls.all (fun l => !l.isEmpty) = true) :
    shortest (ls.map List.tail) + 1 = shortest ls := by
  induction ls with
  | nil => exact absurd rfl hne
  | cons l rest ih =>
    cases rest with
    | nil => cases l <;> simp_all [shortest]
    | cons l2 rest' =>
      have h2 := ih (by simp) (by simp_all)
      cases l with
      | nil => simp at hall
      | cons a t =>
        simp only [List.map_cons, shortest] at h2 ⊢
        simp only [List.tail_cons, List.length_cons, Nat.min_def] at h2 ⊢
        split <;> split <;> omega
private theorem shortest_zero {β : Type} (ls : List (List β)) (hne : ls ≠ []) (hex : ls.all (fun l => !l.isEmpty) = false) : shortest ls = 0 := by
  induction ls with
  | nil => exact absurd rfl hne
  | cons l rest ih =>
    cases rest with
    | nil => cases l <;> simp_all [shortest]
    | cons l2 rest' =>
      cases l with
      | nil => simp [shortest]
      | cons a t =>
        have : shortest (l2 :: rest') = 0 := ih (by simp) (by simpa using hex)
        simp only [shortest, this, Nat.min_def]; split <;> omega

private theorem zipN_length {β : Type} (fuel : Nat) (ls : List (List β)) (hne : ls ≠ []) (hf : shortest ls ≤ fuel) :
    (zipN fuel ls).length = shortest ls := by
  induction fuel generalizing ls with
  | zero => simp [zipN]; omega
  | succ fuel ih =>
    cases ls with
    | nil => exact absurd rfl hne
    | cons l rest =>
      simp only [zipN]
      cases hh : heads (l :: rest) with
      | none =>
        have : (l :: rest).all (fun l => !l.isEmpty) = false := by
          have := heads_isSome (l :: rest); rw [hh] at this; simpa using this.symm
        simp [shortest_zero (l :: rest) (by simp) this]
      | some row =>
        have hall : (l :: rest).all (fun l => !l.isEmpty) = true := by
          have := heads_isSome (l :: rest); rw [hh] at this; simpa using this.symm
        have hst := shortest_tail (l :: rest) (by simp) hall
        have := ih ((l :: rest).map List.tail) (by simp) (by omega)
        simp only [List.length_cons, this]; omega

/-- `zip_len`: `zip` yields as many tuples as its shortest argument has elements -/
theorem zip_len {β : Type} (ls : List (List β)) (hne : ls ≠ []) : (zip ls).length = shortest ls :=
  zipN_length _ ls hne (Nat.le_refl _)

example : zip [[1, 2, 3], [4, 5]] = [[1, 4], [2, 5]] := by decide

/-! ### expansion = expansion of the hand-unrolled text (iteration fragment, `Rooc/Pre/Iter.lean`) -/
section fragment
variable {α : Type} [Arith α]

/-- **`expand_eq_unroll`**: on the modelled fragment (scoped `sum / prod / avg / min / max / all / any /
xor` over ranges, literal arrays, `enumerate`, `zip`, nested and destructuring iterations, compound
variables with integer index expressions, block functions, all binary operators), expanding a model
expression in an environment gives exactly the expression obtained by expanding its hand-unrolled
form — every iteration value substituted as a literal in iteration order, every aggregate replaced by
the explicit expression — in the EMPTY environment; and one fails iff the other does. -/
theorem expand_eq_unroll (env : Env) (e : ME) :
    (expand env e : Except IErr (Exp α)).toOption = (unroll env e >>= expand []).toOption :=
  Rooc.Proofs.Iter.expand_unroll env e

/-- the hand-unrolled form is free of iteration constructs -/
theorem unroll_is_flat (env : Env) (e e' : ME) (h : unroll env e = .ok e') : e'.flat = true :=
  Rooc.Proofs.Iter.unroll_flat env e e' h

/-- non-vacuity: `sum(i in 0..3) { x_i }` unrolls to `x_0 + (x_1 + x_2)` and both expand to the same tree -/
example :
    let p : ME := .agg .sum [⟨["i"], .range (.lit 0) (.lit 3) false⟩] (.cvar "x" [.var "i"])
    (unroll [] p).toOption.map ME.flat = some true ∧
    ((expand [] p : Except IErr (Exp α)).toOption.map (fun _ => ())) = some () := by
  refine ⟨?_, ?_⟩
  · cases h : unroll [] (ME.agg .sum [⟨["i"], .range (.lit 0) (.lit 3) false⟩] (.cvar "x" [.var "i"])) with
    | error e => simp [unroll, iterate, envs, It.shapeOk, declareAll, Env.get, Src.rows, CE.eval, rangeTooLarge, rangeCap, rangeVals, intsFrom, mapE, bindRow, unrollIdx, explicit] at h
    | ok e' => simp [unroll_is_flat [] _ e' h]
  · simp [expand, iterate, envs, It.shapeOk, declareAll, Env.get, Src.rows, CE.eval, rangeTooLarge, rangeCap, rangeVals, intsFrom, mapE, bindRow, idxFrag, aggregate]

/-- **whole programs** (`Rooc/Pre/Program.lean`: `where` constants, `define` declarations with
iterations and evaluated bounds, duplicate detection, objective, named and `for`-quantified constraints,
usage counts, references outside the domain): transforming a program gives exactly the `Model` —
same constraints in the same order with the same names, same objective, same variable set, domains and
usage counts — that transforming its hand-unrolled program gives; and one fails iff the other does.
(`wf`: every declaration names at least one variable, which the grammar guarantees.) -/
theorem program_expand_eq_unroll (p : ProgM) (hwf : p.wf = true) :
    (transformCore p : Except IErr (Model α)).toOption = (unrollProg p >>= fun q => transformCore q).toOption := by
  apply Rooc.Proofs.Program.transformCore_unroll
  intro d hd
  have := List.all_eq_true.mp hwf d hd
  simp only [DeclM.wf, Bool.not_eq_true', List.isEmpty_eq_false_iff] at this
  exact this

/-- the hand-unrolled program has no `where` section and no iteration left -/
theorem unrolled_program_is_plain (p q : ProgM) (h : unrollProg p = .ok q) :
    q.consts = [] ∧ (∀ c ∈ q.cons, c.its = []) ∧ (∀ d ∈ q.decls, d.its = []) :=
  Rooc.Proofs.Program.unrollProg_plain p q h

example : (⟨[("n", .lit 2)], none, [⟨none, .var "z", some (.ge, .lit 0), []⟩], [⟨[.plain "z"], .real none, []⟩]⟩ : ProgM).wf = true := by decide

end fragment

/-! ### graph iterables and set functions (`Rooc/Pre/Graph.lean`) -/
section graphs
variable {α : Type}

/-- `edges(G)` contains exactly the edges of the nodes of `G` … -/
theorem edges_spec (g : Graph α) (e : GEdge α) : e ∈ g.edges ↔ ∃ n ∈ g.nodes, e ∈ Graph.neighEdges n := by
  simp [Graph.edges, Graph.nodes, Graph.neighEdges, List.mem_flatMap]
/-- … in node order: iterating `edges(G)` is iterating `neigh_edges(n)` for `n in nodes(G)` -/
theorem edges_eq_neigh_of_nodes (g : Graph α) : g.edges = g.nodes.flatMap Graph.neighEdges := rfl
theorem edges_length (g : Graph α) : g.edges.length = (g.nodes.map (fun n => (Graph.neighEdges n).length)).sum := by
  simp [Graph.edges, Graph.nodes, Graph.neighEdges, List.length_flatMap]

/-- `neigh_edges_of(name, G)` is the edge list of the FIRST node called `name`, and fails exactly when
no node has that name -/
theorem neighEdgesOf_spec (name : String) (g : Graph α) (es : List (GEdge α)) (h : Graph.neighEdgesOf name g = some es) :
    ∃ n ∈ g, n.name = name ∧ es = n.edges := by
  simp only [Graph.neighEdgesOf, Option.map_eq_some_iff] at h
  obtain ⟨n, hn, rfl⟩ := h
  exact ⟨n, List.mem_of_find?_eq_some hn, by simpa using List.find?_some hn, rfl⟩
theorem neighEdgesOf_none_iff (name : String) (g : Graph α) : Graph.neighEdgesOf name g = none ↔ ∀ n ∈ g, n.name ≠ name := by
  simp [Graph.neighEdgesOf, List.find?_eq_none]

/-- an edge without weight destructures with weight 1 -/
theorem spread_default_weight [Arith α] (a b : String) : (GEdge.spread (⟨a, b, none⟩ : GEdge α)).2.2 = Arith.ofInt 1 := rfl

/-- `intersection` and `difference` select elements of their first argument, keeping its order -/
theorem svalInter_sublist [Arith α] (a b : List (SVal α)) : (svalInter a b).Sublist a := List.filter_sublist
theorem svalDiff_sublist [Arith α] (a b : List (SVal α)) : (svalDiff a b).Sublist a := List.filter_sublist
/-- every element is in exactly one of them -/
theorem svalInter_diff_partition [Arith α] (a b : List (SVal α)) (x : SVal α) (hx : x ∈ a) :
    (x ∈ svalInter a b ∧ x ∉ svalDiff a b) ∨ (x ∉ svalInter a b ∧ x ∈ svalDiff a b) := by
  cases h : svalContains b x <;> simp [svalInter, svalDiff, hx, h]
end graphs

/-! ### names: `flatten_variable_name` -/

private theorem split_at_underscore (x y s t : List Char) (hx : '_' ∉ x) (hy : '_' ∉ y)
    (h : x ++ '_' :: s = y ++ '_' :: t) : x = y ∧ s = t := by
  induction x generalizing y with
  | nil =>
    cases y with
    | nil => simpa using h
    | cons d y' => simp at h; simp [← h.1] at hy
  | cons c x' ih =>
    cases y with
    | nil => simp at h; simp [h.1] at hx
    | cons d y' =>
      simp only [List.cons_append, List.cons.injEq] at h
      simp only [List.mem_cons, not_or] at hx hy
      obtain ⟨h1, h2⟩ := ih y' hx.2 hy.2 h.2
      exact ⟨by rw [h.1, h1], h2⟩

private theorem no_underscore_absurd (x y t : List Char) (hx : '_' ∉ x) (h : x = y ++ '_' :: t) : False := by
  subst h; simp at hx

/-- **name injectivity (partial)**: two non-empty index lists whose printed fragments contain no
`_` flatten to the same name only if they are equal — `x_1_23` and `x_12_3` are different names. -/
theorem flatten_injective_partial (a b : List (List Char)) (ha : underscoreFree a) (hb : underscoreFree b)
    (hane : a ≠ []) (hbne : b ≠ []) (h : flattenChars a = flattenChars b) : a = b := by
  induction a generalizing b with
  | nil => exact absurd rfl hane
  | cons x ra ih =>
    cases b with
    | nil => exact absurd rfl hbne
    | cons y rb =>
      have hx : '_' ∉ x := ha x (by simp)
      have hy : '_' ∉ y := hb y (by simp)
      cases ra with
      | nil =>
        cases rb with
        | nil => simp [flattenChars] at h; rw [h]
        | cons y2 rb' => simp only [flattenChars] at h; exact (no_underscore_absurd x y _ hx h).elim
      | cons x2 ra' =>
        cases rb with
        | nil => simp only [flattenChars] at h; exact (no_underscore_absurd y x _ hy h.symm).elim
        | cons y2 rb' =>
          simp only [flattenChars] at h
          obtain ⟨h1, h2⟩ := split_at_underscore x y _ _ hx hy h
          have := ih (y2 :: rb') (fun f hf => ha f (by simp [hf])) (fun f hf => hb f (by simp at hf ⊢; exact Or.inr hf)) (by simp) (by simp) h2
          rw [h1, this]

/-- the same for the whole compound name `base_i_j…` when the base name has no `_` either -/
theorem flattenCompound_injective_partial (n n' : List Char) (a b : List (List Char)) (hn : '_' ∉ n) (hn' : '_' ∉ n')
    (ha : underscoreFree a) (hb : underscoreFree b) (hane : a ≠ []) (hbne : b ≠ [])
    (h : flattenCompoundChars n a = flattenCompoundChars n' b) : n = n' ∧ a = b := by
  obtain ⟨h1, h2⟩ := split_at_underscore n n' _ _ hn hn' h
  exact ⟨h1, flatten_injective_partial a b ha hb hane hbne h2⟩

example : underscoreFree ["1".toList, "23".toList] ∧ flattenChars ["1".toList, "23".toList] ≠ flattenChars ["12".toList, "3".toList] := by
  refine ⟨?_, by decide⟩
  intro f hf; simp at hf; rcases hf with rfl | rfl <;> decide

/-- outside the hypothesis the names collide: a string index containing `_` … -/
theorem flatten_injective_counterexample :
    flattenChars ["a_b".toList] = flattenChars ["a".toList, "b".toList] ∧ ["a_b".toList] ≠ ["a".toList, "b".toList] := by decide
/-- … an empty index list against one empty fragment … -/
theorem flatten_injective_counterexample_empty : flattenChars [] = flattenChars [[]] ∧ ([] : List (List Char)) ≠ [[]] := by decide
/-- … and different index VALUES with the same printed fragment (`x_{"1"}`, `x_1`, `x_{1.0}` are one variable) -/
theorem fragment_collision_counterexample :
    fragmentOf (fun _ => "1") (.string "1" : Prim Unit) = fragmentOf (fun _ => "1") (.integer 1 : Prim Unit) ∧
    fragmentOf (fun _ => "1") (.number () : Prim Unit) = fragmentOf (fun _ => "1") (.integer 1 : Prim Unit) := by decide

end Rooc.Props.C06
