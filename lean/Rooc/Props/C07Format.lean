/-
C07 — format of the published ranges and their relation to the declared ones (PROPERTY THEOREMS; helper lemmas in
`Rooc/Proofs/BoundsFormat.lean`, `LinBridge*.lean`).  Counterexamples by evaluation: `Rooc/Props/C07Counter.lean`.
-/
import Rooc.Proofs.BoundsFormat
import Rooc.Proofs.BoundsProper
import Rooc.Proofs.BoundsMono
import Rooc.Props.C07
namespace Rooc.Props.C07
open Rooc Rooc.BoundsSem Rooc.BoundsProofs Rooc.LinP

variable {K : Type} [Field K] [LinearOrder K] [IsStrictOrderedRing K] [FloorRing K]

/-- **Format, unconditional in the constraints.**  If every declared range is ordered (`lower ≤ upper`, no NaN),
then every range `analyze` derives — for EVERY constraint list (non-finite literals included), tolerance and step
limit — is an ordered interval: no NaN end point, `lower = +inf` only together with `upper = +inf`, and
`upper = −inf` only together with `lower = −inf`. -/
theorem analyzed_ranges_ordered (domain : List (DomVar (Ext K))) (cs : List (Constraint (Ext K))) (tol : Ext K)
    (maxSteps : Nat) (hd : ∀ d ∈ domain, Ordered (Bounds.ofVarType d.ty)) (name : String) :
    let b := Analyzer.varBounds (Analyzer.analyze domain cs tol maxSteps).variableBounds name
    Ext.le b.lower b.upper = true ∧ b.lower ≠ .nan ∧ b.upper ≠ .nan ∧
      (b.lower = .pinf → b.upper = .pinf) ∧ (b.upper = .ninf → b.lower = .ninf) := by
  have h := analyze_ordered domain cs tol maxSteps hd name
  exact ⟨h, ordered_format h⟩

/-- the same for what the linearizer uses and `apply_to_domain` publishes (`analyze |> enforceable`), distinct
names and `0 ≤ tol < 1`. -/
theorem published_ranges_ordered {domain : List (DomVar (Ext K))} (hnd : (domain.map (·.name)).Nodup)
    (cs : List (Constraint (Ext K))) {t : K} (h0 : 0 ≤ t) (h1 : t < 1) (maxSteps : Nat)
    (hd : ∀ d ∈ domain, Ordered (Bounds.ofVarType d.ty)) (name : String) :
    let b := Analyzer.varBounds ((Analyzer.analyze domain cs (.fin t) maxSteps).enforceable domain).variableBounds name
    Ext.le b.lower b.upper = true ∧ b.lower ≠ .nan ∧ b.upper ≠ .nan ∧
      (b.lower = .pinf → b.upper = .pinf) ∧ (b.upper = .ninf → b.lower = .ninf) := by
  have h := enforceable_ordered hnd cs h0 h1 maxSteps hd name
  exact ⟨h, ordered_format h⟩

example : ∃ domain : List (DomVar (Ext K)), (domain.map (·.name)).Nodup ∧ ∀ d ∈ domain, Ordered (Bounds.ofVarType d.ty) :=
  ⟨[⟨"x", .real (.fin 0) .pinf, 1⟩, ⟨"n", .int 0 5, 1⟩, ⟨"b", .bool, 1⟩], by simp, by
    intro d hd
    simp at hd
    rcases hd with rfl | rfl | rfl <;> simp [Ordered, Bounds.ofVarType, Ext.le]⟩

/-- **Format with finite literals, feasible or not.**  If every literal of every constraint is finite and no declared
range has `lower = +inf` or `upper = −inf`, then no range the analysis holds — after `analyze` and after
`enforceable`, for every tolerance `t` and step limit — has `lower = +inf` or `upper = −inf`.  Together with
`published_ranges_ordered` (no NaN end point): every published range is a well-formed interval description.
The excluded inputs are exactly those with a non-finite literal (`infinite_literal_range_counterexample`) or a
declared range that is itself malformed. -/
theorem published_ranges_proper (domain : List (DomVar (Ext K))) (cs : List (Constraint (Ext K))) (t : K)
    (maxSteps : Nat) (hd : ∀ d ∈ domain, Prp (Bounds.ofVarType d.ty))
    (hcs : ∀ c ∈ cs, BoundsSem.finiteLits c.lhs = true ∧ BoundsSem.finiteLits c.rhs = true) (name : String) :
    (let b := Analyzer.varBounds (Analyzer.analyze domain cs (.fin t) maxSteps).variableBounds name
     b.lower ≠ .pinf ∧ b.upper ≠ .ninf) ∧
    (let b := Analyzer.varBounds ((Analyzer.analyze domain cs (.fin t) maxSteps).enforceable domain).variableBounds name
     b.lower ≠ .pinf ∧ b.upper ≠ .ninf) :=
  ⟨analyze_prp domain cs _ maxSteps hd hcs name, enforceable_prp domain cs t maxSteps hd hcs name⟩

/-- the same for the range of a sub-expression with finite literals over such a box. -/
theorem boundsOf_proper (vb : List (String × Bounds (Ext K))) (e : Exp (Ext K)) (hbox : PrpVb vb)
    (hlit : BoundsSem.finiteLits e = true) :
    (Analyzer.boundsOf vb e).lower ≠ .pinf ∧ (Analyzer.boundsOf vb e).upper ≠ .ninf :=
  boundsOf_prp vb hbox e hlit

example : ∃ (domain : List (DomVar (Ext K))) (cs : List (Constraint (Ext K))),
    (∀ d ∈ domain, Prp (Bounds.ofVarType d.ty)) ∧ (∀ c ∈ cs, BoundsSem.finiteLits c.lhs = true ∧ BoundsSem.finiteLits c.rhs = true) :=
  ⟨[⟨"x", .real .ninf .pinf, 1⟩, ⟨"n", .int 0 5, 1⟩],
   [⟨"r", .abs (.bin .mul (.num (.fin 2)) (.var "x")), .le, .var "n", false⟩], by
    intro d hd
    simp at hd
    rcases hd with rfl | rfl <;> simp [Prp, Bounds.ofVarType], by
    intro c hc
    simp at hc; subst hc
    simp [BoundsSem.finiteLits, BoundsSem.finiteLit]⟩

/-- **Format on feasible models.**  When the model has a source-feasible assignment, every range the pipeline
publishes for a declared variable contains a number, so it has neither a NaN end point nor `lower = +inf` nor
`upper = −inf`.  (Without a feasible point and with an infinite literal `lower = +inf` does occur:
`infinite_literal_range_counterexample`.) -/
theorem feasible_ranges_proper (domain : List (DomVar (Ext K))) (normalized : List (Constraint (Ext K)))
    (tol : K) (maxSteps : Nat) (htol0 : 0 ≤ tol)
    (hi32 : ∀ d ∈ domain, ∀ lo hi, d.ty = .int lo hi → i32Min ≤ lo ∧ hi ≤ i32Max)
    (ρ : String → K) (hρ : SrcFeasible domain normalized ρ) :
    ∀ p ∈ (linearizerBounds domain normalized (.fin tol) maxSteps).variables,
      p.2.lower ≠ .nan ∧ p.2.lower ≠ .pinf ∧ p.2.upper ≠ .nan ∧ p.2.upper ≠ .ninf := by
  intro p hp
  exact mem_proper ((linearizerBounds_sound domain normalized tol maxSteps htol0 hi32 ρ hρ).1 p hp)

/-- **Integer ranges after `enforceable` (fix b9d407a).**  For every `IntegerRange(lo, hi)` variable of a
well-formed declaration (`DeclOK`: distinct names, `i32` ranges, …) and every tolerance `0 ≤ t < 1`: the stored
range has INTEGER end points `m1, m2` with `lo ≤ m1`, `m2 ≤ hi` (so inside the `i32` box), and
`apply_to_domain` publishes exactly `IntegerRange(m1, m2)` — or keeps the declared range when `m1 > m2`. -/
theorem published_integer_ranges {domain : List (DomVar (Ext K))} (hok : DeclOK domain)
    (cs : List (Constraint (Ext K))) {t : K} (h0 : 0 ≤ t) (h1 : t < 1) (maxSteps : Nat)
    {d : DomVar (Ext K)} (hd : d ∈ domain) {lo hi : Int} (hty : d.ty = .int lo hi) :
    ∃ m1 m2 : Int, lo ≤ m1 ∧ m2 ≤ hi ∧ i32Min ≤ m1 ∧ m2 ≤ i32Max ∧
      AList.get? ((Analyzer.analyze domain cs (.fin t) maxSteps).enforceable domain).variableBounds d.name
        = some ⟨.fin (m1 : K), .fin (m2 : K)⟩ ∧
      (((Analyzer.analyze domain cs (.fin t) maxSteps).enforceable domain).applyToVar d).ty
        = if m1 ≤ m2 then .int m1 m2 else .int lo hi := by
  obtain ⟨m1, m2, hl, hu, hg, hp⟩ := applyToVar_int_after_enforceable hok cs h0 h1 maxSteps hd hty
  obtain ⟨hlo, hhi⟩ := hok.i32 d hd lo hi hty
  exact ⟨m1, m2, hl, hu, by omega, by omega, hg, hp⟩

/-- the published integer range is the analyzer's box (`IntRangesInBox`, what C01's composition consumes). -/
theorem published_integer_ranges_in_box {domain : List (DomVar (Ext K))} (hok : DeclOK domain)
    (cs : List (Constraint (Ext K))) {t : K} (h0 : 0 ≤ t) (h1 : t < 1) (maxSteps : Nat) :
    IntRangesInBox ((Analyzer.analyze domain cs (.fin t) maxSteps).enforceable domain) domain :=
  enforceable_int_ranges_in_box hok cs h0 h1 maxSteps

/-- **Derived ranges only shrink.**  Whatever the constraints, the tolerance and the step limit, the range
`analyze` holds for a variable is inside the range it started from (the declared one), provided no declared end
point is NaN.  (Monotonicity in the constraint LIST fails: `monotonicity_counterexample_freeze`,
`monotonicity_counterexample_step_limit`; re-analysis is not a fixpoint: `reanalysis_not_idempotent_counterexample`.) -/
theorem derived_range_within_declared (domain : List (DomVar (Ext K))) (cs : List (Constraint (Ext K))) (tol : Ext K)
    (maxSteps : Nat) (hnn : NoNaNvb (Analyzer.fromDomain domain tol).variableBounds) (name : String) (x : K)
    (hx : Mem x (Analyzer.varBounds (Analyzer.analyze domain cs tol maxSteps).variableBounds name)) :
    Mem x (Analyzer.varBounds (Analyzer.fromDomain domain tol).variableBounds name) :=
  ((analyze_shr domain cs tol maxSteps).2.1 hnn).2 name x hx

/-- **The forward arithmetic is isotone.**  A tighter box (end-point-wise inside `vb'`, every interval ordered) gives a
tighter range for every expression with finite literals — `+ - * /` by constants, `abs`, `min`, `max`, logic.  So the
non-monotonicity of the analysis as a whole (`monotonicity_counterexample_freeze`, `…_step_limit`) comes from the
freeze, the step limit and the tolerance gates, not from the interval arithmetic. -/
theorem boundsOf_isotone (vb vb' : List (String × Bounds (Ext K))) (e : Exp (Ext K))
    (hsub : ∀ name, Sub (Analyzer.varBounds vb name) (Analyzer.varBounds vb' name))
    (hord : ∀ name, Ord (Analyzer.varBounds vb name)) (hlit : BoundsSem.finiteLits e = true) :
    Ext.le (Analyzer.boundsOf vb' e).lower (Analyzer.boundsOf vb e).lower = true ∧
    Ext.le (Analyzer.boundsOf vb e).upper (Analyzer.boundsOf vb' e).upper = true :=
  boundsOf_mono vb vb' hsub hord e hlit

example : ∃ (vb vb' : List (String × Bounds (Ext K))),
    (∀ name, Sub (Analyzer.varBounds vb name) (Analyzer.varBounds vb' name)) ∧ (∀ name, Ord (Analyzer.varBounds vb name)) :=
  ⟨[("x", ⟨.fin 1, .fin 2⟩)], [("x", ⟨.fin 0, .pinf⟩)], by
    intro n
    by_cases h : "x" = n <;> simp [Analyzer.varBounds, AList.get?, h, BoundsProofs.Sub, Bounds.unbounded, Ext.le], by
    intro n
    by_cases h : "x" = n <;> simp [Analyzer.varBounds, AList.get?, h, BoundsProofs.Ord, Bounds.unbounded, Ext.le]⟩

/-- **The domain written into the compiled model contains every source-feasible point** — the form C01's
composition consumes (`Rooc.LinP.sound_pipeline` is this statement for `Compile.linearize`): for the analyzer
`analyze |> enforceable` of the normalised constraints, every entry of `apply_to_domain` contains the value of its
variable at every assignment that is in the declared domains and satisfies the normalised constraints. -/
theorem pipeline_domain_sound (domain : List (DomVar (Ext K))) (normalized : List (Constraint (Ext K)))
    (tol : K) (maxSteps : Nat) (htol0 : 0 ≤ tol)
    (hi32 : ∀ d ∈ domain, ∀ lo hi, d.ty = .int lo hi → i32Min ≤ lo ∧ hi ≤ i32Max)
    (ρ : String → K) (hρ : SrcFeasible domain normalized ρ) :
    ∀ d' ∈ ((Analyzer.analyze domain normalized (.fin tol) maxSteps).enforceable domain).applyToDomain domain,
      InDomain d'.ty (ρ d'.name) :=
  (linearizerBounds_sound domain normalized tol maxSteps htol0 hi32 ρ hρ).2

end Rooc.Props.C07
