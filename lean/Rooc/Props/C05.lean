/-
C05 — Solver verdicts and optimal values are correct.  PROPERTY THEOREMS ONLY.

The external solvers are parameters; what is proved here is that every verdict the exact oracle hands to a
comparison is justified: the three certificate checkers of `Rooc/Cert.lean` are SOUND over every linearly ordered
field `K` (so in particular over ℝ and over the `Rat` the oracle runs at).  `LpFeasible`, `RowSat`, `BndsSat` are
the semantics of DESIGN.md appendix A (`Rooc/Proofs/Cert.lean`).
-/
import Rooc.Proofs.Cert
import Mathlib.Data.Rat.Floor
namespace Rooc.Props.C05
open Rooc Rooc.Cert

variable {K : Type} [Field K] [LinearOrder K] [IsStrictOrderedRing K] [FloorRing K]

/-- Weak duality, the common core: if `dualBound` accepts the multipliers `y` (sign conditions, finite bounds where
needed) then its value is below the objective of EVERY feasible point. -/
theorem weak_duality (lp : LP K) (y x : List K) (v : K)
    (h : dualBound lp.obj lp.rows lp.bnds y = some v) (hx : LpFeasible lp x) : v ≤ dot lp.obj x := by
  have hlen : lp.obj.length = x.length := by
    rw [dualBound_length h, bndsSat_length x lp.bnds hx.2]
  exact dualBound_le lp.obj lp.rows lp.bnds y x v hlen h hx.1 hx.2

/-- An accepted optimality certificate (primal point + dual multipliers with equal objectives) proves that the
point is feasible and that NO feasible point has a smaller objective. -/
theorem optimal_cert_sound (lp : LP K) (x y : List K) (h : checkOptimal lp x y = true) :
    LpFeasible lp x ∧ ∀ x', LpFeasible lp x' → dot lp.obj x ≤ dot lp.obj x' := by
  unfold checkOptimal at h
  simp only [Bool.and_eq_true, decide_eq_true_eq] at h
  obtain ⟨⟨_, hfeas⟩, hb⟩ := h
  refine ⟨lpFeasible_sound hfeas, fun x' hx' => ?_⟩
  cases hd : dualBound lp.obj lp.rows lp.bnds y with
  | none => simp [hd] at hb
  | some v =>
    simp [hd] at hb
    exact le_trans hb (weak_duality lp y x' v hd hx')

/-- An accepted infeasibility certificate (Farkas multipliers, or a variable with an empty range) proves that the
problem has no feasible point. -/
theorem infeasible_cert_sound (lp : LP K) (c : InfeasCert K) (h : checkInfeasible lp c = true) :
    ¬ ∃ x, LpFeasible lp x := by
  rintro ⟨x, hx⟩
  cases c with
  | farkas y =>
    simp only [checkInfeasible] at h
    cases hd : dualBound (zerosLike lp.obj) lp.rows lp.bnds y with
    | none => simp [hd] at h
    | some v =>
      simp [hd] at h
      have hlen : (zerosLike lp.obj).length = x.length := by
        rw [dualBound_length hd, bndsSat_length x lp.bnds hx.2]
      have := dualBound_le (zerosLike lp.obj) lp.rows lp.bnds y x v hlen hd hx.1 hx.2
      rw [dot_zerosLike] at this
      exact absurd h (not_lt.mpr this)
  | emptyBound j =>
    simp only [checkInfeasible] at h
    cases hb : lp.bnds[j]? with
    | none => simp [hb] at h
    | some b =>
      simp only [hb] at h
      obtain ⟨xj, hxj⟩ := bndsSat_get x lp.bnds j b hx.2 hb
      unfold emptyBnd at h
      cases hlo : b.lo with
      | none => simp [hlo] at h
      | some l =>
        cases hhi : b.hi with
        | none => simp [hlo, hhi] at h
        | some u =>
          simp [hlo, hhi] at h
          have h1 := hxj.1 l hlo
          have h2 := hxj.2 u hhi
          exact absurd (le_trans h1 h2) (not_le.mpr h)

/-- An accepted unboundedness certificate (feasible point + improving recession direction) proves that the problem
is feasible and that its objective has no lower bound on the feasible set. -/
theorem unbounded_cert_sound (lp : LP K) (x r : List K) (h : checkUnbounded lp x r = true) :
    LpFeasible lp x ∧ ∀ M : K, ∃ x', LpFeasible lp x' ∧ dot lp.obj x' < M := by
  unfold checkUnbounded at h
  simp only [Bool.and_eq_true, decide_eq_true_eq, List.all_eq_true] at h
  obtain ⟨⟨⟨⟨⟨_, hlen⟩, hfeas⟩, hrows⟩, hbnds⟩, hneg⟩ := h
  have hx := lpFeasible_sound hfeas
  refine ⟨hx, fun M => ?_⟩
  simp only [ef_lt, ef_ofInt, Int.cast_zero, decide_eq_true_eq] at hneg
  set g := dot lp.obj r with hg
  have hs : 0 < -g := by linarith
  let t : K := |dot lp.obj x - M| / (-g) + 1
  have ht : 0 ≤ t := by positivity
  refine ⟨move x r t, ⟨fun row hrow => rayRow_move ht hlen (hrows row hrow) (hx.1 row hrow),
    rayBnds_move x r lp.bnds t ht hbnds hx.2⟩, ?_⟩
  rw [dot_move _ _ _ _ hlen, ← hg]
  have h1 : t * (-g) = |dot lp.obj x - M| + (-g) := by
    have hne : -g ≠ 0 := ne_of_gt hs
    simp only [t]; rw [add_mul, div_mul_cancel₀ _ hne]; ring
  have h2 : dot lp.obj x - M ≤ |dot lp.obj x - M| := le_abs_self _
  nlinarith

/-! ### non-vacuity: the hypotheses are satisfiable (`K = ℚ`) -/

/-- `min x  s.t.  x ≥ 1`, `x` free: optimum at `x = 1` with multiplier `1`. -/
example : @checkOptimal ℚ (fieldExact ℚ) ⟨[1], [⟨[1], .ge, 1⟩], [⟨none, none⟩]⟩ [1] [1] = true := by
  simp [checkOptimal, lpFeasible, rowHolds, bndsHold, bndHolds, loHolds, hiHolds, dualBound, reduce, signOk,
    rowSub, bndSum, bndTerm]

/-- `x ≤ 0` and `x ≥ 1`: Farkas multipliers `(-1, 1)`. -/
example : @checkInfeasible ℚ (fieldExact ℚ) ⟨[0], [⟨[1], .le, 0⟩, ⟨[1], .ge, 1⟩], [⟨none, none⟩]⟩ (.farkas [-1, 1]) = true := by
  simp [checkInfeasible, zerosLike, dualBound, reduce, signOk, rowSub, bndSum, bndTerm]

/-- `min x`, `x ≤ 0`: the ray `-1` from the point `0`. -/
example : @checkUnbounded ℚ (fieldExact ℚ) ⟨[1], [⟨[1], .le, 0⟩], [⟨none, none⟩]⟩ [0] [-1] = true := by
  simp [checkUnbounded, lpFeasible, rowHolds, bndsHold, bndHolds, loHolds, hiHolds, rayRow, rayBnds]

end Rooc.Props.C05
