/-
C05 — Solver verdicts and optimal values are correct.  PROPERTY THEOREMS ONLY.

The external solvers are parameters; what is proved here is that every verdict the exact oracle hands to a
comparison is justified: the three certificate checkers of `Rooc/Cert.lean` are SOUND over every linearly ordered
field `K` (so in particular over ℝ and over the `Rat` the oracle runs at).  `LpFeasible`, `RowSat`, `BndsSat` are
the semantics of DESIGN.md appendix A (`Rooc/Proofs/Cert.lean`).
-/
import Rooc.Proofs.Cert
import Rooc.Proofs.WrapMilp
import Rooc.Proofs.ComposeSimplexExamples
import Rooc.Proofs.ComposeSemExamples
import Rooc.Proofs.ComposeTol
import Rooc.Proofs.RatInst
import Mathlib.Data.Rat.Floor
namespace Rooc.Props.C05
open Rooc Rooc.Cert

variable {K : Type} [Field K] [LinearOrder K] [IsStrictOrderedRing K] [FloorRing K]

/-- Weak duality, the common core: if `dualBound` accepts the multipliers `y` (sign conditions, finite bounds where
needed) then its value is below the objective of EVERY feasible point. -/
theorem weak_duality (lp : LP K) (y x : List K) (v : K)
    (h : dualBound lp.obj lp.rows lp.bnds y = some v) (hx : LpFeasible lp x) : v ≤ dot lp.obj x := by
  have hlen : lp.obj.length = x.length := by
    rw [dualBound_length h, bndsSat_length x lp.bnds hx.2]
  exact dualBound_le lp.obj lp.rows lp.bnds y x v hlen h hx.1 hx.2

/-- An accepted optimality certificate (primal point + dual multipliers with equal objectives) proves that the
point is feasible and that NO feasible point has a smaller objective. -/
theorem optimal_cert_sound (lp : LP K) (x y : List K) (h : checkOptimal lp x y = true) :
    LpFeasible lp x ∧ ∀ x', LpFeasible lp x' → dot lp.obj x ≤ dot lp.obj x' := by
  unfold checkOptimal at h
  simp only [Bool.and_eq_true, decide_eq_true_eq] at h
  obtain ⟨⟨_, hfeas⟩, hb⟩ := h
  refine ⟨lpFeasible_sound hfeas, fun x' hx' => ?_⟩
  cases hd : dualBound lp.obj lp.rows lp.bnds y with
  | none => simp [hd] at hb
  | some v =>
    simp [hd] at hb
    exact le_trans hb (weak_duality lp y x' v hd hx')

/-- An accepted infeasibility certificate (Farkas multipliers, or a variable with an empty range) proves that the
problem has no feasible point. -/
theorem infeasible_cert_sound (lp : LP K) (c : InfeasCert K) (h : checkInfeasible lp c = true) :
    ¬ ∃ x, LpFeasible lp x := by
  rintro ⟨x, hx⟩
  cases c with
  | farkas y =>
    simp only [checkInfeasible] at h
    cases hd : dualBound (zerosLike lp.obj) lp.rows lp.bnds y with
    | none => simp [hd] at h
    | some v =>
      simp [hd] at h
      have hlen : (zerosLike lp.obj).length = x.length := by
        rw [dualBound_length hd, bndsSat_length x lp.bnds hx.2]
      have := dualBound_le (zerosLike lp.obj) lp.rows lp.bnds y x v hlen hd hx.1 hx.2
      rw [dot_zerosLike] at this
      exact absurd h (not_lt.mpr this)
  | emptyBound j =>
    simp only [checkInfeasible] at h
    cases hb : lp.bnds[j]? with
    | none => simp [hb] at h
    | some b =>
      simp only [hb] at h
      obtain ⟨xj, hxj⟩ := bndsSat_get x lp.bnds j b hx.2 hb
      unfold emptyBnd at h
      cases hlo : b.lo with
      | none => simp [hlo] at h
      | some l =>
        cases hhi : b.hi with
        | none => simp [hlo, hhi] at h
        | some u =>
          simp [hlo, hhi] at h
          have h1 := hxj.1 l hlo
          have h2 := hxj.2 u hhi
          exact absurd (le_trans h1 h2) (not_le.mpr h)

/-- An accepted unboundedness certificate (feasible point + improving recession direction) proves that the problem
is feasible and that its objective has no lower bound on the feasible set. -/
theorem unbounded_cert_sound (lp : LP K) (x r : List K) (h : checkUnbounded lp x r = true) :
    LpFeasible lp x ∧ ∀ M : K, ∃ x', LpFeasible lp x' ∧ dot lp.obj x' < M := by
  unfold checkUnbounded at h
  simp only [Bool.and_eq_true, decide_eq_true_eq, List.all_eq_true] at h
  obtain ⟨⟨⟨⟨⟨_, hlen⟩, hfeas⟩, hrows⟩, hbnds⟩, hneg⟩ := h
  have hx := lpFeasible_sound hfeas
  refine ⟨hx, fun M => ?_⟩
  simp only [ef_lt, ef_ofInt, Int.cast_zero, decide_eq_true_eq] at hneg
  set g := dot lp.obj r with hg
  have hs : 0 < -g := by linarith
  let t : K := |dot lp.obj x - M| / (-g) + 1
  have ht : 0 ≤ t := by positivity
  refine ⟨move x r t, ⟨fun row hrow => rayRow_move ht hlen (hrows row hrow) (hx.1 row hrow),
    rayBnds_move x r lp.bnds t ht hbnds hx.2⟩, ?_⟩
  rw [dot_move _ _ _ _ hlen, ← hg]
  have h1 : t * (-g) = |dot lp.obj x - M| + (-g) := by
    have hne : -g ≠ 0 := ne_of_gt hs
    simp only [t]; rw [add_mul, div_mul_cancel₀ _ hne]; ring
  have h2 : dot lp.obj x - M ≤ |dot lp.obj x - M| := le_abs_self _
  nlinarith

/-! ### mixed-integer problems: enumeration of the integer box, every leaf certified -/

/-- an exactly accepted point is a feasible point of the mixed-integer problem (`checkPoint_sound` of C04 at
tolerance 0). -/
theorem checkPoint_sound' (p : Prob K) (x : List K) (h : checkPoint p x (ExactField.ofInt 0) = true) :
    ProbFeasible p x := by
  unfold checkPoint at h
  simp only [Bool.and_eq_true, List.all_eq_true, decide_eq_true_eq, ef_ofInt, Int.cast_zero] at h
  exact ⟨fun r hr => ⟨(h.1 r hr).1, rowHolds_sound (h.1 r hr).2⟩, domsHold_sound x p.doms h.2⟩

/-- MILP optimum: `x` satisfies the problem exactly (rows, bounds, integrality, 0/1) and no point of the problem has a
smaller objective (in the minimisation form `relax.obj`: `obj` for `min`, `−obj` for `max`, `0` for `satisfy`). -/
theorem milp_optimal_cert_sound (p : Prob K) (x : List K) (certs : List (LeafCert K))
    (h : checkMilpOptimal p x certs = true) :
    ProbFeasible p x ∧ ∀ x', ProbFeasible p x' → dot p.relax.obj x ≤ dot p.relax.obj x' := by
  unfold checkMilpOptimal at h
  simp only [Bool.and_eq_true, decide_eq_true_eq] at h
  obtain ⟨⟨_, hpt⟩, hleaves⟩ := h
  have hfeas : ProbFeasible p x := by
    exact checkPoint_sound' p x hpt
  refine ⟨hfeas, fun x' hx' => ?_⟩
  obtain ⟨leaf, hleaf, hlp⟩ := probFeasible_leaf hx'
  obtain ⟨c, hc⟩ := checkLeaves_mem _ _ hleaves leaf hleaf
  cases c with
  | infeasible ic =>
    exact absurd ⟨x', hlp⟩ (infeasible_cert_sound _ ic hc)
  | bound y =>
    simp only [checkLeaf, checkLowerBound] at hc
    cases hd : dualBound (p.relax.fix leaf).obj (p.relax.fix leaf).rows (p.relax.fix leaf).bnds y with
    | none => simp [hd] at hc
    | some v =>
      simp [hd] at hc
      exact le_trans hc (weak_duality (p.relax.fix leaf) y x' v hd hlp)

/-- MILP infeasible: every leaf of the integer box is certified empty, so the problem has no point. -/
theorem milp_infeasible_cert_sound (p : Prob K) (certs : List (InfeasCert K))
    (h : checkMilpInfeasible p certs = true) : ¬ ∃ x, ProbFeasible p x := by
  rintro ⟨x, hx⟩
  obtain ⟨leaf, hleaf, hlp⟩ := probFeasible_leaf hx
  unfold checkMilpInfeasible at h
  have key : ∀ (ls : List (List (Option Int))) (cs : List (InfeasCert K)),
      checkMilpInfeasible.go p ls cs = true → ∀ l ∈ ls, ∃ c, checkInfeasible (p.relax.fix l) c = true := by
    intro ls
    induction ls with
    | nil => intro cs _ l hl; simp at hl
    | cons l ls ih =>
      intro cs hgo l' hl'
      cases cs with
      | nil => simp [checkMilpInfeasible.go] at hgo
      | cons c cs =>
        simp only [checkMilpInfeasible.go, Bool.and_eq_true] at hgo
        rcases List.mem_cons.mp hl' with rfl | hm
        · exact ⟨c, hgo.1⟩
        · exact ih cs hgo.2 l' hm
  obtain ⟨c, hc⟩ := key _ _ h leaf hleaf
  exact infeasible_cert_sound _ c hc ⟨x, hlp⟩

/-- MILP unbounded: a point of the problem and a ray of the relaxation (which cannot move the bounded integer
variables) give points of the problem with arbitrarily small objective. -/
theorem milp_unbounded_cert_sound (p : Prob K) (x r : List K) (h : checkMilpUnbounded p x r = true) :
    ProbFeasible p x ∧ ∀ M : K, ∃ x', ProbFeasible p x' ∧ dot p.relax.obj x' < M := by
  unfold checkMilpUnbounded at h
  simp only [Bool.and_eq_true] at h
  obtain ⟨hpt, hub⟩ := h
  have hfeas : ProbFeasible p x := checkPoint_sound' p x hpt
  refine ⟨hfeas, fun M => ?_⟩
  -- the LP argument, with the domains (not only the bounds) carried along the ray
  unfold checkUnbounded at hub
  simp only [Bool.and_eq_true, decide_eq_true_eq, List.all_eq_true] at hub
  obtain ⟨⟨⟨⟨⟨_, hlen⟩, hlpf⟩, hrows⟩, hbnds⟩, hneg⟩ := hub
  have hx := lpFeasible_sound hlpf
  simp only [ef_lt, ef_ofInt, Int.cast_zero, decide_eq_true_eq] at hneg
  set g := dot p.relax.obj r with hg
  have hs : 0 < -g := by linarith
  let t : K := |dot p.relax.obj x - M| / (-g) + 1
  have ht : 0 ≤ t := by positivity
  refine ⟨move x r t, ⟨fun row hrow => ?_, rayBnds_move_doms x r p.doms t ht hbnds hfeas.2⟩, ?_⟩
  · have hr := rayRow_move ht hlen (hrows row hrow) (hx.1 row hrow)
    refine ⟨hr.1, ?_⟩
    have := hr.2
    unfold RowSat at this
    unfold RowSatTol
    cases hrel : row.rel <;> simp [hrel] at this ⊢
    · exact this
    · exact this
    · rw [this]; simp
  · rw [dot_move _ _ _ _ hlen, ← hg]
    have h1 : t * (-g) = |dot p.relax.obj x - M| + (-g) := by
      have hne : -g ≠ 0 := ne_of_gt hs
      simp only [t]; rw [add_mul, div_mul_cancel₀ _ hne]; ring
    have h2 : dot p.relax.obj x - M ≤ |dot p.relax.obj x - M| := le_abs_self _
    nlinarith

/-! ### rooc's MILP wrapper adds no error of its own -/

/-- microlp's contract for a FINISHED solve of the problem rooc sends (explicit hypothesis; the search is not modelled):
the values satisfy the rows and the bounds / integrality of the columns exactly, `objective()` is `c·x`, and no such
point is better (in the minimisation form: `obj` for min, `−obj` for max; for `satisfy` any point). -/
structure RawOptimal (p : Prob K) (objective : K) (vals : List K) : Prop where
  feasible : ProbFeasible p vals
  objective_eq : objective = dot p.obj vals
  optimal : ∀ x', ProbFeasible p x' → dot p.relax.obj vals ≤ dot p.relax.obj x'

/-- **`solve_milp_lp_problem` adds no error of its own.**  For every `LinearModel` that denotes a problem `p`
(`ofLinModel`: domains → bounds / integrality, rows, objective, offset — the very translation the oracle uses) and whose
integer ranges fit `i32`: if microlp's raw answer satisfies its contract, the wrapper returns `Ok` with an `LpSolution`
that names every variable once in model order, whose values DENOTE microlp's point exactly (read-back `as i32` /
`!= 0.0` loses nothing), whose reported value is the model's objective at that point INCLUDING the offset, and that
point is feasible and optimal for `p`. -/
theorem wrapMilp_adds_no_error (lm : LinModel (Ext K)) (p : Prob K) (hden : ofLinModel lm = .ok p)
    (hi32 : I32Ranges p.doms) (st : SolverWrap.MlpStatus) (objective : K) (vals : List K)
    (hraw : RawOptimal p objective vals) :
    ∃ s : SolverWrap.Solution (Ext K),
      SolverWrap.wrapMilp lm (.ok st (Ext.fin objective) (vals.map Ext.fin)) = .ok s ∧
      s.assignment.map (·.1) = lm.vars ∧
      s.assignment.map (fun a => a.2.toNum) = vals.map Ext.fin ∧
      s.value = Ext.fin (Cert.objective p vals) ∧
      ProbFeasible p vals ∧ ∀ x', ProbFeasible p x' → dot p.relax.obj vals ≤ dot p.relax.obj x' := by
  obtain ⟨hdoms, hrows, hobj, hoff, hlen, _⟩ := ofLinModel_inv hden
  have hF : List.Forall₂ (VarDenotes lm) lm.vars p.doms :=
    (listM_forall₂ _ _ _ hdoms).imp (fun _ _ h => domOf_inv h)
  have hR := listM_forall₂ _ _ _ hrows
  have hvlen : vals.length = lm.vars.length := by
    rw [domsSatTol_length vals p.doms hraw.feasible.2, hF.length_eq]
  -- the wrapper's pre-checks pass
  have c1 : ¬ (lm.objective.length != lm.vars.length) = true := by simp [hlen]
  have c2 : ¬ (lm.vars.any fun v => (SolverWrap.domainOf lm v).isNone) = true := by
    simp only [List.any_eq_true, not_exists, not_and]
    intro v hv
    obtain ⟨d, _, ty, hty, _⟩ := forall₂_exists_left hF v hv
    simp [hty]
  have c3 : ¬ (lm.rows.any fun r => SolverWrap.isStrict r.cmp) = true := by
    simp only [List.any_eq_true, not_exists, not_and]
    intro r hr
    obtain ⟨row, _, hrow⟩ := forall₂_exists_left hR r hr
    simp [(rowOf_inv hrow).1]
  have c4 : ∃ cm, SolverWrap.constraintsMap lm (vals.map Ext.fin) = some cm := by
    have hall : (lm.rows.all fun r => r.coeffs.length == (vals.map Ext.fin).length) = true := by
      rw [List.all_eq_true]
      intro r hr
      obtain ⟨row, _, hrow⟩ := forall₂_exists_left hR r hr
      simp [(rowOf_inv hrow).2, hvlen]
    unfold SolverWrap.constraintsMap SolverWrap.calcConstraints
    rw [if_pos hall]
    exact ⟨_, rfl⟩
  obtain ⟨cm, hcm⟩ := c4
  obtain ⟨hnames, hvals⟩ := assignment_exact lm lm.vars p.doms vals hF hraw.feasible.2 hi32
  refine ⟨SolverWrap.lpSolutionNew _ (Arith.add (Ext.fin objective) lm.offset) cm, ?_, hnames, hvals, ?_,
    hraw.feasible, hraw.optimal⟩
  · simp [SolverWrap.wrapMilp, c1, c2, c3, hcm]
    congr 1
    apply List.map_congr_left
    intro x _
    cases h : SolverWrap.domainOf lm x.1 <;> simp [h]
  · simp only [SolverWrap.lpSolutionNew, hoff, SolverWrap.ext_add_fin, Cert.objective, ef_add, hraw.objective_eq]

/-- non-vacuity of `wrapMilp_adds_no_error` (any `K`): `max b`, `b` Boolean, offset 3 denotes a problem, its integer
ranges fit, and the raw answer `b = 1`, objective 1 satisfies the contract. -/
example : ∃ p : Prob K,
    ofLinModel ({ optType := .max, objective := [Ext.fin 1], offset := Ext.fin 3, vars := ["b"],
                  domain := [{ name := "b", ty := .bool, usage := 1 }], rows := [] } : LinModel (Ext K)) = .ok p ∧
    I32Ranges p.doms ∧ RawOptimal p 1 [1] := by
  refine ⟨{ sense := .max, obj := [1], offset := 3, rows := [], doms := [.bool] }, ?_, ?_, ?_, ?_, ?_⟩
  · simp [ofLinModel, listM, domOf, tyDom, extFin]
  · intro d hd; simp at hd; subst hd; trivial
  · exact ⟨by simp, by simp [DomsSatTol, DomSatTol]⟩
  · simp
  · intro x' hx'
    match x', hx' with
    | [v], ⟨_, hd⟩ =>
      have hv : |v| ≤ 0 ∨ |v - 1| ≤ 0 := hd.1
      have : v ≤ 1 := by
        rcases hv with h | h
        · have := abs_nonpos_iff.mp h; linarith
        · have := abs_nonpos_iff.mp h; linarith
      simp [Prob.relax, negList]
      linarith
    | [], ⟨_, hd⟩ => simp [DomsSatTol] at hd
    | _ :: _ :: _, ⟨_, hd⟩ => simp [DomsSatTol] at hd

/-! ### non-vacuity: the hypotheses are satisfiable (`K = ℚ`) -/

/-- `min x  s.t.  x ≥ 1`, `x` free: optimum at `x = 1` with multiplier `1`. -/
example : @checkOptimal ℚ (fieldExact ℚ) ⟨[1], [⟨[1], .ge, 1⟩], [⟨none, none⟩]⟩ [1] [1] = true := by
  simp [checkOptimal, lpFeasible, rowHolds, bndsHold, bndHolds, loHolds, hiHolds, dualBound, reduce, signOk,
    rowSub, bndSum, bndTerm]

/-- `x ≤ 0` and `x ≥ 1`: Farkas multipliers `(-1, 1)`. -/
example : @checkInfeasible ℚ (fieldExact ℚ) ⟨[0], [⟨[1], .le, 0⟩, ⟨[1], .ge, 1⟩], [⟨none, none⟩]⟩ (.farkas [-1, 1]) = true := by
  simp [checkInfeasible, zerosLike, dualBound, reduce, signOk, rowSub, bndSum, bndTerm]

/-- `min x`, `x ≤ 0`: the ray `-1` from the point `0`. -/
example : @checkUnbounded ℚ (fieldExact ℚ) ⟨[1], [⟨[1], .le, 0⟩], [⟨none, none⟩]⟩ [0] [-1] = true := by
  simp [checkUnbounded, lpFeasible, rowHolds, bndsHold, bndHolds, loHolds, hiHolds, rayRow, rayBnds]

/-- `max b`, `b ∈ {0,1}`: the point `b = 1`, and for each of the two leaves a dual bound (no rows: empty multipliers). -/
example : @checkMilpOptimal ℚ (fieldExact ℚ) ⟨.max, [1], 0, [], [.bool]⟩ [1] [.bound [], .bound []] = true := by
  have hr : intRange 0 1 = [0, 1] := by decide
  have hfl : Int.floor ((1 : ℚ) + 1 / 2) = 1 := by
    rw [Int.floor_eq_iff]; constructor <;> norm_num
  simp [checkMilpOptimal, checkPoint, domsHold, domHolds, absK, leaves, hr, checkLeaves, checkLeaf, checkLowerBound,
    LP.fix, Prob.relax, negList, fixBnds, fixBnd, Dom.bnd, dualBound, reduce, bndSum, bndTerm]

/-! ## rooc's built-in simplex (`solve_real_lp_problem_slow_simplex`), end to end at exact arithmetic: C13 ∘ C14

The path is `to_standard_form` (`Standardize.standardize`, C13) → `into_tableau` → the loop `solve` of
`Rooc/Tableau.lean` (C14) → `variables_values` / `optimal_value`.  C13 is stated over `StdModel (Ext K)` and
positional points, C14 over `Tab K` at the exact instance; the adapters (`ComposeSimplex.stdK`, `stdFeasible_iff`,
`stdObj_eq`, `flip_iff_max`, `solveLoop_error_step`, `solve_flip_offset`) are in `Rooc/Proofs/ComposeSimplex.lean`.

`ComposeSimplex.CanonicalFor T sK` is the interface between start and loop: `T` is a canonical feasible tableau with the
solution set and the objective row of the standard form `sK`, sign flip and offset copied.
`slow_simplex_direct_start_partial` produces it for the direct start of `into_tableau` (C14
`into_tableau_canonical_partial` + C13 `std_shape`); for the two-phase start it is a HYPOTHESIS — the lemma that is
missing in C14 is "the tableau returned by `into_tableau_two_phase` (artificial drive-out, redundant-row drop, cost
restoration) is `CanonicalFor` the standard form", listed as planned there.

Exact comparisons (`tol = 0` in the loop) are essential: `Rooc.Props.C14.finished_optimal_tol_counterexample` /
`pivot_feasible_tol_counterexample` refute both statements for `tol > 0`. -/
section SlowSimplex
open Tableau TabSem StdSem StdMain Standardize ComposeSimplex
attribute [local instance] exactArith

/-- **`Finished` at exact arithmetic ⇒ feasible and optimal for the ORIGINAL model.**  For a well-formed continuous
`lm`, its standard form `s`, any canonical feasible tableau `T` of `s`, any stall parameter, iteration limit and
preference list: if the loop stops with success then the point mapped back from `variables_values` (C13's `preimage`:
`x = p − m` on split variables, slack columns dropped) satisfies every row and every declared bound of `lm`, no
feasible point of `lm` has a better objective in `lm`'s direction, and `optimal_value` of the final tableau IS the
objective of `lm` (offset and `max` sign included) at that point. -/
theorem slow_simplex_optimal_exact {lm : LinModel (Ext K)} (hW : WF lm) {s : StdModel (Ext K)}
    (hs : standardize lm = .ok s) {T : Tab K} (hT : CanonicalFor T (stdK s))
    (stallExtra limit : Nat) (prefer : List Nat)
    (hfin : (solve (0:K) stallExtra limit prefer T).result = .ok ()) :
    LinFeasible lm (preimage lm (basicSolution (solve (0:K) stallExtra limit prefer T).final)) ∧
    (∀ x, LinFeasible lm x →
      (lm.optType = .min →
        obj lm (preimage lm (basicSolution (solve (0:K) stallExtra limit prefer T).final)) ≤ obj lm x) ∧
      (lm.optType = .max →
        obj lm x ≤ obj lm (preimage lm (basicSolution (solve (0:K) stallExtra limit prefer T).final)))) ∧
    optimalValue (solve (0:K) stallExtra limit prefer T).final =
      obj lm (preimage lm (basicSolution (solve (0:K) stallExtra limit prefer T).final)) :=
  finished_optimal hW hs hT stallExtra limit prefer hfin

/-- **`Unbounded` at exact arithmetic ⇒ the ORIGINAL model is unbounded**: for every bound `M` there is a feasible
point of `lm` with objective `< M` (`min`) / `> M` (`max`). -/
theorem slow_simplex_unbounded_exact {lm : LinModel (Ext K)} (hW : WF lm) {s : StdModel (Ext K)}
    (hs : standardize lm = .ok s) {T : Tab K} (hT : CanonicalFor T (stdK s))
    (stallExtra limit : Nat) (prefer : List Nat)
    (hunb : (solve (0:K) stallExtra limit prefer T).result = .error .unbounded) (M : K) :
    ∃ x, LinFeasible lm x ∧ (lm.optType = .min → obj lm x < M) ∧ (lm.optType = .max → M < obj lm x) :=
  unbounded_original hW hs hT stallExtra limit prefer hunb M

/-- **phase-1 optimum below zero at exact arithmetic ⇒ the ORIGINAL model is infeasible** (C13 `fwd`, `std_shape` ∘ C14
`phase1_feasible_value_bound` at `tol = 0`): when the artificial variables of `into_tableau_two_phase` cannot be
driven to zero, no point satisfies `lm`.  (The tolerance version is C14 `phase1_nonzero_infeasible_partial`.) -/
theorem slow_simplex_infeasible_exact {lm : LinModel (Ext K)} (hW : WF lm) {s : StdModel (Ext K)}
    (hs : standardize lm = .ok s) (stallExtra limit : Nat) (prefer : List Nat)
    (hok : (solve (0:K) stallExtra limit prefer (phase1Tab (stdK s))).result = .ok ())
    (hneg : (solve (0:K) stallExtra limit prefer (phase1Tab (stdK s))).final.value < 0) :
    ¬ ∃ x, LinFeasible lm x :=
  phase1_negative_infeasible hW hs stallExtra limit prefer hok hneg

/-- **a tableau handed to the loop witnesses feasibility**: whenever `into_tableau` yields a canonical feasible tableau of
the standard form (`CanonicalFor`, see `slow_simplex_start_partial`), `lm` HAS a feasible point (the mapped-back basic
solution).  Hence on an infeasible `lm` the path can only stop at the start, never answer a solution or `Unbounded`. -/
theorem slow_simplex_start_feasible {lm : LinModel (Ext K)} (hW : WF lm) {s : StdModel (Ext K)}
    (hs : standardize lm = .ok s) {T : Tab K} (hT : CanonicalFor T (stdK s)) :
    LinFeasible lm (preimage lm (basicSolution T)) :=
  canonicalFor_feasible hW hs hT

/-- the loop has exactly three outcomes; the third (`IterationLimitReached`) is reported as `LimitReached` and
carries no claim. -/
theorem slow_simplex_outcomes (tol : K) (stallExtra limit : Nat) (prefer : List Nat) (T : Tab K) :
    (solve tol stallExtra limit prefer T).result = .ok () ∨
    (solve tol stallExtra limit prefer T).result = .error .unbounded ∨
    (solve tol stallExtra limit prefer T).result = .error .iterationLimit :=
  solve_outcomes tol stallExtra limit prefer T

/-- **the direct start provides the interface** (C14 `into_tableau_canonical_partial` with its shape hypotheses
discharged by C13 `std_shape`).  PARTIAL: `tol > 0` and the two decidable data hypotheses of
`into_tableau_canonical_partial` — no entry of `A` with `0 < |a| < tol`, and a usable independent column for every row
(otherwise `into_tableau` takes the two-phase start, see the section header). -/
theorem slow_simplex_direct_start_partial {tol : K} (ht : 0 < tol) {lm : LinModel (Ext K)} (hW : WF lm)
    {s : StdModel (Ext K)} (hs : standardize lm = .ok s) (stallExtra phase1Limit : Nat)
    (hN : Start.NoSubTol tol ((stdK s).rows.map (·.coeffs)))
    (hdir : (stdK s).rows.length ≤ (independentColumns tol (stdK s).vars.length ((stdK s).rows.map (·.coeffs))).length ∧
      (selectPerRow (stdK s).rows.length
        (independentColumns tol (stdK s).vars.length ((stdK s).rows.map (·.coeffs)))).length = (stdK s).rows.length) :
    ∃ T, intoTableau tol stallExtra phase1Limit (stdK s) = .ok T ∧ CanonicalFor T (stdK s) :=
  direct_start_canonicalFor ht hW hs stallExtra phase1Limit hN hdir

/-- **the two-phase start provides the interface too** (C14 `two_phase_start_canonical_partial` with its shape
hypotheses discharged by C13 `std_shape`): the tableau returned by `into_tableau_two_phase` — phase 1, artificial
drive-out, redundant-row drop, cost restoration — is `CanonicalFor` the standard form.  PARTIAL: `tol > 0` and the three
decidable facts about the run that `two_phase_start_canonical_partial` needs (phase-1 result of value exactly `0` with a
non-negative basic solution; the rows dropped as redundant have exactly-zero structural entries).  With
`Props.C14.into_tableau_two_phase_branch` (`into_tableau` IS the two-phase start when the direct one is unavailable)
this removes the hypothesis `CanonicalFor T (stdK s)` from `slow_simplex_optimal_exact` / `slow_simplex_unbounded_exact`
on that branch. -/
theorem slow_simplex_two_phase_start_partial {tol : K} (ht : 0 < tol) {lm : LinModel (Ext K)} (hW : WF lm)
    {s : StdModel (Ext K)} (hs : standardize lm = .ok s) (stallExtra phase1Limit : Nat)
    (hv : (TwoPhase.phase1Final tol stallExtra phase1Limit (stdK s)).value = 0)
    (hF : Feasible (TwoPhase.phase1Final tol stallExtra phase1Limit (stdK s)))
    (hd : ∀ r ∈ (TwoPhase.driveOutResult tol stallExtra phase1Limit (stdK s)).2.2.2, ∀ j, j < (stdK s).vars.length →
      nth (row (TwoPhase.driveOutResult tol stallExtra phase1Limit (stdK s)).1 r) j = 0)
    {T : Tab K} (h : twoPhase tol stallExtra phase1Limit (stdK s) = .ok T) : CanonicalFor T (stdK s) := by
  obtain ⟨hrect, hobj, _⟩ := Props.C13.std_shape lm hW hs
  have hrows : ∀ r ∈ (stdK s).rows, r.coeffs.length = (stdK s).vars.length := by
    intro r hr
    simp only [stdK, List.mem_map] at hr
    obtain ⟨r0, hr0, rfl⟩ := hr
    simpa using hrect r0 hr0
  have hobj' : (stdK s).objective.length = (stdK s).vars.length := by simpa using hobj
  obtain ⟨hC, hO, hS, hFe, hfl, hoff⟩ :=
    Props.C14.two_phase_start_canonical_partial ht (stdK s) stallExtra phase1Limit hrows hobj' hv hF hd h
  exact ⟨hC, hO, hS, hFe, hfl, hoff⟩

/-- **`CanonicalFor` is not a hypothesis any more: the verdict of the path from `into_tableau` on is exact.**  For every
well-formed continuous `lm`, its standard form `s`, WHATEVER tableau `into_tableau` returns (direct or two-phase start,
tolerance `tol > 0`) under the decidable `StartFacts` (the start decided as exact arithmetic would: `NoSubTol` on the
direct branch; phase-1 value exactly `0`, non-negative basic solution, exactly-zero redundant rows on the two-phase
branch), and the step loop at exact comparisons: if the loop ends `Finished`, the mapped-back point is feasible and
optimal for `lm` and `optimal_value` is its objective; if it ends `Unbounded`, `lm` is unbounded.  (The third outcome,
the iteration limit, carries no claim: `slow_simplex_outcomes`.) -/
theorem slow_simplex_verdict_exact_partial {tol : K} (ht : 0 < tol) {lm : LinModel (Ext K)} (hW : WF lm)
    {s : StdModel (Ext K)} (hs : standardize lm = .ok s) (stallExtra phase1Limit : Nat)
    (hfacts : StartFacts tol stallExtra phase1Limit (stdK s))
    {T : Tab K} (hT : intoTableau tol stallExtra phase1Limit (stdK s) = .ok T) (limit : Nat) (prefer : List Nat) :
    ((solve (0:K) stallExtra limit prefer T).result = .ok () →
      LinFeasible lm (preimage lm (basicSolution (solve (0:K) stallExtra limit prefer T).final)) ∧
      (∀ x, LinFeasible lm x →
        (lm.optType = .min →
          obj lm (preimage lm (basicSolution (solve (0:K) stallExtra limit prefer T).final)) ≤ obj lm x) ∧
        (lm.optType = .max →
          obj lm x ≤ obj lm (preimage lm (basicSolution (solve (0:K) stallExtra limit prefer T).final)))) ∧
      optimalValue (solve (0:K) stallExtra limit prefer T).final =
        obj lm (preimage lm (basicSolution (solve (0:K) stallExtra limit prefer T).final))) ∧
    ((solve (0:K) stallExtra limit prefer T).result = .error .unbounded →
      ∀ M : K, ∃ x, LinFeasible lm x ∧ (lm.optType = .min → obj lm x < M) ∧ (lm.optType = .max → M < obj lm x)) :=
  have hc := intoTableau_canonicalFor ht hW hs stallExtra phase1Limit hfacts hT
  ⟨fun hfin => finished_optimal hW hs hc stallExtra limit prefer hfin,
   fun hunb M => unbounded_original hW hs hc stallExtra limit prefer hunb M⟩

/-- `StartFacts` + a returned tableau give the interface (both branches at once). -/
theorem slow_simplex_start_partial {tol : K} (ht : 0 < tol) {lm : LinModel (Ext K)} (hW : WF lm)
    {s : StdModel (Ext K)} (hs : standardize lm = .ok s) (stallExtra phase1Limit : Nat)
    (hfacts : StartFacts tol stallExtra phase1Limit (stdK s))
    {T : Tab K} (hT : intoTableau tol stallExtra phase1Limit (stdK s) = .ok T) : CanonicalFor T (stdK s) :=
  intoTableau_canonicalFor ht hW hs stallExtra phase1Limit hfacts hT

/-! ### the REAL tolerance: when do the tolerant decisions coincide with the exact ones?

`ComposeTol.SepT tol T` — every reduced cost and matrix entry of `T` is `0` or `≥ tol` in magnitude (the cost / entry
clauses of C14's `Bland.Sep`).  On such a tableau one step of the code as it runs (`tol > 0`) IS one step of the exact code
(`step_tol_eq_exact_partial`); along a run whose visited tableaus are all separated (`ComposeTol.SepAlong`, decidable
per run) the loop run WITH THE TOLERANCE has exact verdicts (`slow_simplex_tol_verdict_partial`) — no `tol = 0`
idealisation of the loop is left in that statement.  Integer tableaus are separated for every `tol ≤ 1`
(`integral_separated`).  `hex : Gen.ratioTestExact = true` is the regenerated fact that the ratio test is exact
(fix 64d5c0e); it is `rfl` on the current source.

NOT achieved: a SOURCE-side class for which separation of every visited tableau is guaranteed a priori.  Integrality of
the data is not preserved by the code: `into_tableau` scales a row by its first independent entry (`2x + s = 4` becomes
`x + s/2 = 2`) and pivots divide by the pivot element, so only totally unimodular systems (every pivot element `±1`) stay
integral — that theory is not formalised here. -/

/-- **one tolerant step = one exact step on a separated tableau.** -/
theorem step_tol_eq_exact_partial {tol : K} (ht : 0 < tol) (hex : Gen.ratioTestExact = true) {T : Tab K}
    (hS : ComposeTol.SepT tol T) (prefer : List Nat) (bland : Bool) :
    stepInner tol T prefer bland = stepInner (0:K) T prefer bland :=
  ComposeTol.stepInner_tol_eq_exact ht hex hS prefer bland

/-- a tableau with integer reduced costs and entries is separated for every tolerance `tol ≤ 1`. -/
theorem integral_separated {tol : K} (htol : tol ≤ 1) {T : Tab K} (h : ComposeTol.Integral T) : ComposeTol.SepT tol T :=
  ComposeTol.sepT_of_integral htol h

/-- **the verdict of the path with the tolerance the code really uses.**  Well-formed continuous `lm`, standard form `s`,
whatever tableau `into_tableau tol` returns under `StartFacts`, then the loop `solve tol` — the SAME `tol > 0` — on a run
whose visited tableaus are separated: `Finished` ⇒ feasible and optimal for `lm`, `optimal_value` = objective;
`Unbounded` ⇒ `lm` unbounded. -/
theorem slow_simplex_tol_verdict_partial {tol : K} (ht : 0 < tol) (hex : Gen.ratioTestExact = true)
    {lm : LinModel (Ext K)} (hW : WF lm) {s : StdModel (Ext K)} (hs : standardize lm = .ok s)
    (stallExtra phase1Limit : Nat) (hfacts : StartFacts tol stallExtra phase1Limit (stdK s))
    {T : Tab K} (hT : intoTableau tol stallExtra phase1Limit (stdK s) = .ok T) (limit : Nat) (prefer : List Nat)
    (hsep : ComposeTol.SepAlong tol prefer (T.c.length + T.a.length + stallExtra) limit T 0 T.value) :
    ((solve tol stallExtra limit prefer T).result = .ok () →
      LinFeasible lm (preimage lm (basicSolution (solve tol stallExtra limit prefer T).final)) ∧
      (∀ x, LinFeasible lm x →
        (lm.optType = .min →
          obj lm (preimage lm (basicSolution (solve tol stallExtra limit prefer T).final)) ≤ obj lm x) ∧
        (lm.optType = .max →
          obj lm x ≤ obj lm (preimage lm (basicSolution (solve tol stallExtra limit prefer T).final)))) ∧
      optimalValue (solve tol stallExtra limit prefer T).final =
        obj lm (preimage lm (basicSolution (solve tol stallExtra limit prefer T).final))) ∧
    ((solve tol stallExtra limit prefer T).result = .error .unbounded →
      ∀ M : K, ∃ x, LinFeasible lm x ∧ (lm.optType = .min → obj lm x < M) ∧ (lm.optType = .max → M < obj lm x)) :=
  ComposeTol.tol_loop_verdict ht hex hW hs (intoTableau_canonicalFor ht hW hs stallExtra phase1Limit hfacts hT)
    stallExtra limit prefer hsep

/-! ### the built-in simplex honours the solver contract that C03's composition assumes

`Rooc/Proofs/ComposeSem.lean` relates the two readings of a linear model: by NAME (`Sem.linFeasible`,
`Sem.linObjective`: C01/C02/C03) and POSITIONAL (`StdSem.LinFeasible`, `StdSem.obj`: C13).  They coincide along
`x = lm.vars.map ρ` when the variable names are distinct, the domain declares exactly them (`ComposeSem.DomVars`) and
`NonNegativeReal(lo, _)` has `0 ≤ lo` (`ComposeSem.NNOK`; otherwise the standardizer's `x ≥ 0` and the by-name domain
disagree — DESIGN.md appendix A).  `ComposeSem.pointOf vars x` is the assignment `varsᵢ ↦ xᵢ`. -/

/-- **`Finished` at exact arithmetic ⇒ `Compose.LinOptimal`**, with `optimal_value` as the linear objective
(offset included) at the returned point. -/
theorem slow_simplex_linOptimal_exact {lm : LinModel (Ext K)} (hW : WF lm) (hnn : ∀ d ∈ lm.domain, ComposeSem.NNOK d.ty)
    (hdv : ComposeSem.DomVars lm) (hnd : lm.vars.Nodup) {s : StdModel (Ext K)} (hs : standardize lm = .ok s)
    {T : Tab K} (hT : CanonicalFor T (stdK s)) (stallExtra limit : Nat) (prefer : List Nat)
    (hfin : (solve (0:K) stallExtra limit prefer T).result = .ok ()) :
    Compose.LinOptimal lm
      (ComposeSem.pointOf lm.vars (preimage lm (basicSolution (solve (0:K) stallExtra limit prefer T).final))) ∧
    Sem.linObjective lm
      (ComposeSem.pointOf lm.vars (preimage lm (basicSolution (solve (0:K) stallExtra limit prefer T).final))) =
      some (optimalValue (solve (0:K) stallExtra limit prefer T).final) :=
  ComposeSem.simplex_linOptimal hW hnn hdv hnd hs hT stallExtra limit prefer hfin

/-- **`Unbounded` at exact arithmetic ⇒ `Compose.LinUnbounded`.** -/
theorem slow_simplex_linUnbounded_exact {lm : LinModel (Ext K)} (hW : WF lm) (hnn : ∀ d ∈ lm.domain, ComposeSem.NNOK d.ty)
    (hdv : ComposeSem.DomVars lm) (hnd : lm.vars.Nodup) {s : StdModel (Ext K)} (hs : standardize lm = .ok s)
    {T : Tab K} (hT : CanonicalFor T (stdK s)) (stallExtra limit : Nat) (prefer : List Nat)
    (hunb : (solve (0:K) stallExtra limit prefer T).result = .error .unbounded) : Compose.LinUnbounded lm :=
  ComposeSem.simplex_linUnbounded hW hnn hdv hnd hs hT stallExtra limit prefer hunb

/-- **phase-1 optimum below zero at exact arithmetic ⇒ `Compose.LinInfeasible`.** -/
theorem slow_simplex_linInfeasible_exact {lm : LinModel (Ext K)} (hW : WF lm) (hnn : ∀ d ∈ lm.domain, ComposeSem.NNOK d.ty)
    (hdv : ComposeSem.DomVars lm) {s : StdModel (Ext K)} (hs : standardize lm = .ok s)
    (stallExtra limit : Nat) (prefer : List Nat)
    (hok : (solve (0:K) stallExtra limit prefer (phase1Tab (stdK s))).result = .ok ())
    (hneg : (solve (0:K) stallExtra limit prefer (phase1Tab (stdK s))).final.value < 0) : Compose.LinInfeasible lm :=
  ComposeSem.simplex_linInfeasible hW hnn hdv hs stallExtra limit prefer hok hneg

/-- the adapter itself: by-name feasibility / objective = positional feasibility / objective. -/
theorem linFeasible_iff_positional {lm : LinModel (Ext K)} (hW : WF lm) (hnn : ∀ d ∈ lm.domain, ComposeSem.NNOK d.ty)
    (hdv : ComposeSem.DomVars lm) (ρ : String → K) :
    (Sem.linFeasible lm ρ = true ↔ LinFeasible lm (lm.vars.map ρ)) ∧
    Sem.linObjective lm ρ = some (obj lm (lm.vars.map ρ)) :=
  ⟨ComposeSem.linFeasible_iff lm hW hnn hdv ρ, ComposeSem.linObjective_eq lm hW ρ⟩

/-! ### non-vacuity (`K = ℚ`): `min −x s.t. x ≤ 2, x ≥ 0` is solved, `min −x s.t. −x ≤ 2, x ≥ 0` is unbounded -/
section examples
attribute [local instance 2000] fieldExact

/-- the standard form of `exMin` is computed by the kernel on the running definition; the tableau `exT` is canonical
for it; the loop (exact comparisons, stall parameter 1, limit 10) pivots once and stops `Finished`. -/
example : standardize exMin = .ok exMinStd ∧ WF exMin ∧ CanonicalFor exT (stdK exMinStd) ∧
    (solve (0:ℚ) 1 10 [] exT).result = .ok () :=
  ⟨exMin_std, exMin_wf, exT_canonicalFor, exT_solve.1⟩

/-- … so `slow_simplex_optimal_exact` applies: the mapped-back point is `x = 2`, it is feasible, no feasible point
has a smaller objective, and the reported optimal value is `−2`. -/
example : LinFeasible exMin [2] ∧ (∀ x, LinFeasible exMin x → obj exMin [2] ≤ obj exMin x) ∧
    optimalValue (solve (0:ℚ) 1 10 [] exT).final = -2 := by
  obtain ⟨h1, h2, h3⟩ := slow_simplex_optimal_exact exMin_wf exMin_std exT_canonicalFor 1 10 [] exT_solve.1
  rw [exT_solve.2, exT'_preimage] at h1 h2 h3
  refine ⟨h1, fun x hx => (h2 x hx).1 rfl, ?_⟩
  rw [exT_solve.2, h3]
  simp [obj, rowVal, exMin, toK]

/-- the hypotheses of `slow_simplex_unbounded_exact` are satisfiable, and it applies. -/
example : standardize exUnb = .ok exUnbStd ∧ WF exUnb ∧ CanonicalFor exTU (stdK exUnbStd) ∧
    (solve (0:ℚ) 1 10 [] exTU).result = .error .unbounded ∧
    ∀ M : ℚ, ∃ x, LinFeasible exUnb x ∧ obj exUnb x < M :=
  ⟨exUnb_std, exUnb_wf, exTU_canonicalFor, exTU_solve, fun M => by
    obtain ⟨x, hx, hmin, _⟩ :=
      slow_simplex_unbounded_exact exUnb_wf exUnb_std exTU_canonicalFor 1 10 [] exTU_solve M
    exact ⟨x, hx, hmin rfl⟩⟩

/-- `slow_simplex_verdict_exact_partial` with NO interface hypothesis: for `exMin` the start facts hold (tolerance `1e-5`,
direct branch), `into_tableau` is evaluated (`exMin_intoTableau`), the loop stops `Finished` at once, and the theorem
yields feasibility and optimality of `x = 2`. -/
example : LinFeasible exMin [2] ∧ ∀ x, LinFeasible exMin x → obj exMin [2] ≤ obj exMin x := by
  obtain ⟨h1, h2, _⟩ := (slow_simplex_verdict_exact_partial (tol := (1/100000 : ℚ)) (by norm_num) exMin_wf exMin_std 1 10
    exMin_startFacts exMin_intoTableau 10 []).1 exT'_solve.1
  rw [exT'_solve.2, exT'_preimage] at h1 h2
  exact ⟨h1, fun x hx => (h2 x hx).1 rfl⟩

/-- `slow_simplex_tol_verdict_partial` at the tolerance `1e-5` the code uses, start AND loop: for `exMin` the start facts
hold, the tableau `into_tableau` returns is integral hence separated, the tolerant loop stops `Finished` at once, and the
theorem yields optimality of `x = 2` — a statement about the run WITH the tolerance. -/
example : LinFeasible exMin [2] ∧ ∀ x, LinFeasible exMin x → obj exMin [2] ≤ obj exMin x := by
  have ht : (0:ℚ) < 1/100000 := by norm_num
  have hint : ComposeTol.Integral exT' := by
    refine ⟨fun j => ?_, fun i j => ?_⟩
    · rcases j with _ | _ | j
      · exact ⟨0, by simp [Props.C14.T0', nth]⟩
      · exact ⟨1, by simp [Props.C14.T0', nth]⟩
      · exact ⟨0, by simp [Props.C14.T0', nth]⟩
    · rcases i with _ | i
      · rcases j with _ | _ | j
        · exact ⟨1, by simp [Props.C14.T0', nth, row]⟩
        · exact ⟨1, by simp [Props.C14.T0', nth, row]⟩
        · exact ⟨0, by simp [Props.C14.T0', nth, row]⟩
      · exact ⟨0, by simp [Props.C14.T0', nth, row]⟩
  have hS : ComposeTol.SepT (1/100000 : ℚ) exT' := integral_separated (by norm_num) hint
  have hstep : stepInner (1/100000 : ℚ) exT' [] false = .ok (.finished, exT') := by
    rw [step_tol_eq_exact_partial ht rfl hS]; exact exT'_step
  have h1 : decide (0 > (Props.C14.T0'.c.length + Props.C14.T0'.a.length + 1)) = false := by decide
  have hsolve : (solve (1/100000 : ℚ) 1 10 [] exT').result = .ok () ∧ (solve (1/100000 : ℚ) 1 10 [] exT').final = exT' := by
    simp only [Tableau.solve, Tableau.solveLoop, h1, hstep, and_self]
  have hsep : ComposeTol.SepAlong (1/100000 : ℚ) [] (exT'.c.length + exT'.a.length + 1) 10 exT' 0 exT'.value := by
    refine ⟨hS, ?_⟩
    have h1' : decide (0 > (exT'.c.length + exT'.a.length + 1)) = false := by decide
    simp only [h1', hstep]
  obtain ⟨h1', h2', _⟩ := (slow_simplex_tol_verdict_partial ht rfl exMin_wf exMin_std 1 10 exMin_startFacts
    exMin_intoTableau 10 [] hsep).1 hsolve.1
  rw [hsolve.2, exT'_preimage] at h1' h2'
  exact ⟨h1', fun x hx => (h2' x hx).1 rfl⟩

/-- the hypotheses of `slow_simplex_infeasible_exact` are satisfiable (`min x s.t. x ≤ −1, x ≥ 0`: the phase-1 tableau
is optimal at once, at value `−1`), and it applies. -/
example : standardize exInf = .ok exInfStd ∧ WF exInf ∧ ¬ ∃ x, LinFeasible exInf x := by
  refine ⟨exInf_std, exInf_wf, slow_simplex_infeasible_exact exInf_wf exInf_std 1 10 [] ?_ ?_⟩
  · rw [exInf_phase1]; exact (exTI_solve []).1
  · rw [exInf_phase1, (exTI_solve []).2]; norm_num

/-- the hypotheses of `slow_simplex_direct_start_partial` are satisfiable (tolerance `1e-5`), and the tableau it
yields for `exMin` is `exT`. -/
example : Start.NoSubTol (1/100000 : ℚ) ((stdK exMinStd).rows.map (·.coeffs)) ∧
    (stdK exMinStd).rows.length ≤
      (independentColumns (1/100000 : ℚ) (stdK exMinStd).vars.length ((stdK exMinStd).rows.map (·.coeffs))).length ∧
    (selectPerRow (stdK exMinStd).rows.length
      (independentColumns (1/100000 : ℚ) (stdK exMinStd).vars.length ((stdK exMinStd).rows.map (·.coeffs)))).length
        = (stdK exMinStd).rows.length :=
  exMin_direct_hyps

/-- `slow_simplex_linOptimal_exact` applies to `max x s.t. x ≤ 2, x ≥ 0` (sign flip recorded): the by-name point
`x ↦ 2` satisfies the solver contract, with linear objective 2. -/
example : Compose.LinOptimal ComposeSem.exMax (ComposeSem.pointOf ["x"] [2]) ∧
    Sem.linObjective ComposeSem.exMax (ComposeSem.pointOf ["x"] [2]) = some 2 := by
  have h := slow_simplex_linOptimal_exact ComposeSem.exMax_wf ComposeSem.exMax_nnok ComposeSem.exMax_domVars
    ComposeSem.exMax_nodup ComposeSem.exMax_std ComposeSem.exTM_canonicalFor 1 10 [] ComposeSem.exTM_solve.1
  rw [ComposeSem.exTM_solve.2, ComposeSem.exTM'_preimage, ComposeSem.exTM'_value] at h
  exact h

end examples
end SlowSimplex

end Rooc.Props.C05
