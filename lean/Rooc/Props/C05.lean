/- C05 — property theorems only (helper lemmas live in `Rooc/Proofs`). -/
namespace Rooc.Props.C05
end Rooc.Props.C05
