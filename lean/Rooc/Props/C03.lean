/- C03 — property theorems only (helper lemmas live in `Rooc/Proofs`). -/
namespace Rooc.Props.C03
end Rooc.Props.C03
