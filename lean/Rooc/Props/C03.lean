/-
C03 — End-to-end answers are right.  PROPERTY THEOREMS ONLY (helper lemmas: `Rooc/Proofs/ExpVars.lean`,
`Rooc/Proofs/RefLemmas.lean`, `Rooc/Proofs/RatInst.lean`).

What is proved here is the specification of the REFERENCE INTERPRETER `Ref.refSolve` that judges every
end-to-end answer of the real pipeline in `./check C03`: its verdicts are justified against the
language semantics (`Sem.eval`, `Sem.srcFeasible`, DESIGN.md appendix A) for ALL assignments
`ρ : String → K`, not only the enumerated ones.  `K` is any linearly ordered field with a floor
(ℚ, ℝ, …); the definitions are the import-free ones that run at `Rat` inside the oracle
(`fieldExact_rat` : at `K = ℚ` the two instances coincide).

`Closed m` (decidable) : every variable occurring in the objective or in a constraint is a declared
variable with a usage mark — true of every model produced from a source text by the front end.
-/
import Rooc.Proofs.RefLemmas
import Rooc.Proofs.RatInst
namespace Rooc.Props.C03
open Rooc Rooc.Sem Rooc.Ref Rooc.Exp

variable {K : Type} [Field K] [LinearOrder K] [IsStrictOrderedRing K] [FloorRing K]

/-! ### Congruence: meaning depends only on the variables that occur -/

/-- the value of an expression depends only on the variables that occur in it. -/
theorem eval_congr {ρ ρ' : String → K} (e : Exp (Ext K)) (h : ∀ s ∈ vars e, ρ s = ρ' s) :
    eval ρ e = eval ρ' e := Sem.eval_congr e h

/-- feasibility of a closed model depends only on the used declared variables. -/
theorem srcFeasible_congr {m : Model (Ext K)} {ρ ρ' : String → K} (hc : Closed m = true)
    (h : ∀ d ∈ m.domain, d.usage > 0 → ρ d.name = ρ' d.name) :
    srcFeasible m ρ = srcFeasible m ρ' := Ref.srcFeasible_congr hc h

/-- so does the objective. -/
theorem objective_congr {m : Model (Ext K)} {ρ ρ' : String → K} (hc : Closed m = true)
    (h : ∀ d ∈ m.domain, d.usage > 0 → ρ d.name = ρ' d.name) :
    eval ρ m.objective = eval ρ' m.objective := Ref.objective_congr hc h

/-! ### The enumeration is complete -/

/-- COMPLETENESS of the enumeration: whenever the declared domains are enumerable, EVERY assignment that
puts each used declared variable inside its domain agrees on all those variables with one of the
enumerated association lists (no distinctness hypothesis on the names is needed: for a repeated name
the first entry wins in `lookup`, and it carries the value of that name). -/
theorem assignments_complete (ds : List (DomVar (Ext K))) (asg : List (List (String × K)))
    (h : assignments ds = some asg) (ρ : String → K)
    (hρ : ∀ d ∈ ds, d.usage > 0 → inDomain (ρ d.name) d.ty = true) :
    ∃ a ∈ asg, ∀ d ∈ ds, d.usage > 0 → lookup a d.name = ρ d.name :=
  Ref.assignments_complete ds asg h ρ hρ

/-- `best` is an arg-min / arg-max fold: its result is a member of the list and no member is strictly
better in the direction of optimisation. -/
theorem best_spec {o : OptType} {l : List (K × List (String × K))} {p : K × List (String × K)}
    (h : best o l = some p) : p ∈ l ∧ ∀ q ∈ l, better o q.1 p.1 = false := Ref.best_spec h

/-! ### 1. `infeasible` -/

/-- the enumerated form: `infeasible` means no enumerated point is feasible. -/
theorem refSolve_infeasible_spec {m : Model (Ext K)} {asg : List (List (String × K))}
    (h : refSolve m = .infeasible) (ha : assignments m.domain = some asg) :
    ∀ a ∈ asg, srcFeasible m (lookup a) = false := by
  intro a haa
  cases hf : srcFeasible m (lookup a) with
  | false => rfl
  | true =>
    exfalso
    have hout := refSolve_outcome m
    rw [h] at hout
    cases hout with
    | infeasible asg' ha' hnil =>
      rw [ha] at ha'
      cases ha'
      have : a ∈ feasList m asg := by simp [feasList, haa, hf]
      rw [hnil] at this
      cases this

/-- THE STATEMENT: when the reference says `infeasible`, NO assignment whatsoever satisfies the model. -/
theorem refSolve_infeasible_sound {m : Model (Ext K)} (h : refSolve m = .infeasible)
    (hc : Closed m = true) : ∀ ρ : String → K, srcFeasible m ρ = false := by
  intro ρ
  cases hf : srcFeasible m ρ with
  | false => rfl
  | true =>
    exfalso
    have hout := refSolve_outcome m
    rw [h] at hout
    cases hout with
    | infeasible asg ha hnil =>
      obtain ⟨a, hmem, _⟩ := feasible_has_representative ha hc hf
      rw [hnil] at hmem
      cases hmem

/-- converse: if some assignment satisfies a closed model with enumerable domains, the verdict is not
`infeasible` (and not `continuous`): the reference answers with a solution or reports an undefined
objective. -/
theorem refSolve_feasible_not_infeasible {m : Model (Ext K)} {asg : List (List (String × K))}
    (ha : assignments m.domain = some asg) (hc : Closed m = true) {ρ : String → K}
    (hf : srcFeasible m ρ = true) : refSolve m ≠ .infeasible ∧ refSolve m ≠ .continuous := by
  constructor
  · intro h
    have := refSolve_infeasible_sound h hc ρ
    rw [hf] at this
    cases this
  · intro h
    have hout := refSolve_outcome m
    rw [h] at hout
    cases hout with
    | continuous hn => rw [ha] at hn; cases hn

/-- `infeasible` exactly when no assignment satisfies the model (closed model, enumerable domains). -/
theorem refSolve_infeasible_iff {m : Model (Ext K)} {asg : List (List (String × K))}
    (ha : assignments m.domain = some asg) (hc : Closed m = true) :
    refSolve m = .infeasible ↔ ∀ ρ : String → K, srcFeasible m ρ = false := by
  constructor
  · intro h; exact refSolve_infeasible_sound h hc
  · intro hall
    have hout := refSolve_outcome m
    have hno : ∀ a, a ∉ feasList m asg := by
      intro a hmem
      have := (List.mem_filter.1 hmem).2
      rw [hall] at this
      cases this
    generalize refSolve m = r at hout
    cases hout with
    | continuous hn => rw [ha] at hn; cases hn
    | infeasible => rfl
    | feasibleAny asg' w rest ha' hfe =>
      rw [ha] at ha'; cases ha'
      exact absurd (by rw [hfe]; simp) (hno w)
    | undefinedObjective asg' a ha' _ hmem =>
      rw [ha] at ha'; cases ha'
      exact absurd hmem (hno a)
    | optimal asg' v w ha' _ hne =>
      rw [ha] at ha'; cases ha'
      cases hfl : feasList m asg with
      | nil => exact absurd hfl hne
      | cons a _ => exact absurd (by rw [hfl]; simp) (hno a)

/-! ### 2. `optimal v w` -/

/-- THE STATEMENT: when the reference says `optimal v w`, the witness `w` satisfies the model, the
objective of the text evaluated at `w` is `v`, and NO assignment whatsoever that satisfies the model has a
strictly better objective value. -/
theorem refSolve_optimal_spec {m : Model (Ext K)} {v : K} {w : List (String × K)}
    (h : refSolve m = .optimal v w) :
    m.optType ≠ .satisfy ∧ srcFeasible m (lookup w) = true ∧ eval (lookup w) m.objective = some v ∧
      (Closed m = true → ∀ ρ : String → K, srcFeasible m ρ = true →
        ∀ v', eval ρ m.objective = some v' → better m.optType v' v = false) := by
  have hout := refSolve_outcome m
  rw [h] at hout
  cases hout with
  | optimal asg _ _ ha hne _ hall hb =>
    obtain ⟨hmem, hbest⟩ := Ref.best_spec hb
    obtain ⟨hw, hv⟩ := mem_valList.1 hmem
    refine ⟨hne, (List.mem_filter.1 hw).2, hv, ?_⟩
    intro hc ρ hf v' hv'
    obtain ⟨a, hmem', _, hobj⟩ := feasible_has_representative ha hc hf
    exact hbest (v', a) (mem_valList.2 ⟨hmem', by rw [hobj, hv']⟩)

/-- the same in order notation: a reported minimum is `≤`, a reported maximum `≥`, the objective of every
assignment that satisfies the model. -/
theorem refSolve_optimal_le {m : Model (Ext K)} {v : K} {w : List (String × K)}
    (h : refSolve m = .optimal v w) (hc : Closed m = true) {ρ : String → K}
    (hf : srcFeasible m ρ = true) {v' : K} (hv' : eval ρ m.objective = some v') :
    (m.optType = .min → v ≤ v') ∧ (m.optType = .max → v' ≤ v) := by
  have hb := (refSolve_optimal_spec h).2.2.2 hc ρ hf v' hv'
  constructor <;> intro ho <;> rw [ho] at hb <;> simpa [better] using hb

/-- converse: a closed model with enumerable domains, an optimisation direction, some satisfying
assignment, and an objective that is defined at every satisfying assignment gets the verdict `optimal`. -/
theorem refSolve_optimal_complete {m : Model (Ext K)} {asg : List (List (String × K))}
    (ha : assignments m.domain = some asg) (hc : Closed m = true) (ho : m.optType ≠ .satisfy)
    {ρ : String → K} (hf : srcFeasible m ρ = true)
    (hdef : ∀ ρ' : String → K, srcFeasible m ρ' = true → (eval ρ' m.objective).isSome = true) :
    ∃ v w, refSolve m = .optimal v w := by
  have hout := refSolve_outcome m
  obtain ⟨hni, hnc⟩ := refSolve_feasible_not_infeasible ha hc hf
  generalize refSolve m = r at hout hni hnc
  cases hout with
  | continuous => exact absurd rfl hnc
  | infeasible => exact absurd rfl hni
  | feasibleAny _ _ _ _ _ hs => exact absurd hs ho
  | undefinedObjective _ a _ _ hmem hnone =>
    have := hdef (lookup a) (List.mem_filter.1 hmem).2
    rw [hnone] at this
    cases this
  | optimal _ v w => exact ⟨v, w, rfl⟩

/-! ### 3. `feasibleAny w` (objective `satisfy`) -/

/-- when the reference says `feasibleAny w`, the model is a `satisfy` model and `w` satisfies it. -/
theorem refSolve_feasibleAny_spec {m : Model (Ext K)} {w : List (String × K)}
    (h : refSolve m = .feasibleAny w) : m.optType = .satisfy ∧ srcFeasible m (lookup w) = true := by
  have hout := refSolve_outcome m
  rw [h] at hout
  cases hout with
  | feasibleAny asg _ rest ha hfe hs =>
    refine ⟨hs, ?_⟩
    have : w ∈ feasList m asg := by rw [hfe]; simp
    exact (List.mem_filter.1 this).2

/-- converse: a closed `satisfy` model with enumerable domains and some satisfying assignment gets a
witness. -/
theorem refSolve_feasibleAny_complete {m : Model (Ext K)} {asg : List (List (String × K))}
    (ha : assignments m.domain = some asg) (hc : Closed m = true) (ho : m.optType = .satisfy)
    {ρ : String → K} (hf : srcFeasible m ρ = true) : ∃ w, refSolve m = .feasibleAny w := by
  have hout := refSolve_outcome m
  obtain ⟨hni, hnc⟩ := refSolve_feasible_not_infeasible ha hc hf
  generalize refSolve m = r at hout hni hnc
  cases hout with
  | continuous => exact absurd rfl hnc
  | infeasible => exact absurd rfl hni
  | feasibleAny _ w => exact ⟨w, rfl⟩
  | undefinedObjective _ _ _ hs => exact absurd ho hs
  | optimal _ _ _ _ hs => exact absurd ho hs

/-! ### The remaining two verdicts, so that the case analysis is total -/

/-- `undefinedObjective` : some satisfying assignment has no objective value (division by zero, empty
min/max or a non-finite literal in the objective), and the model is not a `satisfy` model. -/
theorem refSolve_undefinedObjective_spec {m : Model (Ext K)} (h : refSolve m = .undefinedObjective) :
    m.optType ≠ .satisfy ∧
      ∃ a, srcFeasible m (lookup a) = true ∧ eval (lookup a) m.objective = none := by
  have hout := refSolve_outcome m
  rw [h] at hout
  cases hout with
  | undefinedObjective asg a _ hs hmem hnone => exact ⟨hs, a, (List.mem_filter.1 hmem).2, hnone⟩

/-- `continuous` exactly when some used declared variable has a non-enumerable (Real) domain. -/
theorem refSolve_continuous_iff {m : Model (Ext K)} :
    refSolve m = .continuous ↔ assignments m.domain = none := by
  have hout := refSolve_outcome m
  constructor
  · intro h
    rw [h] at hout
    cases hout with
    | continuous hn => exact hn
  · intro hn
    generalize refSolve m = r at hout
    cases hout with
    | continuous => rfl
    | infeasible _ ha => rw [hn] at ha; cases ha
    | feasibleAny _ _ _ ha => rw [hn] at ha; cases ha
    | undefinedObjective _ _ ha => rw [hn] at ha; cases ha
    | optimal _ _ _ ha => rw [hn] at ha; cases ha

/-- "a solution exactly when a satisfying assignment exists" — for the reference. -/
theorem refSolve_solution_iff {m : Model (Ext K)} {asg : List (List (String × K))}
    (ha : assignments m.domain = some asg) (hc : Closed m = true)
    (hdef : ∀ ρ' : String → K, srcFeasible m ρ' = true → (eval ρ' m.objective).isSome = true) :
    (∃ ρ : String → K, srcFeasible m ρ = true) ↔
      ((∃ w, refSolve m = .feasibleAny w) ∨ ∃ v w, refSolve m = .optimal v w) := by
  constructor
  · rintro ⟨ρ, hf⟩
    by_cases ho : m.optType = .satisfy
    · exact Or.inl (refSolve_feasibleAny_complete ha hc ho hf)
    · exact Or.inr (refSolve_optimal_complete ha hc ho hf hdef)
  · rintro (⟨w, h⟩ | ⟨v, w, h⟩)
    · exact ⟨lookup w, (refSolve_feasibleAny_spec h).2⟩
    · exact ⟨lookup w, (refSolve_optimal_spec h).2.1⟩

/-! ### Non-vacuity: concrete models at `K = ℚ`

The verdicts are COMPUTED (`decide +kernel` on the running definitions, transferred to the theorems'
instance by `fieldExact_rat`), then the theorems above are applied to them. -/
section examples
attribute [local instance 2000] fieldExact

private def c (name : String) (l : Exp (Ext ℚ)) (cmp : Cmp) (r : Exp (Ext ℚ)) : Constraint (Ext ℚ) :=
  { name := name, lhs := l, cmp := cmp, rhs := r, isAssert := false }
private def x : Exp (Ext ℚ) := .var "x"
private def y : Exp (Ext ℚ) := .var "y"
private def n (q : ℚ) : Exp (Ext ℚ) := .num (.fin q)

/-- `max x + y  s.t.  x + y <= 3,  x in {0..2}, y Boolean`. -/
def exOpt : Model (Ext ℚ) :=
  { optType := .max, objective := .bin .add x y, constraints := [c "c" (.bin .add x y) .le (n 3)],
    domain := [{ name := "x", ty := .int 0 2, usage := 1 }, { name := "y", ty := .bool, usage := 1 }] }

/-- `min x  s.t.  x >= 1, x + y <= 0` — contradictory. -/
def exInf : Model (Ext ℚ) :=
  { optType := .min, objective := x,
    constraints := [c "a" x .ge (n 1), c "b" (.bin .add x y) .le (n 0)],
    domain := [{ name := "x", ty := .int 0 2, usage := 1 }, { name := "y", ty := .bool, usage := 1 },
               { name := "unused", ty := .real .ninf .pinf, usage := 0 }] }

/-- `solve  s.t.  x or y` as a bare assertion, `x != y` as `abs(x - y) >= 1`. -/
def exSat : Model (Ext ℚ) :=
  { optType := .satisfy, objective := n 0,
    constraints := [{ name := "a", lhs := .or [x, y], cmp := .eq, rhs := n 0, isAssert := true },
                    c "b" (.abs (.bin .sub x y)) .ge (n 1)],
    domain := [{ name := "x", ty := .bool, usage := 1 }, { name := "y", ty := .bool, usage := 1 }] }

/-- `min 1 / x` over `x in {0,1}` : the objective is undefined at the feasible point `x = 0`. -/
def exUndef : Model (Ext ℚ) :=
  { optType := .min, objective := .bin .div (n 1) x, constraints := [],
    domain := [{ name := "x", ty := .bool, usage := 1 }] }

/-- a bounded Real variable : not enumerable. -/
def exCont : Model (Ext ℚ) :=
  { optType := .min, objective := x, constraints := [],
    domain := [{ name := "x", ty := .real (.fin 0) (.fin 1), usage := 1 }] }

example : refSolve exOpt = .optimal 3 [("x", 2), ("y", 1)] := by rw [fieldExact_rat]; decide +kernel
example : refSolve exInf = .infeasible := by rw [fieldExact_rat]; decide +kernel
example : refSolve exSat = .feasibleAny [("x", 1), ("y", 0)] := by rw [fieldExact_rat]; decide +kernel
example : refSolve exUndef = .undefinedObjective := by rw [fieldExact_rat]; decide +kernel
example : refSolve exCont = .continuous := by rw [fieldExact_rat]; decide +kernel
example : Closed exOpt = true ∧ Closed exInf = true ∧ Closed exSat = true := by decide

/-- `refSolve_infeasible_sound` applies: NO assignment `ρ : String → ℚ` satisfies `exInf`. -/
example : ∀ ρ : String → ℚ, srcFeasible exInf ρ = false :=
  refSolve_infeasible_sound (by rw [fieldExact_rat]; decide +kernel) (by decide)

/-- `refSolve_optimal_spec` applies: no assignment satisfying `exOpt` has `x + y > 3`, and the
optimum 3 is attained at `x = 2, y = 1`. -/
example : srcFeasible exOpt (lookup [("x", (2 : ℚ)), ("y", 1)]) = true ∧
    ∀ ρ : String → ℚ, srcFeasible exOpt ρ = true → ∀ v', eval ρ exOpt.objective = some v' →
      better .max v' (3 : ℚ) = false := by
  have h := refSolve_optimal_spec (m := exOpt) (v := 3) (w := [("x", 2), ("y", 1)])
    (by rw [fieldExact_rat]; decide +kernel)
  exact ⟨h.2.1, h.2.2.2 (by decide)⟩

/-- `refSolve_feasibleAny_spec` applies. -/
example : srcFeasible exSat (lookup [("x", (1 : ℚ)), ("y", 0)]) = true :=
  (refSolve_feasibleAny_spec (m := exSat) (by rw [fieldExact_rat]; decide +kernel)).2

/-- the hypotheses of the converse directions are satisfiable. -/
example : ∃ w, refSolve exSat = .feasibleAny w :=
  refSolve_feasibleAny_complete (asg := [[("x", 0), ("y", 0)], [("x", 1), ("y", 0)], [("x", 0), ("y", 1)], [("x", 1), ("y", 1)]])
    (by rw [fieldExact_rat]; decide +kernel) (by decide) rfl
    (ρ := lookup [("x", 1), ("y", 0)]) (by rw [fieldExact_rat]; decide +kernel)

/-- the enumeration is what one expects (Boolean = {0,1}, IntegerRange inclusive, unused skipped). -/
example : assignments exInf.domain =
    some [[("x", 0), ("y", 0)], [("x", 1), ("y", 0)], [("x", 2), ("y", 0)],
          [("x", 0), ("y", 1)], [("x", 1), ("y", 1)], [("x", 2), ("y", 1)]] := by
  rw [fieldExact_rat]; decide +kernel

end examples

end Rooc.Props.C03
