/-
C03 — End-to-end answers are right.  PROPERTY THEOREMS ONLY (helper lemmas: `Rooc/Proofs/ExpVars.lean`,
`Rooc/Proofs/RefLemmas.lean`, `Rooc/Proofs/RatInst.lean`).

What is proved here is the specification of the REFERENCE INTERPRETER `Ref.refSolve` that judges every
end-to-end answer of the real pipeline in `./check C03`: its verdicts are justified against the
language semantics (`Sem.eval`, `Sem.srcFeasible`, DESIGN.md appendix A) for ALL assignments
`ρ : String → K`, not only the enumerated ones.  `K` is any linearly ordered field with a floor
(ℚ, ℝ, …); the definitions are the import-free ones that run at `Rat` inside the oracle
(`fieldExact_rat` : at `K = ℚ` the two instances coincide).

`Closed m` (decidable) : every variable occurring in the objective or in a constraint is a declared
variable with a usage mark — true of every model produced from a source text by the front end.
-/
import Rooc.Proofs.RefLemmas
import Rooc.Proofs.RefMixedLemmas
import Rooc.Proofs.RefDischarge
import Rooc.Proofs.LinBridgeStatic
import Rooc.Proofs.RatInst
import Rooc.Proofs.Compose
import Rooc.Proofs.ComposeExamples
import Rooc.Proofs.ComposeE2EExamples
import Rooc.Proofs.LinDExamples2
import Rooc.Proofs.ComposeWF
import Rooc.Proofs.ComposeWFDomain
import Rooc.Proofs.ComposeSolver
import Rooc.Proofs.ComposeSolverExamples
import Rooc.Proofs.ComposeReturn
import Rooc.Proofs.ComposeVarFree
import Rooc.Proofs.ComposeVarFreeExamples
namespace Rooc.Props.C03
open Rooc Rooc.Sem Rooc.Ref Rooc.Exp

variable {K : Type} [Field K] [LinearOrder K] [IsStrictOrderedRing K] [FloorRing K]

/-! ### Congruence: meaning depends only on the variables that occur -/

/-- the value of an expression depends only on the variables that occur in it. -/
theorem eval_congr {ρ ρ' : String → K} (e : Exp (Ext K)) (h : ∀ s ∈ vars e, ρ s = ρ' s) :
    eval ρ e = eval ρ' e := Sem.eval_congr e h

/-- feasibility of a closed model depends only on the used declared variables. -/
theorem srcFeasible_congr {m : Model (Ext K)} {ρ ρ' : String → K} (hc : Closed m = true)
    (h : ∀ d ∈ m.domain, d.usage > 0 → ρ d.name = ρ' d.name) :
    srcFeasible m ρ = srcFeasible m ρ' := Ref.srcFeasible_congr hc h

/-- so does the objective. -/
theorem objective_congr {m : Model (Ext K)} {ρ ρ' : String → K} (hc : Closed m = true)
    (h : ∀ d ∈ m.domain, d.usage > 0 → ρ d.name = ρ' d.name) :
    eval ρ m.objective = eval ρ' m.objective := Ref.objective_congr hc h

/-! ### The enumeration is complete -/

/-- COMPLETENESS of the enumeration: whenever the declared domains are enumerable, EVERY assignment that
puts each used declared variable inside its domain agrees on all those variables with one of the
enumerated association lists (no distinctness hypothesis on the names is needed: for a repeated name
the first entry wins in `lookup`, and it carries the value of that name). -/
theorem assignments_complete (ds : List (DomVar (Ext K))) (asg : List (List (String × K)))
    (h : assignments ds = some asg) (ρ : String → K)
    (hρ : ∀ d ∈ ds, d.usage > 0 → inDomain (ρ d.name) d.ty = true) :
    ∃ a ∈ asg, ∀ d ∈ ds, d.usage > 0 → lookup a d.name = ρ d.name :=
  Ref.assignments_complete ds asg h ρ hρ

/-- `best` is an arg-min / arg-max fold: its result is a member of the list and no member is strictly
better in the direction of optimisation. -/
theorem best_spec {o : OptType} {l : List (K × List (String × K))} {p : K × List (String × K)}
    (h : best o l = some p) : p ∈ l ∧ ∀ q ∈ l, better o q.1 p.1 = false := Ref.best_spec h

/-! ### 1. `infeasible` -/

/-- the enumerated form: `infeasible` means no enumerated point is feasible. -/
theorem refSolve_infeasible_spec {m : Model (Ext K)} {asg : List (List (String × K))}
    (h : refSolve m = .infeasible) (ha : assignments m.domain = some asg) :
    ∀ a ∈ asg, srcFeasible m (lookup a) = false := by
  intro a haa
  cases hf : srcFeasible m (lookup a) with
  | false => rfl
  | true =>
    exfalso
    have hout := refSolve_outcome m
    rw [h] at hout
    cases hout with
    | infeasible asg' ha' hnil =>
      rw [ha] at ha'
      cases ha'
      have : a ∈ feasList m asg := by simp [feasList, haa, hf]
      rw [hnil] at this
      cases this

/-- THE STATEMENT: when the reference says `infeasible`, NO assignment whatsoever satisfies the model. -/
theorem refSolve_infeasible_sound {m : Model (Ext K)} (h : refSolve m = .infeasible)
    (hc : Closed m = true) : ∀ ρ : String → K, srcFeasible m ρ = false := by
  intro ρ
  cases hf : srcFeasible m ρ with
  | false => rfl
  | true =>
    exfalso
    have hout := refSolve_outcome m
    rw [h] at hout
    cases hout with
    | infeasible asg ha hnil =>
      obtain ⟨a, hmem, _⟩ := feasible_has_representative ha hc hf
      rw [hnil] at hmem
      cases hmem

/-- converse: if some assignment satisfies a closed model with enumerable domains, the verdict is not
`infeasible` (and not `continuous`): the reference answers with a solution or reports an undefined
objective. -/
theorem refSolve_feasible_not_infeasible {m : Model (Ext K)} {asg : List (List (String × K))}
    (ha : assignments m.domain = some asg) (hc : Closed m = true) {ρ : String → K}
    (hf : srcFeasible m ρ = true) : refSolve m ≠ .infeasible ∧ refSolve m ≠ .continuous := by
  constructor
  · intro h
    have := refSolve_infeasible_sound h hc ρ
    rw [hf] at this
    cases this
  · intro h
    have hout := refSolve_outcome m
    rw [h] at hout
    cases hout with
    | continuous hn => rw [ha] at hn; cases hn

/-- `infeasible` exactly when no assignment satisfies the model (closed model, enumerable domains). -/
theorem refSolve_infeasible_iff {m : Model (Ext K)} {asg : List (List (String × K))}
    (ha : assignments m.domain = some asg) (hc : Closed m = true) :
    refSolve m = .infeasible ↔ ∀ ρ : String → K, srcFeasible m ρ = false := by
  constructor
  · intro h; exact refSolve_infeasible_sound h hc
  · intro hall
    have hout := refSolve_outcome m
    have hno : ∀ a, a ∉ feasList m asg := by
      intro a hmem
      have := (List.mem_filter.1 hmem).2
      rw [hall] at this
      cases this
    generalize refSolve m = r at hout
    cases hout with
    | continuous hn => rw [ha] at hn; cases hn
    | infeasible => rfl
    | feasibleAny asg' w rest ha' hfe =>
      rw [ha] at ha'; cases ha'
      exact absurd (by rw [hfe]; simp) (hno w)
    | undefinedObjective asg' a ha' _ hmem =>
      rw [ha] at ha'; cases ha'
      exact absurd hmem (hno a)
    | optimal asg' v w ha' _ hne =>
      rw [ha] at ha'; cases ha'
      cases hfl : feasList m asg with
      | nil => exact absurd hfl hne
      | cons a _ => exact absurd (by rw [hfl]; simp) (hno a)

/-! ### 2. `optimal v w` -/

/-- THE STATEMENT: when the reference says `optimal v w`, the witness `w` satisfies the model, the
objective of the text evaluated at `w` is `v`, and NO assignment whatsoever that satisfies the model has a
strictly better objective value. -/
theorem refSolve_optimal_spec {m : Model (Ext K)} {v : K} {w : List (String × K)}
    (h : refSolve m = .optimal v w) :
    m.optType ≠ .satisfy ∧ srcFeasible m (lookup w) = true ∧ eval (lookup w) m.objective = some v ∧
      (Closed m = true → ∀ ρ : String → K, srcFeasible m ρ = true →
        ∀ v', eval ρ m.objective = some v' → better m.optType v' v = false) := by
  have hout := refSolve_outcome m
  rw [h] at hout
  cases hout with
  | optimal asg _ _ ha hne _ hall hb =>
    obtain ⟨hmem, hbest⟩ := Ref.best_spec hb
    obtain ⟨hw, hv⟩ := mem_valList.1 hmem
    refine ⟨hne, (List.mem_filter.1 hw).2, hv, ?_⟩
    intro hc ρ hf v' hv'
    obtain ⟨a, hmem', _, hobj⟩ := feasible_has_representative ha hc hf
    exact hbest (v', a) (mem_valList.2 ⟨hmem', by rw [hobj, hv']⟩)

/-- when the reference answers `optimal`, the objective is DEFINED at every assignment that satisfies the model (otherwise
the verdict would have been `undefinedObjective`). -/
theorem refSolve_optimal_objective_defined {m : Model (Ext K)} {v : K} {w : List (String × K)}
    (h : refSolve m = .optimal v w) (hc : Closed m = true) {ρ : String → K} (hf : srcFeasible m ρ = true) :
    (eval ρ m.objective).isSome = true := by
  have hout := refSolve_outcome m
  rw [h] at hout
  cases hout with
  | optimal asg _ _ ha _ _ hall _ =>
    obtain ⟨a, hmem, _, hobj⟩ := feasible_has_representative ha hc hf
    rw [← hobj]; exact hall a hmem

/-- the same in order notation: a reported minimum is `≤`, a reported maximum `≥`, the objective of every
assignment that satisfies the model. -/
theorem refSolve_optimal_le {m : Model (Ext K)} {v : K} {w : List (String × K)}
    (h : refSolve m = .optimal v w) (hc : Closed m = true) {ρ : String → K}
    (hf : srcFeasible m ρ = true) {v' : K} (hv' : eval ρ m.objective = some v') :
    (m.optType = .min → v ≤ v') ∧ (m.optType = .max → v' ≤ v) := by
  have hb := (refSolve_optimal_spec h).2.2.2 hc ρ hf v' hv'
  constructor <;> intro ho <;> rw [ho] at hb <;> simpa [better] using hb

/-- converse: a closed model with enumerable domains, an optimisation direction, some satisfying
assignment, and an objective that is defined at every satisfying assignment gets the verdict `optimal`. -/
theorem refSolve_optimal_complete {m : Model (Ext K)} {asg : List (List (String × K))}
    (ha : assignments m.domain = some asg) (hc : Closed m = true) (ho : m.optType ≠ .satisfy)
    {ρ : String → K} (hf : srcFeasible m ρ = true)
    (hdef : ∀ ρ' : String → K, srcFeasible m ρ' = true → (eval ρ' m.objective).isSome = true) :
    ∃ v w, refSolve m = .optimal v w := by
  have hout := refSolve_outcome m
  obtain ⟨hni, hnc⟩ := refSolve_feasible_not_infeasible ha hc hf
  generalize refSolve m = r at hout hni hnc
  cases hout with
  | continuous => exact absurd rfl hnc
  | infeasible => exact absurd rfl hni
  | feasibleAny _ _ _ _ _ hs => exact absurd hs ho
  | undefinedObjective _ a _ _ hmem hnone =>
    have := hdef (lookup a) (List.mem_filter.1 hmem).2
    rw [hnone] at this
    cases this
  | optimal _ v w => exact ⟨v, w, rfl⟩

/-! ### 3. `feasibleAny w` (objective `satisfy`) -/

/-- when the reference says `feasibleAny w`, the model is a `satisfy` model and `w` satisfies it. -/
theorem refSolve_feasibleAny_spec {m : Model (Ext K)} {w : List (String × K)}
    (h : refSolve m = .feasibleAny w) : m.optType = .satisfy ∧ srcFeasible m (lookup w) = true := by
  have hout := refSolve_outcome m
  rw [h] at hout
  cases hout with
  | feasibleAny asg _ rest ha hfe hs =>
    refine ⟨hs, ?_⟩
    have : w ∈ feasList m asg := by rw [hfe]; simp
    exact (List.mem_filter.1 this).2

/-- converse: a closed `satisfy` model with enumerable domains and some satisfying assignment gets a
witness. -/
theorem refSolve_feasibleAny_complete {m : Model (Ext K)} {asg : List (List (String × K))}
    (ha : assignments m.domain = some asg) (hc : Closed m = true) (ho : m.optType = .satisfy)
    {ρ : String → K} (hf : srcFeasible m ρ = true) : ∃ w, refSolve m = .feasibleAny w := by
  have hout := refSolve_outcome m
  obtain ⟨hni, hnc⟩ := refSolve_feasible_not_infeasible ha hc hf
  generalize refSolve m = r at hout hni hnc
  cases hout with
  | continuous => exact absurd rfl hnc
  | infeasible => exact absurd rfl hni
  | feasibleAny _ w => exact ⟨w, rfl⟩
  | undefinedObjective _ _ _ hs => exact absurd ho hs
  | optimal _ _ _ _ hs => exact absurd ho hs

/-! ### The remaining two verdicts, so that the case analysis is total -/

/-- `undefinedObjective` : some satisfying assignment has no objective value (division by zero, empty
min/max or a non-finite literal in the objective), and the model is not a `satisfy` model. -/
theorem refSolve_undefinedObjective_spec {m : Model (Ext K)} (h : refSolve m = .undefinedObjective) :
    m.optType ≠ .satisfy ∧
      ∃ a, srcFeasible m (lookup a) = true ∧ eval (lookup a) m.objective = none := by
  have hout := refSolve_outcome m
  rw [h] at hout
  cases hout with
  | undefinedObjective asg a _ hs hmem hnone => exact ⟨hs, a, (List.mem_filter.1 hmem).2, hnone⟩

/-- `continuous` exactly when some used declared variable has a non-enumerable (Real) domain. -/
theorem refSolve_continuous_iff {m : Model (Ext K)} :
    refSolve m = .continuous ↔ assignments m.domain = none := by
  have hout := refSolve_outcome m
  constructor
  · intro h
    rw [h] at hout
    cases hout with
    | continuous hn => exact hn
  · intro hn
    generalize refSolve m = r at hout
    cases hout with
    | continuous => rfl
    | infeasible _ ha => rw [hn] at ha; cases ha
    | feasibleAny _ _ _ ha => rw [hn] at ha; cases ha
    | undefinedObjective _ _ ha => rw [hn] at ha; cases ha
    | optimal _ _ _ ha => rw [hn] at ha; cases ha

/-- "a solution exactly when a satisfying assignment exists" — for the reference. -/
theorem refSolve_solution_iff {m : Model (Ext K)} {asg : List (List (String × K))}
    (ha : assignments m.domain = some asg) (hc : Closed m = true)
    (hdef : ∀ ρ' : String → K, srcFeasible m ρ' = true → (eval ρ' m.objective).isSome = true) :
    (∃ ρ : String → K, srcFeasible m ρ = true) ↔
      ((∃ w, refSolve m = .feasibleAny w) ∨ ∃ v w, refSolve m = .optimal v w) := by
  constructor
  · rintro ⟨ρ, hf⟩
    by_cases ho : m.optType = .satisfy
    · exact Or.inl (refSolve_feasibleAny_complete ha hc ho hf)
    · exact Or.inr (refSolve_optimal_complete ha hc ho hf hdef)
  · rintro (⟨w, h⟩ | ⟨v, w, h⟩)
    · exact ⟨lookup w, (refSolve_feasibleAny_spec h).2⟩
    · exact ⟨lookup w, (refSolve_optimal_spec h).2.1⟩

/-! ### MIXED models: discrete declarations enumerated exactly, continuous residuals delegated

`Ref.refSolveMixed sub m` (`Rooc/RefMixed.lean`) enumerates the used Boolean / IntegerRange declarations, substitutes each
assignment `a` into the model (`Ref.residual a m`: a model over the continuous declarations only), asks `sub` about every
residual and combines: any `unbounded` residual → `unbounded`; otherwise the best residual optimum (first best wins);
`infeasible` iff every residual is.

* DECIDED EXACTLY (proved here): the enumeration is complete and sound (`discreteAssignments_complete`,
  `discreteAssignments_fixes`), substitution is evaluation under the overridden assignment (`residual_spec`), the
  combination is an arg-min/arg-max over the residual optima.
* DELEGATED: each continuous residual problem, to `sub`, under the contract `Ref.SubOK` (an answered verdict is right for
  the residual; `unknown` promises nothing).  The contract is an explicit hypothesis per residual; rooc's own exact simplex
  on the compiled residual meets it (`c03_slow_simplex_end_to_end_src_partial` below), and for a model WITHOUT continuous
  declarations plain evaluation meets it (`subConst_meets_contract`).
No `Closed` hypothesis is needed here (substitution handles every name); declared names pairwise distinct is
(`IndexMap` keys). -/

/-- the residual model at `ρ` is the model at `ρ` overridden by the discrete assignment: same feasibility, same
objective. -/
theorem residual_spec {m : Model (Ext K)} (hnd : (m.domain.map (·.name)).Nodup) {a : List (String × K)}
    (ha : a ∈ discreteAssignments m.domain) (ρ : String → K) :
    srcFeasible (residual a m) ρ = srcFeasible m (over a ρ) ∧
    eval ρ (residual a m).objective = eval (over a ρ) m.objective :=
  ⟨srcFeasible_residual (discreteAssignments_fixes hnd ha) ρ, objective_residual a m ρ⟩

/-- completeness of the discrete enumeration: every assignment satisfying the model is a point of one of the residuals
(with its own continuous values). -/
theorem discrete_enumeration_complete {m : Model (Ext K)} (hnd : (m.domain.map (·.name)).Nodup) {ρ : String → K}
    (hf : srcFeasible m ρ = true) :
    ∃ a ∈ discreteAssignments m.domain, srcFeasible (residual a m) ρ = true ∧
      eval ρ (residual a m).objective = eval ρ m.objective := by
  obtain ⟨a, ha, hov⟩ := discreteAssignments_complete m.domain ρ (enumerated_inDomain_of_feasible hf)
  obtain ⟨h1, h2⟩ := residual_spec hnd ha ρ
  exact ⟨a, ha, by rw [h1, hov]; exact hf, by rw [h2, hov]⟩

/-- `infeasible`: NO assignment satisfies the model. -/
theorem refSolveMixed_infeasible_sound {sub : Model (Ext K) → SubVerdict K} {m : Model (Ext K)}
    (hnd : (m.domain.map (·.name)).Nodup)
    (hsub : ∀ a ∈ discreteAssignments m.domain, SubOK (residual a m) (sub (residual a m)))
    (h : refSolveMixed sub m = .infeasible) : ∀ ρ : String → K, srcFeasible m ρ = false := by
  intro ρ
  cases hf : srcFeasible m ρ with
  | false => rfl
  | true =>
    exfalso
    have hout := refSolveMixed_outcome sub m
    rw [h] at hout
    cases hout with
    | infeasible hall =>
      obtain ⟨a, ha, hfa, _⟩ := discrete_enumeration_complete hnd hf
      have := (hsub a ha).infeasible (hall a ha) ρ
      rw [hfa] at this; cases this

/-- `optimal v w`: the witness (discrete values, then the sub-solver's continuous values) satisfies the model, the
objective there is `v`, and NO assignment satisfying the model has a strictly better objective. -/
theorem refSolveMixed_optimal_spec {sub : Model (Ext K) → SubVerdict K} {m : Model (Ext K)}
    (hnd : (m.domain.map (·.name)).Nodup)
    (hsub : ∀ a ∈ discreteAssignments m.domain, SubOK (residual a m) (sub (residual a m)))
    {v : K} {w : List (String × K)} (h : refSolveMixed sub m = .optimal v w) :
    srcFeasible m (lookup w) = true ∧ eval (lookup w) m.objective = some v ∧
    ∀ ρ : String → K, srcFeasible m ρ = true → ∀ v', eval ρ m.objective = some v' →
      better m.optType v' v = false := by
  have hout := refSolveMixed_outcome sub m
  rw [h] at hout
  cases hout with
  | optimal _ _ hnu hnb hb =>
    obtain ⟨hmem, hbest⟩ := Ref.best_spec hb
    obtain ⟨a, ha, w', hs, rfl⟩ := mem_mixedVals.1 hmem
    obtain ⟨hfw, hvw, _⟩ := (hsub a ha).optimal v w' hs
    obtain ⟨r1, r2⟩ := residual_spec hnd ha (lookup w')
    refine ⟨by rw [lookup_append, ← r1]; exact hfw, by rw [lookup_append, ← r2]; exact hvw, ?_⟩
    intro ρ hf v' hv'
    obtain ⟨a₂, ha₂, hfa₂, hobj₂⟩ := discrete_enumeration_complete hnd hf
    cases hs₂ : sub (residual a₂ m) with
    | unknown => exact absurd hs₂ (hnu a₂ ha₂)
    | unbounded => exact absurd hs₂ (hnb a₂ ha₂)
    | infeasible =>
      have := (hsub a₂ ha₂).infeasible hs₂ ρ
      rw [hfa₂] at this; cases this
    | optimal v₂ w₂ =>
      have h1 : better m.optType v' v₂ = false :=
        ((hsub a₂ ha₂).optimal v₂ w₂ hs₂).2.2 ρ hfa₂ v' (by rw [hobj₂]; exact hv')
      have h2 : better m.optType v₂ v = false := hbest (v₂, a₂ ++ w₂) (mem_mixedVals.2 ⟨a₂, ha₂, w₂, hs₂, rfl⟩)
      exact better_neg_trans _ h1 h2

/-- `unbounded`: assignments satisfying the model exist with objective beyond every bound. -/
theorem refSolveMixed_unbounded_sound {sub : Model (Ext K) → SubVerdict K} {m : Model (Ext K)}
    (hnd : (m.domain.map (·.name)).Nodup)
    (hsub : ∀ a ∈ discreteAssignments m.domain, SubOK (residual a m) (sub (residual a m)))
    (h : refSolveMixed sub m = .unbounded) :
    ∀ M : K, ∃ (ρ : String → K) (v : K), srcFeasible m ρ = true ∧ eval ρ m.objective = some v ∧
      better m.optType v M = true := by
  intro M
  have hout := refSolveMixed_outcome sub m
  rw [h] at hout
  cases hout with
  | unbounded a _ ha hs =>
    obtain ⟨ρ, v, hf, hv, hb⟩ := (hsub a ha).unbounded hs M
    obtain ⟨r1, r2⟩ := residual_spec hnd ha ρ
    exact ⟨over a ρ, v, by rw [← r1]; exact hf, by rw [← r2]; exact hv, hb⟩

/-- conversely, when the sub-solver answers every residual (no `unknown`) and some assignment satisfies the model, the
mixed reference does not say `infeasible`. -/
theorem refSolveMixed_feasible_not_infeasible {sub : Model (Ext K) → SubVerdict K} {m : Model (Ext K)}
    (hnd : (m.domain.map (·.name)).Nodup)
    (hsub : ∀ a ∈ discreteAssignments m.domain, SubOK (residual a m) (sub (residual a m)))
    {ρ : String → K} (hf : srcFeasible m ρ = true) : refSolveMixed sub m ≠ .infeasible := by
  intro h
  have := refSolveMixed_infeasible_sound hnd hsub h ρ
  rw [hf] at this; cases this

/-- the delegation contract is MET by plain evaluation when nothing continuous is left: for a closed model whose used
declarations are all enumerable, `Ref.subConst` (evaluate the variable-free residual once) satisfies `SubOK` on every residual
— so `SubOK` is satisfiable for every discrete model and the mixed reference specialises to an exact decision procedure. -/
theorem subConst_meets_contract {m : Model (Ext K)} {asg : List (List (String × K))}
    (hasg : assignments m.domain = some asg) (hc : Closed m = true) (hnd : (m.domain.map (·.name)).Nodup) :
    ∀ a ∈ discreteAssignments m.domain, SubOK (residual a m) (subConst (residual a m)) :=
  fun _ ha => subConst_ok hasg hc hnd ha

/-- on a discrete model the mixed reference with `subConst` and the enumerating reference agree on `infeasible`, and an
`optimal v w` of the mixed reference is an optimum of the model in the sense of `refSolve_optimal_spec`. -/
theorem refSolveMixed_discrete {m : Model (Ext K)} {asg : List (List (String × K))}
    (hasg : assignments m.domain = some asg) (hc : Closed m = true) (hnd : (m.domain.map (·.name)).Nodup) :
    (refSolveMixed subConst m = .infeasible → refSolve m = .infeasible) ∧
    (∀ v w, refSolveMixed subConst m = .optimal v w →
      srcFeasible m (lookup w) = true ∧ eval (lookup w) m.objective = some v ∧
      ∀ ρ : String → K, srcFeasible m ρ = true → ∀ v', eval ρ m.objective = some v' → better m.optType v' v = false) :=
  ⟨fun h => (refSolve_infeasible_iff hasg hc).2
      (refSolveMixed_infeasible_sound hnd (subConst_meets_contract hasg hc hnd) h),
   fun _ _ h => refSolveMixed_optimal_spec hnd (subConst_meets_contract hasg hc hnd) h⟩

/-! ### Non-vacuity: concrete models at `K = ℚ`

The verdicts are COMPUTED (`decide +kernel` on the running definitions, transferred to the theorems'
instance by `fieldExact_rat`), then the theorems above are applied to them. -/
section examples
attribute [local instance 2000] fieldExact

private def c (name : String) (l : Exp (Ext ℚ)) (cmp : Cmp) (r : Exp (Ext ℚ)) : Constraint (Ext ℚ) :=
  { name := name, lhs := l, cmp := cmp, rhs := r, isAssert := false }
private def x : Exp (Ext ℚ) := .var "x"
private def y : Exp (Ext ℚ) := .var "y"
private def n (q : ℚ) : Exp (Ext ℚ) := .num (.fin q)

/-- `max x + y  s.t.  x + y <= 3,  x in {0..2}, y Boolean`. -/
def exOpt : Model (Ext ℚ) :=
  { optType := .max, objective := .bin .add x y, constraints := [c "c" (.bin .add x y) .le (n 3)],
    domain := [{ name := "x", ty := .int 0 2, usage := 1 }, { name := "y", ty := .bool, usage := 1 }] }

/-- `min x  s.t.  x >= 1, x + y <= 0` — contradictory. -/
def exInf : Model (Ext ℚ) :=
  { optType := .min, objective := x,
    constraints := [c "a" x .ge (n 1), c "b" (.bin .add x y) .le (n 0)],
    domain := [{ name := "x", ty := .int 0 2, usage := 1 }, { name := "y", ty := .bool, usage := 1 },
               { name := "unused", ty := .real .ninf .pinf, usage := 0 }] }

/-- `solve  s.t.  x or y` as a bare assertion, `x != y` as `abs(x - y) >= 1`. -/
def exSat : Model (Ext ℚ) :=
  { optType := .satisfy, objective := n 0,
    constraints := [{ name := "a", lhs := .or [x, y], cmp := .eq, rhs := n 0, isAssert := true },
                    c "b" (.abs (.bin .sub x y)) .ge (n 1)],
    domain := [{ name := "x", ty := .bool, usage := 1 }, { name := "y", ty := .bool, usage := 1 }] }

/-- `min 1 / x` over `x in {0,1}` : the objective is undefined at the feasible point `x = 0`. -/
def exUndef : Model (Ext ℚ) :=
  { optType := .min, objective := .bin .div (n 1) x, constraints := [],
    domain := [{ name := "x", ty := .bool, usage := 1 }] }

/-- a bounded Real variable : not enumerable. -/
def exCont : Model (Ext ℚ) :=
  { optType := .min, objective := x, constraints := [],
    domain := [{ name := "x", ty := .real (.fin 0) (.fin 1), usage := 1 }] }

example : refSolve exOpt = .optimal 3 [("x", 2), ("y", 1)] := by rw [fieldExact_rat]; decide +kernel
example : refSolve exInf = .infeasible := by rw [fieldExact_rat]; decide +kernel
example : refSolve exSat = .feasibleAny [("x", 1), ("y", 0)] := by rw [fieldExact_rat]; decide +kernel
example : refSolve exUndef = .undefinedObjective := by rw [fieldExact_rat]; decide +kernel
example : refSolve exCont = .continuous := by rw [fieldExact_rat]; decide +kernel
example : Closed exOpt = true ∧ Closed exInf = true ∧ Closed exSat = true := by decide

/-- `refSolve_infeasible_sound` applies: NO assignment `ρ : String → ℚ` satisfies `exInf`. -/
example : ∀ ρ : String → ℚ, srcFeasible exInf ρ = false :=
  refSolve_infeasible_sound (by rw [fieldExact_rat]; decide +kernel) (by decide)

/-- `refSolve_optimal_spec` applies: no assignment satisfying `exOpt` has `x + y > 3`, and the
optimum 3 is attained at `x = 2, y = 1`. -/
example : srcFeasible exOpt (lookup [("x", (2 : ℚ)), ("y", 1)]) = true ∧
    ∀ ρ : String → ℚ, srcFeasible exOpt ρ = true → ∀ v', eval ρ exOpt.objective = some v' →
      better .max v' (3 : ℚ) = false := by
  have h := refSolve_optimal_spec (m := exOpt) (v := 3) (w := [("x", 2), ("y", 1)])
    (by rw [fieldExact_rat]; decide +kernel)
  exact ⟨h.2.1, h.2.2.2 (by decide)⟩

/-- `refSolve_feasibleAny_spec` applies. -/
example : srcFeasible exSat (lookup [("x", (1 : ℚ)), ("y", 0)]) = true :=
  (refSolve_feasibleAny_spec (m := exSat) (by rw [fieldExact_rat]; decide +kernel)).2

/-- the hypotheses of the converse directions are satisfiable. -/
example : ∃ w, refSolve exSat = .feasibleAny w :=
  refSolve_feasibleAny_complete (asg := [[("x", 0), ("y", 0)], [("x", 1), ("y", 0)], [("x", 0), ("y", 1)], [("x", 1), ("y", 1)]])
    (by rw [fieldExact_rat]; decide +kernel) (by decide) rfl
    (ρ := lookup [("x", 1), ("y", 0)]) (by rw [fieldExact_rat]; decide +kernel)

/-- the enumeration is what one expects (Boolean = {0,1}, IntegerRange inclusive, unused skipped). -/
example : assignments exInf.domain =
    some [[("x", 0), ("y", 0)], [("x", 1), ("y", 0)], [("x", 2), ("y", 0)],
          [("x", 0), ("y", 1)], [("x", 1), ("y", 1)], [("x", 2), ("y", 1)]] := by
  rw [fieldExact_rat]; decide +kernel

/-! #### a mixed model: `max x + b  s.t.  x <= 1 + b`, `b` Boolean (enumerated), `x` Real in `[0, 2]` (delegated) -/

def exMixed : Model (Ext ℚ) :=
  { optType := .max, objective := .bin .add x (.var "b"),
    constraints := [c "c" x .le (.bin .add (n 1) (.var "b"))],
    domain := [{ name := "b", ty := .bool, usage := 2 }, { name := "x", ty := .real (.fin 0) (.fin 2), usage := 2 }] }

/-- a sub-solver that knows the two residuals of `exMixed` (`b = 0`: `max x + 0, x <= 1 + 0`; `b = 1`: `max x + 1, x <= 1 + 1`). -/
def exSub (m' : Model (Ext ℚ)) : SubVerdict ℚ :=
  match m'.objective with
  | .bin .add _ (.num (.fin k)) => if k = 0 then .optimal 1 [("x", 1)] else if k = 1 then .optimal 3 [("x", 2)] else .unknown
  | _ => .unknown

example : refSolve exMixed = .continuous := by rw [fieldExact_rat]; decide +kernel
example : discreteAssignments exMixed.domain = [[("b", 0)], [("b", 1)]] := by rw [fieldExact_rat]; decide +kernel
example : refSolveMixed exSub exMixed = .optimal 3 [("b", 1), ("x", 2)] := by rw [fieldExact_rat]; decide +kernel

/-- the contract `SubOK` HOLDS for `exSub` on both residuals (each is a one-variable LP, solved by hand) … -/
theorem exSub_ok : ∀ a ∈ discreteAssignments exMixed.domain, SubOK (residual a exMixed) (exSub (residual a exMixed)) := by
  intro a ha
  have hd : discreteAssignments exMixed.domain = [[("b", 0)], [("b", 1)]] := by rw [fieldExact_rat]; decide +kernel
  rw [hd] at ha
  simp only [List.mem_cons, List.mem_nil_iff, or_false] at ha
  rcases ha with rfl | rfl
  · have hr : exSub (residual [("b", 0)] exMixed) = .optimal 1 [("x", 1)] := by
      simp [exSub, residual, exMixed, substExp, x, bound, lookup]
    rw [hr]
    refine ⟨(fun h => by cases h), ?_, (fun h => by cases h)⟩
    intro v w hvw
    cases hvw
    refine ⟨?_, ?_, ?_⟩
    · simp [srcFeasible, residual, exMixed, substExp, x, n, c, bound, lookup, constraintHolds, Sem.eval, binVal, cmpK,
        enumerated, domainValues, inDomain, geExt, leExt]
    · simp [residual, exMixed, substExp, x, bound, lookup, Sem.eval, binVal]
    · intro ρ hf v' hv'
      simp [srcFeasible, residual, exMixed, substExp, x, n, c, bound, lookup, constraintHolds, Sem.eval, binVal, cmpK,
        enumerated, domainValues] at hf hv'
      subst hv'
      have hx := hf.1
      simp only [better, residual, exMixed, ef_lt, decide_eq_false_iff_not, not_lt]
      linarith
  · have hr : exSub (residual [("b", 1)] exMixed) = .optimal 3 [("x", 2)] := by
      simp [exSub, residual, exMixed, substExp, x, bound, lookup]
    rw [hr]
    refine ⟨(fun h => by cases h), ?_, (fun h => by cases h)⟩
    intro v w hvw
    cases hvw
    refine ⟨?_, ?_, ?_⟩
    · simp [srcFeasible, residual, exMixed, substExp, x, n, c, bound, lookup, constraintHolds, Sem.eval, binVal, cmpK,
        enumerated, domainValues, inDomain, geExt, leExt]
      norm_num
    · simp [residual, exMixed, substExp, x, bound, lookup, Sem.eval, binVal]
      norm_num
    · intro ρ hf v' hv'
      simp [srcFeasible, residual, exMixed, substExp, x, n, c, bound, lookup, constraintHolds, Sem.eval, binVal, cmpK,
        enumerated, domainValues] at hf hv'
      subst hv'
      have hx := hf.1
      simp only [better, residual, exMixed, ef_lt, decide_eq_false_iff_not, not_lt]
      linarith

/-- … so `refSolveMixed_optimal_spec` applies: `b = 1, x = 2` satisfies `exMixed` with objective 3 and NO assignment
(no rational `x`, no `b`) does better. -/
example : srcFeasible exMixed (lookup [("b", (1 : ℚ)), ("x", 2)]) = true ∧
    ∀ ρ : String → ℚ, srcFeasible exMixed ρ = true → ∀ v', eval ρ exMixed.objective = some v' →
      better .max v' (3 : ℚ) = false := by
  have h := refSolveMixed_optimal_spec (sub := exSub) (m := exMixed) (by decide) exSub_ok
    (v := 3) (w := [("b", 1), ("x", 2)]) (by rw [fieldExact_rat]; decide +kernel)
  exact ⟨h.1, h.2.2⟩

end examples

/-! ## The composition: a solver answer on the COMPILED model is an answer for the SOURCE

`Compile.linearize m tol maxSteps` is the whole of `Linearizer::linearize` (normalise → bound inference → enforceable
→ apply_to_domain → lowering).  C01 (`c01_compile_partial`) and C02 (`c02_compile_partial`) say what its output `lm`
means (`c01_compile_logic_partial` / `c02_compile_logic_partial` for models with logic); here they are composed with an ABSTRACT solver contract (`Rooc/Proofs/ComposeContract.lean`; composition lemmas in
`Rooc/Proofs/Compose.lean`):

* `LinOptimal lm ρ'` — `ρ'` satisfies every row and domain of `lm` and no such point has a strictly better linear
  objective (`Sem.linObjective`, offset included; `Ref.better`);
* `LinInfeasible lm` — no assignment satisfies `lm`;   * `LinUnbounded lm` — feasible points beyond every bound.

These contracts are the ONLY assumption about the solver (they are what C05's certified comparison validates per
instance for microlp / Clarabel, and what `slow_simplex_optimal_exact` in `Props/C05.lean` proves for the built-in
simplex at exact arithmetic).  Nothing is assumed about HOW a solver finds its answer.

THE CONTRACT ON THE SOURCE MODEL IS STATIC since the port of rooc 81a4b76 + e35561f (collapse check up front):
`LinP.StaticModel m` — objective and constraint sides mention declared used variables only and have finite literals
(decidable; `Ref.SidesOK` is the same thing spelled with `Exp.vars`) —, `AssertShape m` (a bare assertion is stored as
`lhs = 1`), `DeclOK m.domain` (decidable well-formedness of the declarations) and a tolerance `0 ≤ t < 1` (or no
`IntegerRange` variable).  The `_static_partial` theorems (`c03_default_solver_static_partial`, …) are stated with it.
`_logic_partial` (the intermediate statements): stated with `LogicModel m m.domain`, the invariant the lowering proofs
work with (scope, finite literals, and — at every assignment satisfying the declared domains — defined sides with no
and/or node collapsing to a non-0/1 value).  It is NOT an extra hypothesis on a model that compiles:
`LinP.logicModel_of_compile` derives it from `Compile.linearize m … = .ok lm` and the static contract (the compiler itself
rejects, with `NonBinaryLogicOperand` / a lowering error, every model on which it would fail).  The historical excluded
region is witnessed by `Rooc.Props.C01.c01_logic_counterexample` and `Rooc.Props.C01.c01_defined_counterexample`.
`_partial` (without `logic`): the same for the piecewise-linear fragment `FragModel`, as corollaries. -/
section Composition
open Rooc.LinP Rooc.Compose

/-- what C01 + C02 establish, as one fact (`Compose.CompilesTo`: direction kept, source objective defined
at every satisfying assignment, feasible sets related by auxiliary extension, linear objective bounded by and attaining the source
objective over the extensions). -/
theorem c03_compilesTo_logic_partial {m : Model (Ext K)} {t : K} (ht : 0 ≤ t) {maxSteps : Nat} {lm : LinModel (Ext K)}
    (h : Compile.linearize m (.fin t) maxSteps = .ok lm)
    (hm : LogicModel m m.domain) (hsh : AssertShape m) (hok : DeclOK m.domain)
    (ht1 : t < 1 ∨ NoIntegerVars m.domain) :
    CompilesTo m lm :=
  compilesTo_of_compile_logic ht h hm hsh hok ht1

/-- **the solver's optimum of the compiled model, read on the declared variables, is an optimum of the source with
the same value**: `ρ'` itself (auxiliaries are simply extra names) satisfies the source model, the source objective
at `ρ'` IS the linear objective at `ρ'` (offset included), and no assignment satisfying the source has a strictly
better objective. -/
theorem c03_compile_optimal_logic_partial {m : Model (Ext K)} {t : K} (ht : 0 ≤ t) {maxSteps : Nat} {lm : LinModel (Ext K)}
    (h : Compile.linearize m (.fin t) maxSteps = .ok lm)
    (hm : LogicModel m m.domain) (hsh : AssertShape m) (hok : DeclOK m.domain)
    (ht1 : t < 1 ∨ NoIntegerVars m.domain)
    {ρ' : String → K} (ho : LinOptimal lm ρ') :
    srcFeasible m ρ' = true ∧ eval ρ' m.objective = linObjective lm ρ' ∧ (eval ρ' m.objective).isSome = true ∧
    ∀ ρ : String → K, srcFeasible m ρ = true → ∀ u v, eval ρ m.objective = some u →
      eval ρ' m.objective = some v → better m.optType u v = false := by
  obtain ⟨v, hopt, hw⟩ := optimal_transfer (compilesTo_of_compile_logic ht h hm hsh hok ht1) ho
  refine ⟨hopt.feasible, by rw [hopt.value, hw], by rw [hopt.value]; rfl, ?_⟩
  intro ρ hs u v' hu hv'
  rw [hopt.value] at hv'; cases hv'
  exact hopt.best ρ hs u hu

/-- conversely **every optimum of the source extends, on the compiler's auxiliaries only, to a point satisfying the
solver contract, with the same value** — so `LinOptimal` is satisfiable exactly when the source has an optimum, and
a solver that answers `LinOptimal` cannot report a value different from the source optimum. -/
theorem c03_compile_optimal_complete_logic_partial {m : Model (Ext K)} {t : K} (ht : 0 ≤ t) {maxSteps : Nat}
    {lm : LinModel (Ext K)} (h : Compile.linearize m (.fin t) maxSteps = .ok lm)
    (hm : LogicModel m m.domain) (hsh : AssertShape m) (hok : DeclOK m.domain)
    (ht1 : t < 1 ∨ NoIntegerVars m.domain)
    {ρ : String → K} {v : K} (hs : srcFeasible m ρ = true) (hv : eval ρ m.objective = some v)
    (hbest : ∀ ρ₂ : String → K, srcFeasible m ρ₂ = true → ∀ u, eval ρ₂ m.objective = some u →
      better m.optType u v = false) :
    ∃ ρ' : String → K, (∀ x, inScope m.domain x → ρ' x = ρ x) ∧ LinOptimal lm ρ' ∧ linObjective lm ρ' = some v :=
  optimal_complete (compilesTo_of_compile_logic ht h hm hsh hok ht1) ⟨hs, hv, hbest⟩

/-- **`infeasible` is right in both directions**: the compiled model has no point iff NO assignment satisfies the
source. -/
theorem c03_compile_infeasible_logic_partial {m : Model (Ext K)} {t : K} (ht : 0 ≤ t) {maxSteps : Nat} {lm : LinModel (Ext K)}
    (h : Compile.linearize m (.fin t) maxSteps = .ok lm)
    (hm : LogicModel m m.domain) (hsh : AssertShape m) (hok : DeclOK m.domain)
    (ht1 : t < 1 ∨ NoIntegerVars m.domain) :
    LinInfeasible lm ↔ ∀ ρ : String → K, srcFeasible m ρ = false :=
  infeasible_iff (compilesTo_of_compile_logic ht h hm hsh hok ht1)

/-- **`unbounded` is right in both directions**: the compiled model has points with linear objective beyond every
bound (in the model's direction) iff the source has satisfying assignments with objective beyond every bound. -/
theorem c03_compile_unbounded_logic_partial {m : Model (Ext K)} {t : K} (ht : 0 ≤ t) {maxSteps : Nat} {lm : LinModel (Ext K)}
    (h : Compile.linearize m (.fin t) maxSteps = .ok lm)
    (hm : LogicModel m m.domain) (hsh : AssertShape m) (hok : DeclOK m.domain)
    (ht1 : t < 1 ∨ NoIntegerVars m.domain) :
    LinUnbounded lm ↔ SrcUnbounded m :=
  unbounded_iff (compilesTo_of_compile_logic ht h hm hsh hok ht1)

/-- the reference side needs `Closed m`; under the contract it is not an extra hypothesis. -/
theorem c03_closed_of_logicModel {m : Model (Ext K)} (hm : LogicModel m m.domain) : Closed m = true :=
  closed_of_logicModel hm

/-! ### link to the reference interpreter (enumerable declarations: Boolean / IntegerRange) -/

/-- **the reference's optimum and the solver's optimum have the same value**: if `refSolve m = optimal v w` and the
solver returns a point `ρ'` satisfying its contract on the compiled model, the linear objective at `ρ'` is `v`,
and `ρ'` satisfies the source (the comparison `./check C03` performs per case, as a theorem). -/
theorem c03_ref_agrees_logic_partial {m : Model (Ext K)} {t : K} (ht : 0 ≤ t) {maxSteps : Nat} {lm : LinModel (Ext K)}
    (h : Compile.linearize m (.fin t) maxSteps = .ok lm)
    (hm : LogicModel m m.domain) (hsh : AssertShape m) (hok : DeclOK m.domain)
    (ht1 : t < 1 ∨ NoIntegerVars m.domain)
    {v : K} {w : List (String × K)} (hr : refSolve m = .optimal v w) {ρ' : String → K} (ho : LinOptimal lm ρ') :
    linObjective lm ρ' = some v ∧ srcFeasible m ρ' = true := by
  obtain ⟨hne, hfw, hvw, hbest⟩ := refSolve_optimal_spec hr
  obtain ⟨v', hopt, hw⟩ := optimal_transfer (compilesTo_of_compile_logic ht h hm hsh hok ht1) ho
  have h1 := hbest (closed_of_logicModel hm) ρ' hopt.feasible v' hopt.value
  have h2 := hopt.best (lookup w) hfw v hvw
  rw [hw, eq_of_not_better hne h1 h2]
  exact ⟨rfl, hopt.feasible⟩

/-- the reference's optimum is attained by a point satisfying the solver contract (extension of the reference's
witness): the hypotheses of `c03_ref_agrees_logic_partial` are never contradictory. -/
theorem c03_ref_optimal_attained_logic_partial {m : Model (Ext K)} {t : K} (ht : 0 ≤ t) {maxSteps : Nat}
    {lm : LinModel (Ext K)} (h : Compile.linearize m (.fin t) maxSteps = .ok lm)
    (hm : LogicModel m m.domain) (hsh : AssertShape m) (hok : DeclOK m.domain)
    (ht1 : t < 1 ∨ NoIntegerVars m.domain)
    {v : K} {w : List (String × K)} (hr : refSolve m = .optimal v w) :
    ∃ ρ' : String → K, (∀ x, inScope m.domain x → ρ' x = lookup w x) ∧ LinOptimal lm ρ' ∧
      linObjective lm ρ' = some v := by
  obtain ⟨_, hfw, hvw, hbest⟩ := refSolve_optimal_spec hr
  exact optimal_complete (compilesTo_of_compile_logic ht h hm hsh hok ht1)
    ⟨hfw, hvw, fun ρ₂ hs₂ u hu => hbest (closed_of_logicModel hm) ρ₂ hs₂ u hu⟩

/-- **the reference says `infeasible` exactly when the compiled model has no point.** -/
theorem c03_ref_infeasible_iff_logic_partial {m : Model (Ext K)} {t : K} (ht : 0 ≤ t) {maxSteps : Nat}
    {lm : LinModel (Ext K)} (h : Compile.linearize m (.fin t) maxSteps = .ok lm)
    (hm : LogicModel m m.domain) (hsh : AssertShape m) (hok : DeclOK m.domain)
    (ht1 : t < 1 ∨ NoIntegerVars m.domain)
    {asg : List (List (String × K))} (ha : assignments m.domain = some asg) :
    refSolve m = .infeasible ↔ LinInfeasible lm := by
  rw [refSolve_infeasible_iff ha (closed_of_logicModel hm),
    infeasible_iff (compilesTo_of_compile_logic ht h hm hsh hok ht1)]

/-- **end to end, verdict by verdict**: on an enumerable model of the fragment, a solver that honours its contract
on the compiled model — it answers either a point with `LinOptimal` or the verdict `LinInfeasible` — agrees with the
reference interpreter: `infeasible` ↔ `infeasible`; a point ↔ `optimal v _` with `v` the linear objective at the
point (`min`/`max`) or `feasibleAny _` (`satisfy`). -/
theorem c03_answer_matches_reference_logic_partial {m : Model (Ext K)} {t : K} (ht : 0 ≤ t) {maxSteps : Nat}
    {lm : LinModel (Ext K)} (h : Compile.linearize m (.fin t) maxSteps = .ok lm)
    (hm : LogicModel m m.domain) (hsh : AssertShape m) (hok : DeclOK m.domain)
    (ht1 : t < 1 ∨ NoIntegerVars m.domain)
    {asg : List (List (String × K))} (ha : assignments m.domain = some asg) :
    (LinInfeasible lm → refSolve m = .infeasible) ∧
    (∀ ρ' : String → K, LinOptimal lm ρ' →
      (m.optType ≠ .satisfy → ∃ v w, refSolve m = .optimal v w ∧ linObjective lm ρ' = some v) ∧
      (m.optType = .satisfy → ∃ w, refSolve m = .feasibleAny w)) := by
  have hc := compilesTo_of_compile_logic ht h hm hsh hok ht1
  have hcl := closed_of_logicModel hm
  refine ⟨fun hi => (c03_ref_infeasible_iff_logic_partial ht h hm hsh hok ht1 ha).mpr hi, fun ρ' ho => ⟨?_, ?_⟩⟩
  · intro hne
    obtain ⟨v, w, hr⟩ := refSolve_optimal_complete ha hcl hne (src_of_lin hc ho.feasible)
      (fun ρ₂ h₂ => by obtain ⟨u, hu⟩ := hc.objDefined ρ₂ h₂; rw [hu]; rfl)
    exact ⟨v, w, hr, (c03_ref_agrees_logic_partial ht h hm hsh hok ht1 hr ho).1⟩
  · intro hsat
    exact refSolve_feasibleAny_complete ha hcl hsat (src_of_lin hc ho.feasible)

/-! ### the piecewise-linear fragment (`FragModel`) as a special case

Every `FragModel` is a `LogicModel` (`Rooc.Props.C01.logicModel_of_fragModel`) and has no bare assertion
(`Compose.assertShape_of_fragModel`); the statements below are the corollaries, under the hypotheses of
`c01_compile_partial`. -/

theorem c03_compilesTo_partial {m : Model (Ext K)} {t : K} (ht : 0 ≤ t) {maxSteps : Nat} {lm : LinModel (Ext K)}
    (h : Compile.linearize m (.fin t) maxSteps = .ok lm)
    (hm : FragModel true m m.domain) (hok : DeclOK m.domain)
    (ht1 : t < 1 ∨ NoIntegerVars m.domain) :
    CompilesTo m lm :=
  c03_compilesTo_logic_partial ht h (LogicModel.ofFragModel hm) (assertShape_of_fragModel hm) hok ht1

theorem c03_compile_optimal_partial {m : Model (Ext K)} {t : K} (ht : 0 ≤ t) {maxSteps : Nat} {lm : LinModel (Ext K)}
    (h : Compile.linearize m (.fin t) maxSteps = .ok lm)
    (hm : FragModel true m m.domain) (hok : DeclOK m.domain)
    (ht1 : t < 1 ∨ NoIntegerVars m.domain)
    {ρ' : String → K} (ho : LinOptimal lm ρ') :
    srcFeasible m ρ' = true ∧ eval ρ' m.objective = linObjective lm ρ' ∧ (eval ρ' m.objective).isSome = true ∧
    ∀ ρ : String → K, srcFeasible m ρ = true → ∀ u v, eval ρ m.objective = some u →
      eval ρ' m.objective = some v → better m.optType u v = false :=
  c03_compile_optimal_logic_partial ht h (LogicModel.ofFragModel hm) (assertShape_of_fragModel hm) hok ht1 ho

theorem c03_compile_optimal_complete_partial {m : Model (Ext K)} {t : K} (ht : 0 ≤ t) {maxSteps : Nat}
    {lm : LinModel (Ext K)} (h : Compile.linearize m (.fin t) maxSteps = .ok lm)
    (hm : FragModel true m m.domain) (hok : DeclOK m.domain)
    (ht1 : t < 1 ∨ NoIntegerVars m.domain)
    {ρ : String → K} {v : K} (hs : srcFeasible m ρ = true) (hv : eval ρ m.objective = some v)
    (hbest : ∀ ρ₂ : String → K, srcFeasible m ρ₂ = true → ∀ u, eval ρ₂ m.objective = some u →
      better m.optType u v = false) :
    ∃ ρ' : String → K, (∀ x, inScope m.domain x → ρ' x = ρ x) ∧ LinOptimal lm ρ' ∧ linObjective lm ρ' = some v :=
  c03_compile_optimal_complete_logic_partial ht h (LogicModel.ofFragModel hm) (assertShape_of_fragModel hm) hok ht1
    hs hv hbest

theorem c03_compile_infeasible_partial {m : Model (Ext K)} {t : K} (ht : 0 ≤ t) {maxSteps : Nat} {lm : LinModel (Ext K)}
    (h : Compile.linearize m (.fin t) maxSteps = .ok lm)
    (hm : FragModel true m m.domain) (hok : DeclOK m.domain)
    (ht1 : t < 1 ∨ NoIntegerVars m.domain) :
    LinInfeasible lm ↔ ∀ ρ : String → K, srcFeasible m ρ = false :=
  c03_compile_infeasible_logic_partial ht h (LogicModel.ofFragModel hm) (assertShape_of_fragModel hm) hok ht1

theorem c03_compile_unbounded_partial {m : Model (Ext K)} {t : K} (ht : 0 ≤ t) {maxSteps : Nat} {lm : LinModel (Ext K)}
    (h : Compile.linearize m (.fin t) maxSteps = .ok lm)
    (hm : FragModel true m m.domain) (hok : DeclOK m.domain)
    (ht1 : t < 1 ∨ NoIntegerVars m.domain) :
    LinUnbounded lm ↔ SrcUnbounded m :=
  c03_compile_unbounded_logic_partial ht h (LogicModel.ofFragModel hm) (assertShape_of_fragModel hm) hok ht1

theorem c03_closed_of_fragment {m : Model (Ext K)} (hm : FragModel true m m.domain) : Closed m = true :=
  closed_of_fragModel hm

theorem c03_ref_agrees_partial {m : Model (Ext K)} {t : K} (ht : 0 ≤ t) {maxSteps : Nat} {lm : LinModel (Ext K)}
    (h : Compile.linearize m (.fin t) maxSteps = .ok lm)
    (hm : FragModel true m m.domain) (hok : DeclOK m.domain)
    (ht1 : t < 1 ∨ NoIntegerVars m.domain)
    {v : K} {w : List (String × K)} (hr : refSolve m = .optimal v w) {ρ' : String → K} (ho : LinOptimal lm ρ') :
    linObjective lm ρ' = some v ∧ srcFeasible m ρ' = true :=
  c03_ref_agrees_logic_partial ht h (LogicModel.ofFragModel hm) (assertShape_of_fragModel hm) hok ht1 hr ho

theorem c03_ref_optimal_attained_partial {m : Model (Ext K)} {t : K} (ht : 0 ≤ t) {maxSteps : Nat}
    {lm : LinModel (Ext K)} (h : Compile.linearize m (.fin t) maxSteps = .ok lm)
    (hm : FragModel true m m.domain) (hok : DeclOK m.domain)
    (ht1 : t < 1 ∨ NoIntegerVars m.domain)
    {v : K} {w : List (String × K)} (hr : refSolve m = .optimal v w) :
    ∃ ρ' : String → K, (∀ x, inScope m.domain x → ρ' x = lookup w x) ∧ LinOptimal lm ρ' ∧
      linObjective lm ρ' = some v :=
  c03_ref_optimal_attained_logic_partial ht h (LogicModel.ofFragModel hm) (assertShape_of_fragModel hm) hok ht1 hr

theorem c03_ref_infeasible_iff_partial {m : Model (Ext K)} {t : K} (ht : 0 ≤ t) {maxSteps : Nat}
    {lm : LinModel (Ext K)} (h : Compile.linearize m (.fin t) maxSteps = .ok lm)
    (hm : FragModel true m m.domain) (hok : DeclOK m.domain)
    (ht1 : t < 1 ∨ NoIntegerVars m.domain)
    {asg : List (List (String × K))} (ha : assignments m.domain = some asg) :
    refSolve m = .infeasible ↔ LinInfeasible lm :=
  c03_ref_infeasible_iff_logic_partial ht h (LogicModel.ofFragModel hm) (assertShape_of_fragModel hm) hok ht1 ha

theorem c03_answer_matches_reference_partial {m : Model (Ext K)} {t : K} (ht : 0 ≤ t) {maxSteps : Nat}
    {lm : LinModel (Ext K)} (h : Compile.linearize m (.fin t) maxSteps = .ok lm)
    (hm : FragModel true m m.domain) (hok : DeclOK m.domain)
    (ht1 : t < 1 ∨ NoIntegerVars m.domain)
    {asg : List (List (String × K))} (ha : assignments m.domain = some asg) :
    (LinInfeasible lm → refSolve m = .infeasible) ∧
    (∀ ρ' : String → K, LinOptimal lm ρ' →
      (m.optType ≠ .satisfy → ∃ v w, refSolve m = .optimal v w ∧ linObjective lm ρ' = some v) ∧
      (m.optType = .satisfy → ∃ w, refSolve m = .feasibleAny w)) :=
  c03_answer_matches_reference_logic_partial ht h (LogicModel.ofFragModel hm) (assertShape_of_fragModel hm) hok ht1 ha

/-! ### non-vacuity: `min x s.t. x ≤ y`, `x, y` Boolean, through the whole pipeline (every tolerance, every step
limit), judged by the reference at `K = ℚ` -/
section examples
attribute [local instance 2000] fieldExact

/-- every hypothesis of the composition theorems holds for `Compose.exBool`, for every tolerance `t ≥ 0` and every
step limit: it compiles, lies in the fragment, has well-formed declarations and no `IntegerRange` variable; and a
point satisfying the solver contract EXISTS (obtained from the source optimum `x = y = 0` by
`c03_compile_optimal_complete_partial`), with linear objective 0. -/
example (t : ℚ) (ht : 0 ≤ t) (n : Nat) : ∃ (lm : LinModel (Ext ℚ)) (ρ' : String → ℚ),
    Compile.linearize (exBool : Model (Ext ℚ)) (.fin t) n = .ok lm ∧ FragModel true exBool (exBool : Model (Ext ℚ)).domain ∧
    DeclOK (exBool : Model (Ext ℚ)).domain ∧ NoIntegerVars (exBool : Model (Ext ℚ)).domain ∧
    LinOptimal lm ρ' ∧ linObjective lm ρ' = some 0 := by
  obtain ⟨lm, h⟩ := exBool_compile (K := ℚ) (.fin t) n
  obtain ⟨ρ', _, ho, hv⟩ := c03_compile_optimal_complete_partial ht h exBool_frag exBool_declOK
    (Or.inr exBool_noInt) (ρ := fun _ => 0) (v := 0)
    exBool_srcOptimal.feasible exBool_srcOptimal.value exBool_srcOptimal.best
  exact ⟨lm, ρ', h, exBool_frag, exBool_declOK, exBool_noInt, ho, hv⟩

/-- the reference's verdict on the same model, computed by the kernel. -/
example : refSolve (exBool : Model (Ext ℚ)) = .optimal 0 [("x", 0), ("y", 0)] := by
  rw [fieldExact_rat]; decide +kernel

/-- `c03_ref_agrees_partial` applies: whatever point a contract-honouring solver returns on the compiled `exBool`,
its linear objective is the reference's optimum 0 and the point satisfies the source. -/
example (t : ℚ) (ht : 0 ≤ t) (n : Nat) {lm : LinModel (Ext ℚ)}
    (h : Compile.linearize (exBool : Model (Ext ℚ)) (.fin t) n = .ok lm) {ρ' : String → ℚ} (ho : LinOptimal lm ρ') :
    linObjective lm ρ' = some 0 ∧ srcFeasible (exBool : Model (Ext ℚ)) ρ' = true :=
  c03_ref_agrees_partial ht h exBool_frag exBool_declOK (Or.inr exBool_noInt)
    (v := 0) (w := [("x", 0), ("y", 0)]) (by rw [fieldExact_rat]; decide +kernel) ho

/-- REAL LOGIC: `min a s.t. assert (a or b)`, `a, b` Boolean (`LinP.exOr`: a bare assertion of an `or`, compiled to the
row `a + b ≥ 1`).  Every hypothesis of the `_logic_partial` theorems holds (every tolerance, step limit 0), the reference
answers `optimal 0` at `a = 0, b = 1`, so `c03_ref_agrees_logic_partial` applies to every contract-honouring solver
answer, and such an answer exists (`c03_ref_optimal_attained_logic_partial`). -/
example (t : ℚ) (ht : 0 ≤ t) : ∃ (lm : LinModel (Ext ℚ)),
    Compile.linearize (exOr : Model (Ext ℚ)) (.fin t) 0 = .ok lm ∧
    refSolve (exOr : Model (Ext ℚ)) = .optimal 0 [("a", 0), ("b", 1)] ∧
    (∃ ρ' : String → ℚ, LinOptimal lm ρ' ∧ linObjective lm ρ' = some 0) ∧
    ∀ ρ' : String → ℚ, LinOptimal lm ρ' → linObjective lm ρ' = some 0 ∧ srcFeasible (exOr : Model (Ext ℚ)) ρ' = true := by
  obtain ⟨lm, h⟩ := exOr_compile (K := ℚ) (.fin t)
  have hr : refSolve (exOr : Model (Ext ℚ)) = .optimal 0 [("a", 0), ("b", 1)] := by
    rw [fieldExact_rat]; decide +kernel
  refine ⟨lm, h, hr, ?_, fun ρ' ho => ?_⟩
  · obtain ⟨ρ', _, ho, hv⟩ := c03_ref_optimal_attained_logic_partial ht h exOr_logicModel exOr_assertShape exOr_declOK
      (Or.inr exOr_noInt) hr
    exact ⟨ρ', ho, hv⟩
  · exact c03_ref_agrees_logic_partial ht h exOr_logicModel exOr_assertShape exOr_declOK (Or.inr exOr_noInt) hr ho

/-- `c03_compile_infeasible_partial` is not vacuous in the other direction either: the compiled `exBool` is NOT
infeasible. -/
example (t : ℚ) (ht : 0 ≤ t) (n : Nat) {lm : LinModel (Ext ℚ)}
    (h : Compile.linearize (exBool : Model (Ext ℚ)) (.fin t) n = .ok lm) : ¬ LinInfeasible lm := by
  intro hi
  have := (c03_compile_infeasible_partial ht h exBool_frag exBool_declOK
    (Or.inr exBool_noInt)).mp hi (fun _ => 0)
  rw [exBool_srcOptimal.feasible] at this
  cases this

end examples

/-! ### the chain closed for rooc's own simplex: source model → `Compile.linearize` → `to_standard_form` →
tableau loop → mapped-back point

For the built-in simplex at exact arithmetic the solver contract is not an assumption: `Rooc.Props.C05.
slow_simplex_linOptimal_exact` / `slow_simplex_linUnbounded_exact` (C13 ∘ C14 through the by-name/positional adapter
`Rooc/Proofs/ComposeSem.lean`) prove it.  Composed with the theorems above this gives an end-to-end statement about
the SOURCE model.  First with explicit hypotheses on the compiled model `lm` (`StdSem.WF lm`, distinct names, `DomVars`,
`NNOK` — all decidable on the computed `lm`), then (`…_src_partial`) with these discharged from C08 and from the success
of `to_standard_form`;
and the interface `CanonicalFor T (stdK s)` (provided by `slow_simplex_direct_start_partial` for the direct start). -/
section EndToEnd
open Tableau TabSem StdSem StdMain Standardize ComposeSimplex ComposeSem
attribute [local instance] exactArith

/-- **source optimum from the built-in simplex, exact arithmetic.**  If the loop stops `Finished` on a canonical
feasible tableau of the standard form of the compiled model, the by-name point it returns satisfies the SOURCE model,
`optimal_value` is the source objective there, and no assignment satisfying the source is strictly better. -/
theorem c03_slow_simplex_end_to_end_partial {m : Model (Ext K)} {t : K} (ht : 0 ≤ t) {maxSteps : Nat}
    {lm : LinModel (Ext K)} (h : Compile.linearize m (.fin t) maxSteps = .ok lm)
    (hm : FragModel true m m.domain) (hok : DeclOK m.domain)
    (ht1 : t < 1 ∨ NoIntegerVars m.domain)
    (hW : WF lm) (hnn : ∀ d ∈ lm.domain, ComposeSem.NNOK d.ty) (hdv : DomVars lm) (hnd : lm.vars.Nodup)
    {s : StdModel (Ext K)} (hs : standardize lm = .ok s) {T : Tab K} (hT : CanonicalFor T (stdK s))
    (stallExtra limit : Nat) (prefer : List Nat)
    (hfin : (solve (0:K) stallExtra limit prefer T).result = .ok ()) :
    srcFeasible m (pointOf lm.vars (preimage lm (basicSolution (solve (0:K) stallExtra limit prefer T).final))) = true ∧
    eval (pointOf lm.vars (preimage lm (basicSolution (solve (0:K) stallExtra limit prefer T).final))) m.objective =
      some (optimalValue (solve (0:K) stallExtra limit prefer T).final) ∧
    ∀ ρ : String → K, srcFeasible m ρ = true → ∀ u, eval ρ m.objective = some u →
      better m.optType u (optimalValue (solve (0:K) stallExtra limit prefer T).final) = false := by
  obtain ⟨ho, hv⟩ := simplex_linOptimal hW hnn hdv hnd hs hT stallExtra limit prefer hfin
  obtain ⟨hs', he, _, hbest⟩ := c03_compile_optimal_partial ht h hm hok ht1 ho
  rw [hv] at he
  exact ⟨hs', he, fun ρ hρ u hu => hbest ρ hρ u _ hu he⟩

/-- **source unboundedness from the built-in simplex, exact arithmetic.** -/
theorem c03_slow_simplex_unbounded_end_to_end_partial {m : Model (Ext K)} {t : K} (ht : 0 ≤ t) {maxSteps : Nat}
    {lm : LinModel (Ext K)} (h : Compile.linearize m (.fin t) maxSteps = .ok lm)
    (hm : FragModel true m m.domain) (hok : DeclOK m.domain)
    (ht1 : t < 1 ∨ NoIntegerVars m.domain)
    (hW : WF lm) (hnn : ∀ d ∈ lm.domain, ComposeSem.NNOK d.ty) (hdv : DomVars lm) (hnd : lm.vars.Nodup)
    {s : StdModel (Ext K)} (hs : standardize lm = .ok s) {T : Tab K} (hT : CanonicalFor T (stdK s))
    (stallExtra limit : Nat) (prefer : List Nat)
    (hunb : (solve (0:K) stallExtra limit prefer T).result = .error .unbounded) : SrcUnbounded m :=
  (c03_compile_unbounded_partial ht h hm hok ht1).mp
    (simplex_linUnbounded hW hnn hdv hnd hs hT stallExtra limit prefer hunb)

/-- **source infeasibility from the built-in simplex, exact arithmetic**: a phase-1 optimum below zero on the standard
form of the compiled model means that NO assignment satisfies the source. -/
theorem c03_slow_simplex_infeasible_end_to_end_partial {m : Model (Ext K)} {t : K} (ht : 0 ≤ t) {maxSteps : Nat}
    {lm : LinModel (Ext K)} (h : Compile.linearize m (.fin t) maxSteps = .ok lm)
    (hm : FragModel true m m.domain) (hok : DeclOK m.domain)
    (ht1 : t < 1 ∨ NoIntegerVars m.domain)
    (hW : WF lm) (hnn : ∀ d ∈ lm.domain, ComposeSem.NNOK d.ty) (hdv : DomVars lm)
    {s : StdModel (Ext K)} (hs : standardize lm = .ok s) (stallExtra limit : Nat) (prefer : List Nat)
    (hp1 : (solve (0:K) stallExtra limit prefer (phase1Tab (stdK s))).result = .ok ())
    (hneg : (solve (0:K) stallExtra limit prefer (phase1Tab (stdK s))).final.value < 0) :
    ∀ ρ : String → K, srcFeasible m ρ = false :=
  (c03_compile_infeasible_partial ht h hm hok ht1).mp
    (simplex_linInfeasible hW hnn hdv hs stallExtra limit prefer hp1 hneg)

/-! #### the same with the hypotheses on the compiled model DISCHARGED (`Rooc/Proofs/ComposeWF.lean`)

Sizes, finiteness, distinct variable names and "variables = domain keys" of `lm` come from C08's theorems
(`vars_nodup`, `vars_eq_domain_keys`, `row_lengths`, `objective_length`, `finite_out_partial`; `FiniteLits m` follows from
the contract); non-strict rows, a continuous domain and a direction come from the SUCCESS of `to_standard_form` on `lm`,
which the path needs anyway.  What remains about `lm` is `ComposeWF.DomainFormat lm` — the bound format of the published
continuous ranges (`Real(lo, hi)`: `lo ∈ {−inf} ∪ finite`, `hi ∈ {+inf} ∪ finite`; `NonNegativeReal`: `0 ≤ lo` finite) —
for which C07/C08 have no theorem yet (see the header of `ComposeWF.lean`); it is decidable on the computed model. -/

/-- **source optimum from the built-in simplex, hypotheses on the source** (plus the run itself and `DomainFormat`). -/
theorem c03_slow_simplex_end_to_end_src_partial {m : Model (Ext K)} {t : K} (ht : 0 ≤ t) {maxSteps : Nat}
    {lm : LinModel (Ext K)} (h : Compile.linearize m (.fin t) maxSteps = .ok lm)
    (hm : LogicModel m m.domain) (hsh : AssertShape m) (hok : DeclOK m.domain)
    (ht1 : t < 1 ∨ NoIntegerVars m.domain)
    {s : StdModel (Ext K)} (hs : standardize lm = .ok s) (hfmt : ComposeWF.DomainFormat lm)
    {T : Tab K} (hT : CanonicalFor T (stdK s)) (stallExtra limit : Nat) (prefer : List Nat)
    (hfin : (solve (0:K) stallExtra limit prefer T).result = .ok ()) :
    srcFeasible m (pointOf lm.vars (preimage lm (basicSolution (solve (0:K) stallExtra limit prefer T).final))) = true ∧
    eval (pointOf lm.vars (preimage lm (basicSolution (solve (0:K) stallExtra limit prefer T).final))) m.objective =
      some (optimalValue (solve (0:K) stallExtra limit prefer T).final) ∧
    ∀ ρ : String → K, srcFeasible m ρ = true → ∀ u, eval ρ m.objective = some u →
      better m.optType u (optimalValue (solve (0:K) stallExtra limit prefer T).final) = false := by
  obtain ⟨hW, hnn, hdv, hnd⟩ := ComposeWF.compiled_wf h hok.nodup (ComposeWF.finiteLits_of_logicModel hm) hs hfmt
  obtain ⟨ho, hv⟩ := simplex_linOptimal hW hnn hdv hnd hs hT stallExtra limit prefer hfin
  obtain ⟨hs', he, _, hbest⟩ := c03_compile_optimal_logic_partial ht h hm hsh hok ht1 ho
  rw [hv] at he
  exact ⟨hs', he, fun ρ hρ u hu => hbest ρ hρ u _ hu he⟩

/-- **source unboundedness from the built-in simplex, hypotheses on the source.** -/
theorem c03_slow_simplex_unbounded_end_to_end_src_partial {m : Model (Ext K)} {t : K} (ht : 0 ≤ t) {maxSteps : Nat}
    {lm : LinModel (Ext K)} (h : Compile.linearize m (.fin t) maxSteps = .ok lm)
    (hm : LogicModel m m.domain) (hsh : AssertShape m) (hok : DeclOK m.domain)
    (ht1 : t < 1 ∨ NoIntegerVars m.domain)
    {s : StdModel (Ext K)} (hs : standardize lm = .ok s) (hfmt : ComposeWF.DomainFormat lm)
    {T : Tab K} (hT : CanonicalFor T (stdK s)) (stallExtra limit : Nat) (prefer : List Nat)
    (hunb : (solve (0:K) stallExtra limit prefer T).result = .error .unbounded) : SrcUnbounded m := by
  obtain ⟨hW, hnn, hdv, hnd⟩ := ComposeWF.compiled_wf h hok.nodup (ComposeWF.finiteLits_of_logicModel hm) hs hfmt
  exact (c03_compile_unbounded_logic_partial ht h hm hsh hok ht1).mp
    (simplex_linUnbounded hW hnn hdv hnd hs hT stallExtra limit prefer hunb)

/-- **source infeasibility from the built-in simplex, hypotheses on the source.** -/
theorem c03_slow_simplex_infeasible_end_to_end_src_partial {m : Model (Ext K)} {t : K} (ht : 0 ≤ t) {maxSteps : Nat}
    {lm : LinModel (Ext K)} (h : Compile.linearize m (.fin t) maxSteps = .ok lm)
    (hm : LogicModel m m.domain) (hsh : AssertShape m) (hok : DeclOK m.domain)
    (ht1 : t < 1 ∨ NoIntegerVars m.domain)
    {s : StdModel (Ext K)} (hs : standardize lm = .ok s) (hfmt : ComposeWF.DomainFormat lm)
    (stallExtra limit : Nat) (prefer : List Nat)
    (hp1 : (solve (0:K) stallExtra limit prefer (phase1Tab (stdK s))).result = .ok ())
    (hneg : (solve (0:K) stallExtra limit prefer (phase1Tab (stdK s))).final.value < 0) :
    ∀ ρ : String → K, srcFeasible m ρ = false := by
  obtain ⟨hW, hnn, hdv, _⟩ := ComposeWF.compiled_wf h hok.nodup (ComposeWF.finiteLits_of_logicModel hm) hs hfmt
  exact (c03_compile_infeasible_logic_partial ht h hm hsh hok ht1).mp
    (simplex_linInfeasible hW hnn hdv hs stallExtra limit prefer hp1 hneg)

/-- the `_src_` form applies to `exSrc` as well: `DomainFormat exMax` is a one-line check. -/
example (t : ℚ) (ht : 0 ≤ t) :
    srcFeasible exSrc (pointOf ["x"] [2]) = true ∧ eval (pointOf ["x"] [2]) exSrc.objective = some 2 := by
  have hfmt : ComposeWF.DomainFormat exMax := by
    refine ⟨?_, ?_, exMax_nnok⟩ <;> intro d hd lo hi hty <;>
      simp only [exMax, List.mem_singleton] at hd <;> subst hd <;> simp at hty
    obtain ⟨rfl, rfl⟩ := hty
    simp [StdSem.isFin]
  have h := c03_slow_simplex_end_to_end_src_partial ht (exSrc_compile (.fin t)) (LogicModel.ofFragModel exSrc_frag)
    (assertShape_of_fragModel exSrc_frag) exSrc_declOK (Or.inr exSrc_noInt) exMax_std hfmt
    exTM_canonicalFor 1 10 [] exTM_solve.1
  rw [exTM_solve.2, exTM'_preimage, exTM'_value] at h
  exact ⟨h.1, h.2.1⟩

/-- non-vacuity (`K = ℚ`, every tolerance `t ≥ 0`, step limit 0): `max x s.t. c: x ≤ 2`, `x` NonNegativeReal.  Every
hypothesis of `c03_slow_simplex_end_to_end_partial` holds JOINTLY — the pipeline returns `exMax`, its standard form is
`exMaxStd`, `exTM` is canonical for it, the loop stops `Finished` — and the conclusion reads: `x = 2` satisfies the
source, the source objective there is the reported value 2, no satisfying assignment has a larger objective. -/
example (t : ℚ) (ht : 0 ≤ t) :
    srcFeasible exSrc (pointOf ["x"] [2]) = true ∧ eval (pointOf ["x"] [2]) exSrc.objective = some 2 ∧
    ∀ ρ : String → ℚ, srcFeasible exSrc ρ = true → ∀ u, eval ρ exSrc.objective = some u → u ≤ 2 := by
  have h := c03_slow_simplex_end_to_end_partial ht (exSrc_compile (.fin t)) exSrc_frag exSrc_declOK
    (Or.inr exSrc_noInt) exMax_wf exMax_nnok exMax_domVars exMax_nodup exMax_std
    exTM_canonicalFor 1 10 [] exTM_solve.1
  rw [exTM_solve.2, exTM'_preimage, exTM'_value] at h
  refine ⟨h.1, h.2.1, fun ρ hρ u hu => ?_⟩
  have := h.2.2 ρ hρ u hu
  simpa [exSrc, better_max] using this

/-! #### … and with `DomainFormat lm` discharged too: hypotheses on the SOURCE only

`ComposeWF.domainFormat_of_compile` (agent-c08proof / agent-bounds: bound inference publishes proper ranges, the lowering
declares auxiliaries with proper ranges) derives `DomainFormat lm` from `Lin.DomainProper m.domain` — every declared
`Real(lo, hi)` has `lo` finite or `−inf`, `hi` finite or `+inf`; every `NonNegativeReal(lo, hi)` has `0 ≤ lo` finite — a
decidable fact about the DECLARATIONS.  What remains besides the source contract is the run itself. -/

/-- **source optimum from the built-in simplex — every hypothesis about the model is about the SOURCE.** -/
theorem c03_slow_simplex_end_to_end_source_partial {m : Model (Ext K)} {t : K} (ht : 0 ≤ t) {maxSteps : Nat}
    {lm : LinModel (Ext K)} (h : Compile.linearize m (.fin t) maxSteps = .ok lm)
    (hm : LogicModel m m.domain) (hsh : AssertShape m) (hok : DeclOK m.domain)
    (ht1 : t < 1 ∨ NoIntegerVars m.domain) (hdp : Lin.DomainProper m.domain)
    {s : StdModel (Ext K)} (hs : standardize lm = .ok s)
    {T : Tab K} (hT : CanonicalFor T (stdK s)) (stallExtra limit : Nat) (prefer : List Nat)
    (hfin : (solve (0:K) stallExtra limit prefer T).result = .ok ()) :
    srcFeasible m (pointOf lm.vars (preimage lm (basicSolution (solve (0:K) stallExtra limit prefer T).final))) = true ∧
    eval (pointOf lm.vars (preimage lm (basicSolution (solve (0:K) stallExtra limit prefer T).final))) m.objective =
      some (optimalValue (solve (0:K) stallExtra limit prefer T).final) ∧
    ∀ ρ : String → K, srcFeasible m ρ = true → ∀ u, eval ρ m.objective = some u →
      better m.optType u (optimalValue (solve (0:K) stallExtra limit prefer T).final) = false :=
  c03_slow_simplex_end_to_end_src_partial ht h hm hsh hok ht1 hs
    (ComposeWF.domainFormat_of_compile hdp (ComposeWF.finiteLits_of_logicModel hm) h) hT stallExtra limit prefer hfin

/-- **source unboundedness from the built-in simplex, source-side hypotheses only.** -/
theorem c03_slow_simplex_unbounded_end_to_end_source_partial {m : Model (Ext K)} {t : K} (ht : 0 ≤ t) {maxSteps : Nat}
    {lm : LinModel (Ext K)} (h : Compile.linearize m (.fin t) maxSteps = .ok lm)
    (hm : LogicModel m m.domain) (hsh : AssertShape m) (hok : DeclOK m.domain)
    (ht1 : t < 1 ∨ NoIntegerVars m.domain) (hdp : Lin.DomainProper m.domain)
    {s : StdModel (Ext K)} (hs : standardize lm = .ok s)
    {T : Tab K} (hT : CanonicalFor T (stdK s)) (stallExtra limit : Nat) (prefer : List Nat)
    (hunb : (solve (0:K) stallExtra limit prefer T).result = .error .unbounded) : SrcUnbounded m :=
  c03_slow_simplex_unbounded_end_to_end_src_partial ht h hm hsh hok ht1 hs
    (ComposeWF.domainFormat_of_compile hdp (ComposeWF.finiteLits_of_logicModel hm) h) hT stallExtra limit prefer hunb

/-- **source infeasibility from the built-in simplex, source-side hypotheses only.** -/
theorem c03_slow_simplex_infeasible_end_to_end_source_partial {m : Model (Ext K)} {t : K} (ht : 0 ≤ t) {maxSteps : Nat}
    {lm : LinModel (Ext K)} (h : Compile.linearize m (.fin t) maxSteps = .ok lm)
    (hm : LogicModel m m.domain) (hsh : AssertShape m) (hok : DeclOK m.domain)
    (ht1 : t < 1 ∨ NoIntegerVars m.domain) (hdp : Lin.DomainProper m.domain)
    {s : StdModel (Ext K)} (hs : standardize lm = .ok s) (stallExtra limit : Nat) (prefer : List Nat)
    (hp1 : (solve (0:K) stallExtra limit prefer (phase1Tab (stdK s))).result = .ok ())
    (hneg : (solve (0:K) stallExtra limit prefer (phase1Tab (stdK s))).final.value < 0) :
    ∀ ρ : String → K, srcFeasible m ρ = false :=
  c03_slow_simplex_infeasible_end_to_end_src_partial ht h hm hsh hok ht1 hs
    (ComposeWF.domainFormat_of_compile hdp (ComposeWF.finiteLits_of_logicModel hm) h) stallExtra limit prefer hp1 hneg

end EndToEnd

/-! ### the default solver path: property C03 as stated, with microlp as the recorded assumption

`Compose.oneShot solver m t maxSteps` is the one-shot pipeline after parsing (`Compile.linearize`, then `auto_solver`
= `SolverWrap.wrapAuto` around the external solver's raw answer `solver lm`); `Compose.SolverSpec lm out`
(`Rooc/Proofs/ComposeSolver.lean`) is the ASSUMPTION about microlp, stated on rooc's returned `LpSolution` after its own
read-back: a solution labelled `Optimal` satisfies `LinOptimal` at `assignmentOf sol` and reports the linear objective
there; `Err Infeasible` only when `LinInfeasible`.  It is an explicit hypothesis, not an axiom, and it is what
C05's certified comparison / C04's certificate check validate per generated instance.  Under it, on every enumerable
model that compiles under the contract, the pipeline's answer is the reference interpreter's verdict. -/
section DefaultSolver
open Rooc.SolverWrap (MlpOutcome Solution Res wrapAuto)

/-- **property C03 for the default solver** (`_logic_partial`: the region of `c01_compile_logic_partial`): a returned
solution satisfies the source model, its reported value is the optimum the reference computes (`min`/`max`) — or the
reference finds a witness too (`satisfy`) —, and `Infeasible` is answered only when the reference says `infeasible`,
i.e. when NO assignment satisfies the source. -/
theorem c03_default_solver_logic_partial {solver : LinModel (Ext K) → MlpOutcome (Ext K)}
    {m : Model (Ext K)} {t : K} (ht : 0 ≤ t) {maxSteps : Nat} {lm : LinModel (Ext K)}
    (h : Compile.linearize m (.fin t) maxSteps = .ok lm)
    (hm : LogicModel m m.domain) (hsh : AssertShape m) (hok : DeclOK m.domain)
    (ht1 : t < 1 ∨ NoIntegerVars m.domain)
    {asg : List (List (String × K))} (ha : assignments m.domain = some asg)
    (hspec : SolverSpec lm (solver lm)) :
    (∀ sol, oneShot solver m t maxSteps = .ok sol → sol.status = .optimal →
      srcFeasible m (assignmentOf sol) = true ∧
      (m.optType ≠ .satisfy → ∃ v w, refSolve m = .optimal v w ∧ sol.value = .fin v) ∧
      (m.optType = .satisfy → ∃ w, refSolve m = .feasibleAny w)) ∧
    (oneShot solver m t maxSteps = .err "Infeasible" →
      refSolve m = .infeasible ∧ ∀ ρ : String → K, srcFeasible m ρ = false) := by
  rw [oneShot_ok h]
  obtain ⟨hinf, hopt⟩ := c03_answer_matches_reference_logic_partial ht h hm hsh hok ht1 ha
  refine ⟨fun sol hsol hst => ?_, fun herr => ?_⟩
  · obtain ⟨ho, w, hw, hobj⟩ := hspec.optimal sol hsol hst
    refine ⟨src_of_lin (compilesTo_of_compile_logic ht h hm hsh hok ht1) ho.feasible, fun hne => ?_,
      (hopt _ ho).2⟩
    obtain ⟨v, wit, hr, hv⟩ := (hopt _ ho).1 hne
    rw [hobj] at hv; cases hv
    exact ⟨w, wit, hr, hw⟩
  · have hi := hspec.infeasible herr
    exact ⟨hinf hi, (c03_compile_infeasible_logic_partial ht h hm hsh hok ht1).mp hi⟩

/-- the piecewise-linear fragment as a special case. -/
theorem c03_default_solver_partial {solver : LinModel (Ext K) → MlpOutcome (Ext K)}
    {m : Model (Ext K)} {t : K} (ht : 0 ≤ t) {maxSteps : Nat} {lm : LinModel (Ext K)}
    (h : Compile.linearize m (.fin t) maxSteps = .ok lm)
    (hm : FragModel true m m.domain) (hok : DeclOK m.domain)
    (ht1 : t < 1 ∨ NoIntegerVars m.domain)
    {asg : List (List (String × K))} (ha : assignments m.domain = some asg)
    (hspec : SolverSpec lm (solver lm)) :
    (∀ sol, oneShot solver m t maxSteps = .ok sol → sol.status = .optimal →
      srcFeasible m (assignmentOf sol) = true ∧
      (m.optType ≠ .satisfy → ∃ v w, refSolve m = .optimal v w ∧ sol.value = .fin v) ∧
      (m.optType = .satisfy → ∃ w, refSolve m = .feasibleAny w)) ∧
    (oneShot solver m t maxSteps = .err "Infeasible" →
      refSolve m = .infeasible ∧ ∀ ρ : String → K, srcFeasible m ρ = false) :=
  c03_default_solver_logic_partial ht h (LogicModel.ofFragModel hm) (assertShape_of_fragModel hm) hok ht1 ha hspec

/-- non-vacuity (`K = ℚ`, every tolerance `t ≥ 0`, step limit 0): `min x s.t. c: x ≤ y`, `x, y` Boolean.  The pipeline
returns the concrete `lmBool`; for the solver answer `outBool` the assumption `SolverSpec` HOLDS (`solverSpec_lmBool`),
rooc hands back `solBool`, and the theorem concludes: that solution satisfies the source and its value `0` is the optimum
the reference interpreter computes. -/
example (t : ℚ) (ht : 0 ≤ t) :
    oneShot (fun _ => outBool) (exBool : Model (Ext ℚ)) t 0 = .ok solBool ∧
    srcFeasible (exBool : Model (Ext ℚ)) (assignmentOf solBool) = true ∧
    ∃ w, refSolve (exBool : Model (Ext ℚ)) = .optimal 0 w := by
  have hc := exBool_compile0 (K := ℚ) (.fin t)
  have hone : oneShot (fun _ => outBool) (exBool : Model (Ext ℚ)) t 0 = .ok solBool := by
    rw [oneShot_ok hc]; exact wrapAuto_lmBool
  obtain ⟨hsol, _⟩ := c03_default_solver_partial (solver := fun _ => outBool) ht hc exBool_frag exBool_declOK
    (Or.inr exBool_noInt)
    (asg := [[("x", 0), ("y", 0)], [("x", 1), ("y", 0)], [("x", 0), ("y", 1)], [("x", 1), ("y", 1)]])
    (by rw [fieldExact_rat]; decide +kernel) solverSpec_lmBool
  obtain ⟨hs, hv, _⟩ := hsol solBool hone rfl
  obtain ⟨v, w, hr, hval⟩ := hv (by simp [Compose.exBool])
  have : v = 0 := by simpa [solBool] using hval.symm
  subst this
  exact ⟨hone, hs, w, hr⟩

/-! #### the static contract: no semantic hypothesis left

With `LinP.logicModel_of_compile` the ∀-assignments invariant `LogicModel m m.domain` follows from the SUCCESS of
`Compile.linearize` and the static contract `StaticModel m`.  (`c03_logicModel_of_enumerated` below is the independent
route for enumerable declarations — `LogicModel` from the decidable `SidesOK m` and `PointOK m` at the finitely many
enumerated assignments — kept because it does not need the compiler to have run.) -/

/-- **property C03 for the default solver under the STATIC contract**: `StaticModel m` (declared used variables + finite
literals), `AssertShape`, `DeclOK` — all decidable —, the tolerance condition and the recorded assumption `SolverSpec`
about microlp.  A returned solution satisfies the source and carries the reference's optimum; `Infeasible` is answered only
when the reference says `infeasible`, i.e. when NO assignment satisfies the source. -/
theorem c03_default_solver_static_partial {solver : LinModel (Ext K) → MlpOutcome (Ext K)}
    {m : Model (Ext K)} {t : K} (ht : 0 ≤ t) {maxSteps : Nat} {lm : LinModel (Ext K)}
    (h : Compile.linearize m (.fin t) maxSteps = .ok lm)
    (hm : StaticModel m) (hsh : AssertShape m) (hok : DeclOK m.domain)
    (ht1 : t < 1 ∨ NoIntegerVars m.domain)
    {asg : List (List (String × K))} (ha : assignments m.domain = some asg)
    (hspec : SolverSpec lm (solver lm)) :
    (∀ sol, oneShot solver m t maxSteps = .ok sol → sol.status = .optimal →
      srcFeasible m (assignmentOf sol) = true ∧
      (m.optType ≠ .satisfy → ∃ v w, refSolve m = .optimal v w ∧ sol.value = .fin v) ∧
      (m.optType = .satisfy → ∃ w, refSolve m = .feasibleAny w)) ∧
    (oneShot solver m t maxSteps = .err "Infeasible" →
      refSolve m = .infeasible ∧ ∀ ρ : String → K, srcFeasible m ρ = false) :=
  c03_default_solver_logic_partial ht h (logicModel_of_compile h hm hsh hok) hsh hok ht1 ha hspec

/-- non-vacuity of the static form (`K = ℚ`, every tolerance, step limit 0): `exBool` satisfies the static contract, the
assumption about microlp holds for the answer `outBool` (`solverSpec_lmBool`), and the returned solution carries the optimum 0
the reference computes. -/
example (t : ℚ) (ht : 0 ≤ t) : ∃ w, refSolve (exBool : Model (Ext ℚ)) = .optimal 0 w := by
  have hc := exBool_compile0 (K := ℚ) (.fin t)
  have hone : oneShot (fun _ => outBool) (exBool : Model (Ext ℚ)) t 0 = .ok solBool := by
    rw [oneShot_ok hc]; exact wrapAuto_lmBool
  obtain ⟨hsol, _⟩ := c03_default_solver_static_partial (solver := fun _ => outBool) ht hc
    (StaticModel.ofLogic (LogicModel.ofFragModel exBool_frag)) (assertShape_of_fragModel exBool_frag) exBool_declOK
    (Or.inr exBool_noInt)
    (asg := [[("x", 0), ("y", 0)], [("x", 1), ("y", 0)], [("x", 0), ("y", 1)], [("x", 1), ("y", 1)]])
    (by rw [fieldExact_rat]; decide +kernel) solverSpec_lmBool
  obtain ⟨_, hv, _⟩ := hsol solBool hone rfl
  obtain ⟨v, w, hr, hval⟩ := hv (by simp [Compose.exBool])
  have : v = 0 := by simpa [solBool] using hval.symm
  subst this
  exact ⟨w, hr⟩

theorem c03_logicModel_of_enumerated {m : Model (Ext K)} {asg : List (List (String × K))}
    (ha : assignments m.domain = some asg) (hs : SidesOK m) (hp : ∀ a ∈ asg, PointOK m (lookup a)) :
    LogicModel m m.domain := logicModel_of_enumerated ha hs hp

/-- the same with the contract spelled by `Ref.SidesOK` (`Exp.vars` / `usedNames`). -/
theorem c03_default_solver_discrete_partial {solver : LinModel (Ext K) → MlpOutcome (Ext K)}
    {m : Model (Ext K)} {t : K} (ht : 0 ≤ t) {maxSteps : Nat} {lm : LinModel (Ext K)}
    (h : Compile.linearize m (.fin t) maxSteps = .ok lm)
    {asg : List (List (String × K))} (ha : assignments m.domain = some asg)
    (hs : SidesOK m)
    (hsh : AssertShape m) (hok : DeclOK m.domain) (ht1 : t < 1 ∨ NoIntegerVars m.domain)
    (hspec : SolverSpec lm (solver lm)) :
    (∀ sol, oneShot solver m t maxSteps = .ok sol → sol.status = .optimal →
      srcFeasible m (assignmentOf sol) = true ∧
      (m.optType ≠ .satisfy → ∃ v w, refSolve m = .optimal v w ∧ sol.value = .fin v) ∧
      (m.optType = .satisfy → ∃ w, refSolve m = .feasibleAny w)) ∧
    (oneShot solver m t maxSteps = .err "Infeasible" →
      refSolve m = .infeasible ∧ ∀ ρ : String → K, srcFeasible m ρ = false) :=
  c03_default_solver_static_partial ht h (staticModel_of_sidesOK hs) hsh hok ht1 ha hspec

/-- … and with `DeclOK` in its decidable form for discrete declarations (`Ref.DiscreteDeclOK`: Boolean, or an
`IntegerRange` within `i32`, non-empty when never used) and distinct names: EVERY hypothesis except the recorded assumption
`SolverSpec` about microlp is a finite, syntactic check on the model. -/
theorem c03_default_solver_discrete_checked_partial {solver : LinModel (Ext K) → MlpOutcome (Ext K)}
    {m : Model (Ext K)} {t : K} (ht : 0 ≤ t) {maxSteps : Nat} {lm : LinModel (Ext K)}
    (h : Compile.linearize m (.fin t) maxSteps = .ok lm)
    {asg : List (List (String × K))} (ha : assignments m.domain = some asg)
    (hs : SidesOK m)
    (hsh : AssertShape m) (hnd : (m.domain.map (·.name)).Nodup) (hd : ∀ d ∈ m.domain, DiscreteDeclOK d)
    (ht1 : t < 1 ∨ NoIntegerVars m.domain) (hspec : SolverSpec lm (solver lm)) :
    (∀ sol, oneShot solver m t maxSteps = .ok sol → sol.status = .optimal →
      srcFeasible m (assignmentOf sol) = true ∧
      (m.optType ≠ .satisfy → ∃ v w, refSolve m = .optimal v w ∧ sol.value = .fin v) ∧
      (m.optType = .satisfy → ∃ w, refSolve m = .feasibleAny w)) ∧
    (oneShot solver m t maxSteps = .err "Infeasible" →
      refSolve m = .infeasible ∧ ∀ ρ : String → K, srcFeasible m ρ = false) :=
  c03_default_solver_discrete_partial ht h ha hs hsh (declOK_of_discrete hnd hd) ht1 hspec

/-- non-vacuity of the decidable declaration check. -/
example : DeclOK (exBool : Model (Ext ℚ)).domain :=
  declOK_of_discrete (by decide) (by
    intro d hd
    simp only [Compose.exBool, List.mem_cons, List.mem_nil_iff, or_false] at hd
    rcases hd with rfl | rfl <;> exact Or.inl rfl)

/-- non-vacuity: the finite check succeeds on `exBool` (`min x s.t. x ≤ y`, Booleans). -/
example : LogicModel (exBool : Model (Ext ℚ)) (exBool : Model (Ext ℚ)).domain := by
  refine c03_logicModel_of_enumerated
    (asg := [[("x", 0), ("y", 0)], [("x", 1), ("y", 0)], [("x", 0), ("y", 1)], [("x", 1), ("y", 1)]])
    (by rw [fieldExact_rat]; decide +kernel) ?_ ?_
  · intro e he
    simp only [sides, Compose.exBool, List.flatMap_cons, List.flatMap_nil, List.mem_cons, List.mem_nil_iff,
      List.append_nil, or_false] at he
    rcases he with rfl | rfl | rfl | rfl <;> simp [Exp.vars, usedNames, Compose.exBool, finiteLits]
  · intro a _ e he
    simp only [sides, Compose.exBool, List.flatMap_cons, List.flatMap_nil, List.mem_cons, List.mem_nil_iff,
      List.append_nil, or_false] at he
    rcases he with rfl | rfl | rfl | rfl <;> simp [LogicOperands01, Sem.eval]

/-- **the same, stated on the DIFFED model of `RoocSolver::solve_using(auto_solver)`** (`Pipeline.solveUsingAuto`,
`Rooc/Pipeline.lean`: `Linearizer::linearize` with `map_err(Linearization)`, `auto_solver` with `map_err(Solver)`; compared
arm by arm and `LpSolution` by `LpSolution` with the real entry point on every run of `./check C03`).  Under the assumption
`SolverSpec` about microlp for the model the pipeline compiles: `Ok(sol)` labelled Optimal ⇒ `sol` satisfies the source and
carries the reference's optimum; `Err(Solver(Infeasible))` ⇒ the reference says `infeasible` and no assignment satisfies the
source. -/
theorem c03_solve_using_logic_partial {solver : LinModel (Ext K) → MlpOutcome (Ext K)}
    {m : Model (Ext K)} {t : K} (ht : 0 ≤ t) {maxSteps : Nat}
    (hm : LogicModel m m.domain) (hsh : AssertShape m) (hok : DeclOK m.domain)
    (ht1 : t < 1 ∨ NoIntegerVars m.domain)
    {asg : List (List (String × K))} (ha : assignments m.domain = some asg)
    (hspec : ∀ lm, Compile.linearize m (.fin t) maxSteps = .ok lm → SolverSpec lm (solver lm)) :
    (∀ lm sol, Pipeline.solveUsingAuto m (.fin t) maxSteps solver = .solved lm sol → sol.status = .optimal →
      srcFeasible m (assignmentOf sol) = true ∧
      (m.optType ≠ .satisfy → ∃ v w, refSolve m = .optimal v w ∧ sol.value = .fin v) ∧
      (m.optType = .satisfy → ∃ w, refSolve m = .feasibleAny w)) ∧
    (Pipeline.solveUsingAuto m (.fin t) maxSteps solver = .solver "Infeasible" →
      refSolve m = .infeasible ∧ ∀ ρ : String → K, srcFeasible m ρ = false) := by
  refine ⟨fun lm sol hp hst => ?_, fun hp => ?_⟩
  · obtain ⟨hc, hone⟩ := pipeline_solved hp
    exact (c03_default_solver_logic_partial ht hc hm hsh hok ht1 ha (hspec lm hc)).1 sol hone hst
  · obtain ⟨lm, hc, hone⟩ := pipeline_solver hp
    exact (c03_default_solver_logic_partial ht hc hm hsh hok ht1 ha (hspec lm hc)).2 hone

/-- **no assumption at all on the variable-free branch**: when the compiled model has no domain entry (a source without
used variables — constants only), `auto_solver` decides it itself and `SolverSpec` is a THEOREM (`Compose.
solverSpec_varFree`, `ComposeWF.varFree_of_compile` from C08), whatever the external solver would answer.  So for such
sources the pipeline's answer IS the reference's verdict, unconditionally. -/
theorem c03_solve_using_varfree_logic_partial {solver : LinModel (Ext K) → MlpOutcome (Ext K)}
    {m : Model (Ext K)} {t : K} (ht : 0 ≤ t) {maxSteps : Nat} {lm : LinModel (Ext K)}
    (h : Compile.linearize m (.fin t) maxSteps = .ok lm) (hdom : lm.domain = [])
    (hm : LogicModel m m.domain) (hsh : AssertShape m) (hok : DeclOK m.domain)
    (ht1 : t < 1 ∨ NoIntegerVars m.domain)
    {asg : List (List (String × K))} (ha : assignments m.domain = some asg) :
    (∀ sol, oneShot solver m t maxSteps = .ok sol → sol.status = .optimal →
      srcFeasible m (assignmentOf sol) = true ∧
      (m.optType ≠ .satisfy → ∃ v w, refSolve m = .optimal v w ∧ sol.value = .fin v) ∧
      (m.optType = .satisfy → ∃ w, refSolve m = .feasibleAny w)) ∧
    (oneShot solver m t maxSteps = .err "Infeasible" →
      refSolve m = .infeasible ∧ ∀ ρ : String → K, srcFeasible m ρ = false) :=
  c03_default_solver_logic_partial ht h hm hsh hok ht1 ha
    (solverSpec_varFree (ComposeWF.varFree_of_compile h hok.nodup (ComposeWF.finiteLits_of_logicModel hm) hdom) _)

/-- non-vacuity (`K = ℚ`, every tolerance, every step limit, EVERY external solver): `min 3`.  The pipeline returns the
variable-free `lmConst`, rooc answers `value = 3` without consulting the solver, and the reference agrees. -/
example (solver : LinModel (Ext ℚ) → MlpOutcome (Ext ℚ)) (t : ℚ) (ht : 0 ≤ t) (n : Nat) :
    oneShot solver (exConst : Model (Ext ℚ)) t n = .ok (SolverWrap.lpSolutionNew [] (.fin 3) []) ∧
    ∃ w, refSolve (exConst : Model (Ext ℚ)) = .optimal 3 w := by
  have hc := exConst_compile (K := ℚ) (.fin t) n
  have hone : oneShot solver (exConst : Model (Ext ℚ)) t n = .ok (SolverWrap.lpSolutionNew [] (.fin 3) []) := by
    rw [oneShot_ok hc]; simp [SolverWrap.wrapAuto, lmConst]
  obtain ⟨hsol, _⟩ := c03_solve_using_varfree_logic_partial (solver := solver) ht hc rfl
    (LogicModel.ofFragModel exConst_frag) (assertShape_of_fragModel exConst_frag) exConst_declOK
    (Or.inr (fun d hd => by simp [exConst] at hd)) (asg := [[]]) (by simp [exConst, assignments])
  obtain ⟨_, hv, _⟩ := hsol _ hone rfl
  obtain ⟨v, w, hr, hval⟩ := hv (by simp [exConst])
  have : v = 3 := by simpa [SolverWrap.lpSolutionNew] using hval.symm
  subst this
  exact ⟨hone, w, hr⟩

/-- **the whole default path from a program, as ONE diffed function.**  `Pipeline.solveProg p typeChecks tol n solver`
(`Rooc/Pipeline.lean`) models `RoocSolver::try_new(text)?.solve_using(auto_solver)` on the iteration fragment: parser's
arity rule, type checker (a parameter: the verdict of the real one), `transform` (`Pre.transformCore`, agent-pre's C06
model), `Linearizer::linearize`, `auto_solver`; every `./check C03` run compares it arm by arm and `LpSolution` by
`LpSolution` with the real entry point on generated program texts.  Whenever it answers past the front end, the
transformed model `m` exists and — under the contract on `m` and the recorded assumption `SolverSpec` — a solution
labelled Optimal satisfies `m` and carries the reference's optimum, and `Err(Solver(Infeasible))` means `refSolve m =
infeasible`. -/
theorem c03_solve_prog_logic_partial {solver : LinModel (Ext K) → MlpOutcome (Ext K)} {p : Pre.ProgM} {tc : Bool}
    {t : K} (ht : 0 ≤ t) {maxSteps : Nat}
    (hcontract : ∀ m : Model (Ext K), (Pre.transformCore p : Except Pre.IErr (Model (Ext K))) = .ok m →
      LogicModel m m.domain ∧ AssertShape m ∧ DeclOK m.domain ∧ (t < 1 ∨ NoIntegerVars m.domain) ∧
      (∃ asg, assignments m.domain = some asg) ∧
      ∀ lm, Compile.linearize m (.fin t) maxSteps = .ok lm → SolverSpec lm (solver lm)) :
    (∀ lm sol, Pipeline.solveProg p tc (.fin t) maxSteps solver = .compiled (.solved lm sol) → sol.status = .optimal →
      ∃ m : Model (Ext K), (Pre.transformCore p : Except Pre.IErr (Model (Ext K))) = .ok m ∧
        srcFeasible m (assignmentOf sol) = true ∧
        (m.optType ≠ .satisfy → ∃ v w, refSolve m = .optimal v w ∧ sol.value = .fin v) ∧
        (m.optType = .satisfy → ∃ w, refSolve m = .feasibleAny w)) ∧
    (Pipeline.solveProg p tc (.fin t) maxSteps solver = .compiled (.solver "Infeasible") →
      ∃ m : Model (Ext K), (Pre.transformCore p : Except Pre.IErr (Model (Ext K))) = .ok m ∧
        refSolve m = .infeasible ∧ ∀ ρ : String → K, srcFeasible m ρ = false) := by
  refine ⟨fun lm sol hp hst => ?_, fun hp => ?_⟩
  · obtain ⟨_, _, m, hm, hu⟩ := solveProg_compiled hp
    obtain ⟨h1, h2, h3, h4, ⟨asg, ha⟩, hspec⟩ := hcontract m hm
    exact ⟨m, hm, (c03_solve_using_logic_partial ht h1 h2 h3 h4 ha hspec).1 lm sol hu hst⟩
  · obtain ⟨_, _, m, hm, hu⟩ := solveProg_compiled hp
    obtain ⟨h1, h2, h3, h4, ⟨asg, ha⟩, hspec⟩ := hcontract m hm
    exact ⟨m, hm, (c03_solve_using_logic_partial ht h1 h2 h3 h4 ha hspec).2 hu⟩

/-! ### any answer honouring the contract, judged against the SOURCE semantics (no enumerability needed), and the
fully proved instance: `Compile.linearize` ∘ `to_standard_form` ∘ `into_tableau` ∘ step loop ∘ `as_lp_solution` -/

/-- **a returned `LpSolution`, read by variable name, is a source optimum.**  `res` is whatever a solver path hands back
for the compiled `lm`, `AnswerSpec lm res` the contract on it (assumption for microlp / Clarabel, theorem for rooc's
simplex).  Then a solution labelled `Optimal` — its assignment by NAME, the compiler's auxiliaries simply being extra
names — satisfies the source model, its reported value IS the source objective there, no satisfying assignment is
strictly better; and `Infeasible` means that no assignment satisfies the source. -/
theorem c03_answer_src_logic_partial {m : Model (Ext K)} {t : K} (ht : 0 ≤ t) {maxSteps : Nat} {lm : LinModel (Ext K)}
    (h : Compile.linearize m (.fin t) maxSteps = .ok lm)
    (hm : LogicModel m m.domain) (hsh : AssertShape m) (hok : DeclOK m.domain)
    (ht1 : t < 1 ∨ NoIntegerVars m.domain) {res : Res (Ext K)} (hspec : AnswerSpec lm res) :
    (∀ sol, res = .ok sol → sol.status = .optimal →
      srcFeasible m (assignmentOf sol) = true ∧
      ∃ v, sol.value = .fin v ∧ eval (assignmentOf sol) m.objective = some v ∧
        ∀ ρ : String → K, srcFeasible m ρ = true → ∀ u, eval ρ m.objective = some u → better m.optType u v = false) ∧
    (res = .err "Infeasible" → ∀ ρ : String → K, srcFeasible m ρ = false) := by
  refine ⟨fun sol hsol hst => ?_, fun herr =>
    (c03_compile_infeasible_logic_partial ht h hm hsh hok ht1).mp (hspec.infeasible herr)⟩
  obtain ⟨ho, w, hw, hobj⟩ := hspec.optimal sol hsol hst
  obtain ⟨hs', he, _, hbest⟩ := c03_compile_optimal_logic_partial ht h hm hsh hok ht1 ho
  rw [hobj] at he
  exact ⟨hs', w, hw, he, fun ρ hρ u hu => hbest ρ hρ u w hu he⟩

/-- **the fully proved instance — rooc's own simplex path, end to end, in terms of the returned `LpSolution`.**
Source model under the contract, compiled by the whole pipeline; `to_standard_form` succeeds on the result; `into_tableau`
(tolerance `tol > 0`, either start) returns a tableau under the decidable `StartFacts`; the step loop at exact comparisons
stops `Finished`.  Then the `LpSolution` handed back (`as_lp_solution` on `variables_values`, value `optimal_value`), read
by variable name, satisfies the SOURCE model, reports the source objective at that assignment, and nothing satisfying the
source is strictly better.  No assumption about a solver is left; what is left about computed data is decidable:
`DomainFormat lm` (see `ComposeWF.lean`), `plainName` for the NON-FREE variables of `lm` (the known prefix-collision
finding of `as_lp_solution`; free variables may carry any name), `StartFacts`. -/
theorem c03_slow_simplex_returned_solution_partial {m : Model (Ext K)} {t : K} (ht : 0 ≤ t) {maxSteps : Nat}
    {lm : LinModel (Ext K)} (h : Compile.linearize m (.fin t) maxSteps = .ok lm)
    (hm : LogicModel m m.domain) (hsh : AssertShape m) (hok : DeclOK m.domain)
    (ht1 : t < 1 ∨ NoIntegerVars m.domain)
    {s : StdModel (Ext K)} (hs : Standardize.standardize lm = .ok s) (hfmt : ComposeWF.DomainFormat lm)
    (hpl : ∀ v ∈ StdLayout.keep (StdSpec.flags lm) lm.vars, ComposeNames.plain v = true)
    {tol : K} (htol : 0 < tol) (stallExtra phase1Limit : Nat)
    (hfacts : ComposeSimplex.StartFacts tol stallExtra phase1Limit (ComposeSimplex.stdK s))
    {T : Tab K} (hT : @Tableau.intoTableau K (exactArith K) tol stallExtra phase1Limit (ComposeSimplex.stdK s) = .ok T)
    (limit : Nat) (prefer : List Nat)
    (hfin : (@Tableau.solve K (exactArith K) 0 stallExtra limit prefer T).result = .ok ()) :
    srcFeasible m (assignmentOf (ComposeSimplex.returnedSolution s
      (@Tableau.solve K (exactArith K) 0 stallExtra limit prefer T).final)) = true ∧
    ∃ v, (ComposeSimplex.returnedSolution s (@Tableau.solve K (exactArith K) 0 stallExtra limit prefer T).final).value
        = .fin v ∧
      eval (assignmentOf (ComposeSimplex.returnedSolution s
        (@Tableau.solve K (exactArith K) 0 stallExtra limit prefer T).final)) m.objective = some v ∧
      ∀ ρ : String → K, srcFeasible m ρ = true → ∀ u, eval ρ m.objective = some u → better m.optType u v = false := by
  obtain ⟨hW, hnn, hdv, hnd⟩ := ComposeWF.compiled_wf h hok.nodup (ComposeWF.finiteLits_of_logicModel hm) hs hfmt
  have hc := ComposeSimplex.intoTableau_canonicalFor htol hW hs stallExtra phase1Limit hfacts hT
  have hspec := ComposeReturn.simplex_answerSpec hW hnn hdv hnd hpl hs hc stallExtra limit prefer hfin
  exact (c03_answer_src_logic_partial ht h hm hsh hok ht1 hspec).1 _ rfl rfl

open Rooc.ComposeSem Rooc.ComposeSimplex in
/-- non-vacuity (`K = ℚ`, every tolerance `t ≥ 0` of the bound inference, step limit 0; simplex tolerance `1e-5` for the
start): `max x s.t. c: x ≤ 2`, `x` NonNegativeReal.  EVERY hypothesis of `c03_slow_simplex_returned_solution_partial` is
established — compile (symbolic run), standard form (kernel), `DomainFormat`, plain names, `StartFacts`, the tableau
`into_tableau` returns (evaluated), the loop's verdict (evaluated) — and the theorem says: the returned `LpSolution` read
by name satisfies the source and reports a value `v` that no satisfying assignment exceeds. -/
example (t : ℚ) (ht : 0 ≤ t) :
    srcFeasible exSrc (assignmentOf (ComposeSimplex.returnedSolution exMaxStd exTM')) = true ∧
    ∃ v, (ComposeSimplex.returnedSolution exMaxStd exTM').value = .fin v ∧
      ∀ ρ : String → ℚ, srcFeasible exSrc ρ = true → ∀ u, eval ρ exSrc.objective = some u → u ≤ v := by
  have hfmt : ComposeWF.DomainFormat exMax := by
    refine ⟨?_, ?_, exMax_nnok⟩ <;> intro d hd lo hi hty <;>
      simp only [exMax, List.mem_singleton] at hd <;> subst hd <;> simp at hty
    obtain ⟨rfl, rfl⟩ := hty
    simp [StdSem.isFin]
  have hpl : ∀ v ∈ exMax.vars, ComposeNames.plain v = true := by
    intro v hv; simp only [exMax, List.mem_singleton] at hv; subst hv; decide
  have h := c03_slow_simplex_returned_solution_partial ht (exSrc_compile (.fin t)) (LogicModel.ofFragModel exSrc_frag)
    (assertShape_of_fragModel exSrc_frag) exSrc_declOK (Or.inr exSrc_noInt) exMax_std hfmt
    (fun v hv => hpl v ((ComposeNames.keep_sublist _ _).subset hv))
    (tol := (1/100000 : ℚ)) (by norm_num) 1 10 exMax_startFacts exMax_intoTableau 10 [] exTM'_solve.1
  rw [exTM'_solve.2] at h
  obtain ⟨hs, v, hv, _, hbest⟩ := h
  refine ⟨hs, v, hv, fun ρ hρ u hu => ?_⟩
  have := hbest ρ hρ u hu
  simpa [exSrc, better_max] using this

/-- **the returned `LpSolution` of rooc's simplex path is a source optimum — `DomainFormat` discharged**: besides the
source contract and `Lin.DomainProper m.domain` (declarations), only facts about the RUN remain (success of
`to_standard_form`, plain names of the kept variables, `StartFacts`, the loop's verdict). -/
theorem c03_slow_simplex_returned_solution_source_partial {m : Model (Ext K)} {t : K} (ht : 0 ≤ t) {maxSteps : Nat}
    {lm : LinModel (Ext K)} (h : Compile.linearize m (.fin t) maxSteps = .ok lm)
    (hm : LogicModel m m.domain) (hsh : AssertShape m) (hok : DeclOK m.domain)
    (ht1 : t < 1 ∨ NoIntegerVars m.domain) (hdp : Lin.DomainProper m.domain)
    {s : StdModel (Ext K)} (hs : Standardize.standardize lm = .ok s)
    (hpl : ∀ v ∈ StdLayout.keep (StdSpec.flags lm) lm.vars, ComposeNames.plain v = true)
    {tol : K} (htol : 0 < tol) (stallExtra phase1Limit : Nat)
    (hfacts : ComposeSimplex.StartFacts tol stallExtra phase1Limit (ComposeSimplex.stdK s))
    {T : Tab K} (hT : @Tableau.intoTableau K (exactArith K) tol stallExtra phase1Limit (ComposeSimplex.stdK s) = .ok T)
    (limit : Nat) (prefer : List Nat)
    (hfin : (@Tableau.solve K (exactArith K) 0 stallExtra limit prefer T).result = .ok ()) :
    srcFeasible m (assignmentOf (ComposeSimplex.returnedSolution s
      (@Tableau.solve K (exactArith K) 0 stallExtra limit prefer T).final)) = true ∧
    ∃ v, (ComposeSimplex.returnedSolution s (@Tableau.solve K (exactArith K) 0 stallExtra limit prefer T).final).value
        = .fin v ∧
      eval (assignmentOf (ComposeSimplex.returnedSolution s
        (@Tableau.solve K (exactArith K) 0 stallExtra limit prefer T).final)) m.objective = some v ∧
      ∀ ρ : String → K, srcFeasible m ρ = true → ∀ u, eval ρ m.objective = some u → better m.optType u v = false :=
  c03_slow_simplex_returned_solution_partial ht h hm hsh hok ht1 hs
    (ComposeWF.domainFormat_of_compile hdp (ComposeWF.finiteLits_of_logicModel hm) h) hpl htol stallExtra phase1Limit
    hfacts hT limit prefer hfin

open Rooc.ComposeSem Rooc.ComposeSimplex in
/-- non-vacuity of the source-only form: for `exSrc` (`max x s.t. c: x ≤ 2`, `x` NonNegativeReal) the declarations are
proper, and with the run facts established before the theorem applies. -/
example (t : ℚ) (ht : 0 ≤ t) :
    srcFeasible exSrc (assignmentOf (ComposeSimplex.returnedSolution exMaxStd exTM')) = true := by
  have hdp : Lin.DomainProper exSrc.domain := by
    intro v hv
    simp only [exSrc, List.mem_singleton] at hv
    subst hv
    refine ⟨by simp [Lin.fin?, Arith.isFinite, Ext.isFinite], by simp [Arith.le, Arith.zero, Arith.ofInt, Ext.le], ?_⟩
    exact (Lin.UOK_iff _).mpr (Or.inr rfl)
  have hpl : ∀ v ∈ StdLayout.keep (StdSpec.flags exMax) exMax.vars, ComposeNames.plain v = true := by
    intro v hv
    have := (ComposeNames.keep_sublist _ _).subset hv
    simp only [exMax, List.mem_singleton] at this; subst this; decide
  have h := c03_slow_simplex_returned_solution_source_partial ht (exSrc_compile (.fin t))
    (LogicModel.ofFragModel exSrc_frag) (assertShape_of_fragModel exSrc_frag) exSrc_declOK (Or.inr exSrc_noInt) hdp
    exMax_std hpl (tol := (1/100000 : ℚ)) (by norm_num) 1 10 exMax_startFacts exMax_intoTableau 10 [] exTM'_solve.1
  rw [exTM'_solve.2] at h
  exact h.1

end DefaultSolver
end Composition

end Rooc.Props.C03
