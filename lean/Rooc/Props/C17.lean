/- C17 — property theorems only (helper lemmas live in `Rooc/Proofs`). -/
namespace Rooc.Props.C17
end Rooc.Props.C17
