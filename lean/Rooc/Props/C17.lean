/-
C17 — LP export denotes the same model.  PROPERTY THEOREMS ONLY (helper lemmas: `Rooc/Proofs/Lp*.lean`).

`Lp.writeLP tok lm` is the port of `LinearModel::to_lp_format` (numbers are opaque tokens `tok v`),
`Lp.readLP lexN` the independent reader, `Lp.denote lm` the LP problem the model stands for
(`Satisfy` ↦ `Minimize`, `<`/`>` ↦ `<=`/`>=`: the LP format has neither).  `K` is any linearly ordered
field; numbers live in `Ext K`.
-/
import Rooc.LpFormat
import Rooc.Proofs.Field
import Rooc.Proofs.LpBasic
import Rooc.Proofs.LpParse
import Rooc.Proofs.LpWitness
import Mathlib.Data.Rat.Floor
import Mathlib.Data.List.Nodup
namespace Rooc.Props.C17
open Rooc Rooc.Lp Arith
set_option linter.unusedSectionVars false

variable {K : Type} [Field K] [LinearOrder K] [IsStrictOrderedRing K] [FloorRing K]

/-! ### generated row names -/

/-- **Generated row names are unique**: the name the export gives to an unnamed row differs from the
name of every other row of the file — user-given or generated — for every list of rows.
(An unnamed row `i` gets the first free one of `c{i+1}`, `c{i+1}_1`, `c{i+1}_2`, ….) -/
theorem generated_names_unique {α : Type} (rows : List (LinRow α))
    (i j : Nat) (ri rj : LinRow α) (hi : rows[i]? = some ri) (hj : rows[j]? = some rj) (hij : i ≠ j)
    (hgen : ri.name.toList = []) :
    (rowNames rows)[i]? ≠ (rowNames rows)[j]? :=
  rowNamesFrom_unique (userNames rows) 0 rows (mem_userNames rows) i j ri rj hi hj hij hgen

/-- user-given names are exported unchanged -/
theorem user_names_kept {α : Type} (rows : List (LinRow α)) (i : Nat) (ri : LinRow α) (hi : rows[i]? = some ri)
    (hn : ri.name.toList ≠ []) : (rowNames rows)[i]? = some ri.name.toList :=
  rowNamesFrom_named (userNames rows) 0 rows i ri hi hn

/-- regression: a user row called `c2` followed by an unnamed second row — the export used to call
both `c2`; the unnamed row is now `c2_1`. -/
example : rowNames ([⟨"c2", [1], .ge, 1⟩, ⟨"", [1], .le, 3⟩] : List (LinRow Int)) = ["c2".toList, "c2_1".toList] := by
  decide

/-- regression: when `c2_1` is taken as well the next candidate is used; other rows keep `c{i+1}`. -/
example : rowNames ([⟨"c2", [1], .ge, 1⟩, ⟨"", [1], .le, 3⟩, ⟨"c2_1", [1], .le, 3⟩, ⟨"", [1], .le, 4⟩] : List (LinRow Int))
    = ["c2".toList, "c2_2".toList, "c2_1".toList, "c4".toList] := by
  decide

/-! ### bounds -/

/-- the default range `[0, +inf)` of an LP variable -/
def IsDefaultRange (r : Ext K × Ext K) : Prop := r = (zero, posInf)

/-- Every declared variable whose range is not the LP default `[0, +inf)` is listed: with its exact
range in the `Bounds` section, or (Boolean) in the `Binary` section. -/
theorem nondefault_bounds_listed (lm : LinModel (Ext K)) (d : DomVar (Ext K)) (hd : d ∈ lm.domain)
    (hnd : ¬ IsDefaultRange (domainRange d.ty)) :
    (∃ b ∈ (denote lm).bounds, b.var = d.name ∧ b.lo = some (domainRange d.ty).1 ∧ b.hi = some (domainRange d.ty).2)
      ∨ (d.ty = .bool ∧ d.name ∈ (denote lm).binaries) := by
  simp only [denote]
  generalize lm.domain = ds at hd
  induction ds with
  | nil => simp at hd
  | cons x xs ih =>
    rcases List.mem_cons.mp hd with rfl | hd'
    · cases hty : d.ty with
      | bool => right; simp [binaryNames, hty]
      | int lo hi =>
        left; exact ⟨⟨d.name, some (ofInt lo), some (ofInt hi)⟩, by simp [denoteBounds, hty], rfl, rfl, rfl⟩
      | real lo hi =>
        left; exact ⟨⟨d.name, some lo, some hi⟩, by simp [denoteBounds, hty], rfl, rfl, rfl⟩
      | nnreal lo hi =>
        left
        by_cases hdef : (Arith.eq lo zero && Arith.eq hi posInf) = true
        · exfalso; apply hnd
          simp only [Bool.and_eq_true] at hdef
          simp [IsDefaultRange, hty, domainRange, ext_eq_true hdef.1, ext_eq_true hdef.2]
        · exact ⟨⟨d.name, some lo, some hi⟩, by simp [denoteBounds, hty, hdef], rfl, rfl, rfl⟩
    · rcases ih hd' with ⟨b, hb, e⟩ | ⟨e1, e2⟩
      · left; refine ⟨b, ?_, e⟩
        unfold denoteBounds; split
        · exact hb
        · exact List.mem_cons_of_mem _ hb
        · split
          · exact List.mem_cons_of_mem _ hb
          · exact hb
        · exact List.mem_cons_of_mem _ hb
      · right; refine ⟨e1, ?_⟩
        unfold binaryNames; split
        · exact List.mem_cons_of_mem _ e2
        · exact e2

/-- non-vacuity: a model with a tightened variable -/
example : ¬ IsDefaultRange (domainRange (.real (.fin (-4)) (.fin 4) : VarType (Ext Rat))) := by
  simp [IsDefaultRange, domainRange]

/-- What the sections say about each declared variable is exactly its domain: the range obtained
from `Bounds` / `Binary` with the LP default `[0, +inf)` equals the variable's range, and the
`Binary` / `General` markings are its kind (variable names distinct, as in an `IndexMap`). -/
theorem denote_ranges (lm : LinModel (Ext K)) (hnames : (lm.domain.map (·.name)).Nodup)
    (d : DomVar (Ext K)) (hd : d ∈ lm.domain) :
    rangeOf (denote lm) d.name = domainRange d.ty ∧ kindOf (denote lm) d.name = domainKind d.ty := by
  have huniq : ∀ d' ∈ lm.domain, d'.name = d.name → d' = d := by
    intro d' hd' e
    exact (List.inj_on_of_nodup_map hnames) hd' hd e
  have hbin : d.name ∈ binaryNames lm.domain ↔ d.ty = .bool := by
    rw [mem_binaryNames]
    constructor
    · rintro ⟨d', hd', e, ht⟩; rw [← huniq d' hd' e]; exact ht
    · intro ht; exact ⟨d, hd, rfl, ht⟩
  have hgen : d.name ∈ generalNames lm.domain ↔ ∃ a b, d.ty = .int a b := by
    rw [mem_generalNames]
    constructor
    · rintro ⟨d', hd', e, ht⟩; rw [← huniq d' hd' e]; exact ht
    · intro ht; exact ⟨d, hd, rfl, ht⟩
  constructor
  · simp only [rangeOf, denote, List.contains_iff_mem]
    by_cases hb : d.ty = .bool
    · simp [hbin.mpr hb, hb, domainRange]
    · have : ¬ d.name ∈ binaryNames lm.domain := fun h => hb (hbin.mp h)
      simp only [this, if_false]
      exact foldl_denoteBounds lm.domain hnames d hd hb _ rfl
  · simp only [kindOf, denote, List.contains_iff_mem]
    cases hty : d.ty with
    | bool => simp [hbin.mpr hty, domainKind]
    | int a b =>
      have h1 : ¬ d.name ∈ binaryNames lm.domain := fun h => by rw [hbin.mp h] at hty; cases hty
      simp [h1, hgen.mpr ⟨a, b, hty⟩, domainKind]
    | real a b =>
      have h1 : ¬ d.name ∈ binaryNames lm.domain := fun h => by rw [hbin.mp h] at hty; cases hty
      have h2 : ¬ d.name ∈ generalNames lm.domain := fun h => by
        obtain ⟨_, _, e⟩ := hgen.mp h; rw [e] at hty; cases hty
      simp [h1, h2, domainKind]
    | nnreal a b =>
      have h1 : ¬ d.name ∈ binaryNames lm.domain := fun h => by rw [hbin.mp h] at hty; cases hty
      have h2 : ¬ d.name ∈ generalNames lm.domain := fun h => by
        obtain ⟨_, _, e⟩ := hgen.mp h; rw [e] at hty; cases hty
      simp [h1, h2, domainKind]

/-! ### the round trip -/

/-- **The LP export denotes the same model.**  For every well-formed linear model — names that are
valid LP names and not words of the format, finite coefficients / right-hand sides / offset, bounds
that are numbers or infinities — and every printer/lexer pair for the opaque number tokens that
satisfies `TokOk` on the numbers of the model, the independent LP reader applied to the exported text
returns exactly the problem the model stands for: sense, objective terms and constant, rows (name,
terms, relation, right-hand side), `Bounds` entries, `Binary` and `General` markings.
(`denote_ranges` turns the entries into the per-variable ranges.) -/
theorem read_write (tok : Ext K → List Char) (lexN : List Char → Option (Ext K)) (lm : LinModel (Ext K))
    (wf : WellFormed tok lexN lm) : readLP lexN (writeLP tok lm) = some (denote lm) := by
  unfold readLP
  rw [lexLP_writeLP tok lexN lm wf]
  exact parseLP_linesLP tok lexN lm wf

/-- The name hypothesis of `read_write` cannot be dropped: a variable called `free` (a legal rooc
name) is exported verbatim — `obj: free`, `Bounds`, ` free free` — and the reader, whatever the
number printer and lexer, cannot read the text back (known finding C17-keyword-names). -/
theorem read_write_keyword_name_counterexample (tok : Ext Rat → List Char) (lexN : List Char → Option (Ext Rat)) :
    let lm : LinModel (Ext Rat) :=
      { optType := .min, objective := [.fin 1], offset := .fin 0, vars := ["free"],
        domain := [⟨"free", .real .ninf .pinf, 1⟩], rows := [] }
    nameOk "free" = false ∧ readLP lexN (writeLP tok lm) = none :=
  ⟨by decide, by rfl⟩

/-! non-vacuity of `read_write`: integer-valued numbers printed in decimal (`Lp.exTok`, `Lp.exLex` in
`Rooc/Proofs/LpWitness.lean`), over ℚ with the same `ExactField` instance the theorems use -/
attribute [local instance 10000] fieldExact

/-- a small well-formed model: `max 3x` s.t. `-2x <= 4`, `x` integer in `[-1, 5]`. -/
example : WellFormed exTok exLex
    ({ optType := .max, objective := [.fin 3], offset := .fin 0, vars := ["x"],
       domain := [⟨"x", .int (-1) 5, 1⟩], rows := [⟨"", [.fin (-2)], .le, .fin 4⟩] } : LinModel (Ext ℚ)) := by
  have key : ∀ z : ℤ, TokOk exTok exLex (.fin (z : ℚ)) ∧ TokOk exTok exLex (Arith.abs (.fin (z : ℚ))) := by
    intro z
    refine ⟨exTokOk z, ?_⟩
    have : Arith.abs (Ext.fin (z : ℚ) : Ext ℚ) = .fin ((|z| : ℤ) : ℚ) := by
      simp only [Arith.abs, Ext.abs]
      split <;> rename_i h <;> simp at h
      · have : z < 0 := by exact_mod_cast h
        simp [abs_of_neg this]
      · have : 0 ≤ z := by exact_mod_cast h
        simp [abs_of_nonneg this]
    rw [this]; exact exTokOk _
  refine ⟨by decide, by simp, by decide, ?_, by simp [boundNums], ?_, ?_, ?_⟩
  · intro v hv
    simp [coefNums] at hv
    rcases hv with rfl | rfl | rfl | rfl <;> rfl
  · intro v hv _
    simp [coefNums, boundNums] at hv
    rcases hv with rfl | rfl | rfl | rfl
    · exact_mod_cast key 3
    · exact_mod_cast key 0
    · exact_mod_cast key (-2)
    · exact_mod_cast key 4
  · simp [exLex, Nat.ofDigitChars, Arith.zero, Arith.ofInt]
  · intro i hi
    simp [intBounds] at hi
    rcases hi with rfl | rfl <;> simp [exLex, natChars, Nat.ofDigitChars_ten_toDigits, Arith.ofInt]

end Rooc.Props.C17
