/-
C10 — Algebraic rewrites preserve meaning.  PROPERTY THEOREMS ONLY (helper lemmas live in
`Rooc/Proofs/ExpLemmas*.lean`).  `K` is any linearly ordered field (so in particular ℝ and ℚ);
expressions carry literals in `Ext K` (IEEE special values, exact arithmetic, no signed zero);
`Sem.eval ρ e = some v` means "defined at the assignment ρ with value v" (`none` = a division by
zero, a non-finite literal or an empty min/max somewhere in the tree — `eval` does not short-circuit).

The model functions `Exp.simplify` / `Exp.flattenF` are the ones the correspondence check diffs
against the Rust `Exp::simplify` / `Exp::flatten`.
-/
import Rooc.Sem
import Rooc.Proofs.Field
import Rooc.Proofs.ExpLemmas
import Rooc.Proofs.ExpLemmasFlatten
import Rooc.Proofs.ExpLemmasNF
import Rooc.Proofs.ExpLemmasSound
import Rooc.Proofs.ExpLemmasDiv
import Rooc.Proofs.ExpLemmasTruth
import Rooc.Proofs.ExpLemmasReflect
import Rooc.Proofs.ExpLemmasDefined
import Rooc.Proofs.ExpLemmasStruct
import Rooc.Proofs.ExpLemmasFull
import Rooc.Proofs.ExpLemmasSpell
import Rooc.Proofs.ExpLemmasCompile
import Rooc.Proofs.RespellTrace
namespace Rooc.Props.C10
open Rooc Rooc.Exp Rooc.Sem
set_option linter.unusedSimpArgs false

variable {K : Type} [Field K] [LinearOrder K] [IsStrictOrderedRing K] [FloorRing K]

/-- A literal is its own simplification. -/
theorem simplify_num (x : Ext K) : simplify (.num x : Exp (Ext K)) = .num x := by
  simp [simplify]

/-! ## flatten -/

/-- FULL. `flatten` preserves the denotation exactly, whatever fuel the model was given: same
definedness and same value at every assignment. -/
theorem flatten_eval_eq (n : Nat) (ρ : String → K) (e e' : Exp (Ext K))
    (h : flattenF n e = some e') : eval ρ e' = eval ρ e :=
  flattenF_eval ρ n e e' h

/-- FULL. Flattening never changes the value of a defined expression. -/
theorem flatten_sound (n : Nat) (ρ : String → K) (e e' : Exp (Ext K)) (v : K)
    (h : flattenF n e = some e') (hv : eval ρ e = some v) : eval ρ e' = some v := by
  rw [flatten_eval_eq n ρ e e' h]; exact hv

/-- FULL. Converse: flattening never turns an undefined expression into a defined one (it neither
creates nor removes a division by zero). -/
theorem flatten_sound_conv (n : Nat) (ρ : String → K) (e e' : Exp (Ext K)) (v : K)
    (h : flattenF n e = some e') (hv : eval ρ e' = some v) : eval ρ e = some v := by
  rw [← flatten_eval_eq n ρ e e' h]; exact hv

/-- FULL. The Rust recursion (which re-enters on a larger term after distributing) terminates:
the polynomial interpretation `fsize` strictly decreases along every recursive call, so fuel
`fsize e` is enough.  Holds for every number type. -/
theorem flatten_fuel_bound {α : Type} (e : Exp α) (n : Nat) (h : fsize e ≤ n) :
    (flattenF n e).isSome :=
  flattenF_isSome_of_fsize_le n e h

theorem flatten_fuel_suffices {α : Type} (e : Exp α) : ∃ n, (flattenF n e).isSome :=
  ⟨fsize e, flatten_fuel_bound e _ (Nat.le_refl _)⟩

/-- non-vacuity: `(x + y) * z` is really distributed, with the same value. -/
example : flattenF 10 (.bin .mul (.bin .add (.var "x") (.var "y")) (.var "z") : Exp (Ext K)) =
    some (.bin .add (.bin .mul (.var "x") (.var "z")) (.bin .mul (.var "y") (.var "z"))) := by
  simp [flattenF, flattenF.flattenMulRest, isAddSub]

example (ρ : String → K) :
    eval ρ (.bin .add (.bin .mul (.var "x") (.var "z")) (.bin .mul (.var "y") (.var "z"))) =
      some ((ρ "x" + ρ "y") * ρ "z") := by
  simp [eval, binVal]; ring

/-! ## simplify: value preservation -/

/-- PARTIAL. Simplification preserves the value of every defined expression in which the operands
of and/or nodes are 0/1-valued at the assignment (`LogicOperands01`, the Prop version of
`Oracle.logicOperands01`).  Without the hypothesis the statement is false:
`simplify_counterexample`. -/
theorem simplify_sound_partial (ρ : String → K) (e : Exp (Ext K)) (v : K)
    (h01 : LogicOperands01 ρ e) (hv : eval ρ e = some v) : eval ρ (simplify e) = some v :=
  (simplify_sound_aux ρ e h01 v hv).1

/-- FULL (auxiliary). The hypothesis is itself preserved by simplification of a defined expression,
so `simplify_sound_partial` composes with later rewrites. -/
theorem simplify_preserves_logicOperands01 (ρ : String → K) (e : Exp (Ext K)) (v : K)
    (h01 : LogicOperands01 ρ e) (hv : eval ρ e = some v) : LogicOperands01 ρ (simplify e) :=
  (simplify_sound_aux ρ e h01 v hv).2

/-- FULL. The hypothesis is decidable: the executable predicate `Oracle.logicOperands01`, which the
check uses (at `Rat`, with the import-free arithmetic of `Rooc/Num.lean`) to decide whether a value
violation lies inside or outside the region covered by `simplify_sound_partial`, decides exactly
`LogicOperands01` at `K = ℚ`. -/
theorem logicOperands01_reflects (ρ : String → ℚ) (e : Exp (Ext ℚ)) :
    Oracle.logicOperands01 ρ e = true ↔ LogicOperands01 ρ e :=
  logicOperands01_reflects' ρ e

/-- FULL. The oracle's evaluator (import-free `ExactField Rat`) and the evaluator of the theorems
(Mathlib bridge instance) are the same function. -/
theorem oracle_eval_eq (ρ : String → ℚ) (e : Exp (Ext ℚ)) :
    @eval ℚ instExactFieldRat ρ e = @eval ℚ (fieldExact ℚ) ρ e :=
  eval_inst ρ e

/-- The genuine defect that forces the hypothesis: `x and 1` is rewritten to `x`, so at `x = 2`
the value changes from 1 to 2. -/
theorem simplify_counterexample :
    ∃ (e : Exp (Ext K)) (ρ : String → K),
      eval ρ e = some 1 ∧ eval ρ (simplify e) = some 2 ∧ (1 : K) ≠ 2 ∧ ¬ LogicOperands01 ρ e := by
  refine ⟨.and [.var "x", .num (.fin 1)], fun _ => 2, ?_, ?_, by norm_num, ?_⟩
  · simp [eval, evalList, truthy_eq]
  · simp [simplify, naryCore, naryStep, naryKeep, mayBeUndefined, mayBeUndefinedAny, naryFlatten, naryScan, numTruthy, eval]
  · simp [LogicOperands01, LogicOperands01List, Is01, eval]

/-- the same defect through the binary spelling and for `or`: `x or 0 ↦ x`. -/
theorem simplify_counterexample_or :
    ∃ (e : Exp (Ext K)) (ρ : String → K),
      eval ρ e = some 1 ∧ eval ρ (simplify e) = some 2 := by
  refine ⟨.bin .or (.var "x") (.num (.fin 0)), fun _ => 2, ?_, ?_⟩
  · simp [eval, binVal, truthy_eq]
  · simp [simplify, naryCore, naryStep, naryKeep, mayBeUndefined, mayBeUndefinedAny, naryFlatten, naryScan, numTruthy, eval]

/-! ## simplify: definedness in both directions -/

/-- PARTIAL (strongest true form of "simplify neither creates nor removes definedness"): under
`LogicOperands01 ρ e` and finite literals (`finiteLits`, syntactic), `simplify e` has exactly the
denotation of `e` at ρ — defined iff defined, with the same value.  Both hypotheses are needed:
`simplify_defined_counterexample_forward`, `_converse` (the `x and 1 ↦ x` collapse changes a divisor)
and `simplify_defines_undefined_counterexample` (an infinite literal under `0 * _`).  Holds since
rooc 9f62afd (before, `0 * (x / 0) ↦ 0` created definedness). -/
theorem simplify_eval_eq_partial (ρ : String → K) (e : Exp (Ext K))
    (h01 : LogicOperands01 ρ e) (hfin : finiteLits e = true) :
    eval ρ (simplify e) = eval ρ e :=
  simplify_eval_eq ρ e h01 hfin

theorem simplify_defined_iff_partial (ρ : String → K) (e : Exp (Ext K))
    (h01 : LogicOperands01 ρ e) (hfin : finiteLits e = true) :
    (eval ρ (simplify e)).isSome = (eval ρ e).isSome := by
  rw [simplify_eval_eq ρ e h01 hfin]

/-- PARTIAL. The converse direction alone: simplification creates no definedness. -/
theorem simplify_defined_conv_partial (ρ : String → K) (e : Exp (Ext K)) (v : K)
    (h01 : LogicOperands01 ρ e) (hfin : finiteLits e = true)
    (hv : eval ρ (simplify e) = some v) : eval ρ e = some v := by
  rw [← simplify_eval_eq ρ e h01 hfin]; exact hv

/-- FULL (auxiliary). Finite literals stay finite (exact arithmetic: no overflow), and a term with
finite literals on which the Rust guard `may_be_undefined` answers `false` is defined everywhere. -/
theorem simplify_finiteLits (e : Exp (Ext K)) (h : finiteLits e = true) :
    finiteLits (simplify e) = true := finiteLits_simplify e h
theorem mayBeUndefined_complete (ρ : String → K) (e : Exp (Ext K)) (hfin : finiteLits e = true)
    (h : mayBeUndefined e = false) : (eval ρ e).isSome := Def_of_total ρ e hfin h

/-- Without `LogicOperands01` definedness is lost: `1 / ((x and 1) - 2)` is defined at `x = 2`
(value −1) and is rewritten to `1 / (x - 2)`, undefined at `x = 2`. -/
theorem simplify_defined_counterexample_forward :
    ∃ (e : Exp (Ext K)) (ρ : String → K), finiteLits e = true ∧
      eval ρ e = some (-1) ∧ eval ρ (simplify e) = none := by
  refine ⟨.bin .div (.num (.fin 1)) (.bin .sub (.and [.var "x", .num (.fin 1)]) (.num (.fin 2))),
    fun _ => 2, ?_, ?_, ?_⟩
  · simp [finiteLits, finiteLitsL, isFin]
  · simp [eval, evalList, binVal, truthy_eq]; norm_num
  · simp [simplify, naryCore, naryStep, naryKeep, naryScan, naryFlatten, mayBeUndefined,
      mayBeUndefinedAny, numTruthy, subCore, divCore, isNumEq, eval, binVal]

/-- … and created: `1 / ((x and 1) - 1)` is undefined at `x = 2`, its simplification `1 / (x - 1)`
is defined. -/
theorem simplify_defined_counterexample_converse :
    ∃ (e : Exp (Ext K)) (ρ : String → K), finiteLits e = true ∧
      eval ρ e = none ∧ eval ρ (simplify e) = some 1 := by
  refine ⟨.bin .div (.num (.fin 1)) (.bin .sub (.and [.var "x", .num (.fin 1)]) (.num (.fin 1))),
    fun _ => 2, ?_, ?_, ?_⟩
  · simp [finiteLits, finiteLitsL, isFin]
  · simp [eval, evalList, binVal, truthy_eq]
  · simp [simplify, naryCore, naryStep, naryKeep, naryScan, naryFlatten, mayBeUndefined,
      mayBeUndefinedAny, numTruthy, subCore, divCore, isNumEq, eval, binVal]; norm_num

/-- Without finite literals simplification still creates definedness: `0 * (x + inf)` is undefined
at every assignment (the literal is not a number) and simplifies to `0`. -/
theorem simplify_defines_undefined_counterexample :
    ∃ e : Exp (Ext K), (∀ ρ : String → K, eval ρ e = none) ∧
      (∀ ρ : String → K, eval ρ (simplify e) = some 0) ∧ finiteLits e = false := by
  refine ⟨.bin .mul (.num (.fin 0)) (.bin .add (.var "x") (.num .pinf)), ?_, ?_, ?_⟩
  · intro ρ; simp [eval]
  · intro ρ; simp [simplify, mulCore, addCore, isNumEq, mayBeUndefined, Arith.eq, Ext.eq, eval]
  · simp [finiteLits, isFin]

/-- non-vacuity of `simplify_eval_eq_partial`: the repaired rule keeps `0 * (x / 0)`. -/
example : simplify (.bin .mul (.num (.fin 0)) (.bin .div (.var "x") (.num (.fin 0))) : Exp (Ext K)) =
    .bin .mul (.num (.fin 0)) (.bin .div (.var "x") (.num (.fin 0))) := by
  simp [simplify, mulCore, divCore, isNumEq, mayBeUndefined, isNonzeroLit, Arith.ne]

/-- non-vacuity of `simplify_sound_partial`: the hypothesis holds for an expression with an `and`
node that `simplify` really rewrites. -/
example : ∃ (e : Exp (Ext K)) (ρ : String → K) (v : K),
    LogicOperands01 ρ e ∧ eval ρ e = some v ∧ simplify e ≠ e := by
  refine ⟨.and [.var "x", .num (.fin 1)], fun _ => 1, 1, ?_, ?_, ?_⟩
  · simp [LogicOperands01, LogicOperands01List, Is01, eval]
  · simp [eval, evalList, truthy_eq]
  · simp [simplify, naryCore, naryStep, naryKeep, mayBeUndefined, mayBeUndefinedAny, naryFlatten, naryScan, numTruthy]

/-! ## The full-strength statement (after the repairs 9f62afd / 5a25b35)

`collapsesNonbinary B e` is the port of the harness predicate `collapses_nonbinary` that flags the one
remaining known finding (`C10-nary-singleton-nonbinary`): some and/or node of `e` is rewritten by `simplify`
into a lone operand that is neither a logic expression nor a literal nor a variable marked Boolean by `B`
(`B := fun _ => false` is the domain-independent predicate).  It is decidable and assignment-independent.
Outside that region — and it is the ONLY exclusion for value preservation — `simplify`, `flatten` and the
linearizer's `normalize = simplify ∘ flatten ∘ simplify` preserve the denotation at every assignment. -/

/-- FULL outside the collapse region: a defined expression keeps its value. -/
theorem simplify_sound (B : String → Bool) (ρ : String → K) (hB : BoolVars B ρ) (e : Exp (Ext K)) (v : K)
    (hc : collapsesNonbinary B e = false) (hv : eval ρ e = some v) : eval ρ (simplify e) = some v :=
  simplify_sound_nc ρ hB e hc v hv

/-- FULL outside the collapse region, literals finite: `simplify e` has exactly the denotation of `e`
(defined iff defined, same value) at every assignment. -/
theorem simplify_eval_eq (B : String → Bool) (ρ : String → K) (hB : BoolVars B ρ) (e : Exp (Ext K))
    (hc : collapsesNonbinary B e = false) (hfin : finiteLits e = true) :
    eval ρ (simplify e) = eval ρ e :=
  simplify_eval_eq_nc ρ hB e hc hfin

theorem simplify_defined_iff (B : String → Bool) (ρ : String → K) (hB : BoolVars B ρ) (e : Exp (Ext K))
    (hc : collapsesNonbinary B e = false) (hfin : finiteLits e = true) :
    (eval ρ (simplify e)).isSome = (eval ρ e).isSome := by
  rw [simplify_eval_eq_nc ρ hB e hc hfin]

/-- the domain-independent instance: no assumption on the assignment at all. -/
theorem simplify_eval_eq_anywhere (ρ : String → K) (e : Exp (Ext K))
    (hc : collapsesNonbinary (fun _ => false) e = false) (hfin : finiteLits e = true) :
    eval ρ (simplify e) = eval ρ e :=
  simplify_eval_eq_nc ρ (fun _ h => by cases h) e hc hfin

/-- FULL: the linearizer's `normalize` (`exp.simplify().flatten().simplify()`, `Lin.normalizeExp`). -/
theorem normalize_eval_eq (B : String → Bool) (ρ : String → K) (hB : BoolVars B ρ) (e e' : Exp (Ext K))
    (hn : Lin.normalizeExp e = some e')
    (hc : collapsesNonbinary B e = false) (hfin : finiteLits e = true) : eval ρ e' = eval ρ e :=
  normalize_eval_eq_nc ρ hB e e' hn hc hfin

theorem normalize_sound (B : String → Bool) (ρ : String → K) (hB : BoolVars B ρ) (e e' : Exp (Ext K)) (v : K)
    (hn : Lin.normalizeExp e = some e') (hc : collapsesNonbinary B e = false)
    (hv : eval ρ e = some v) : eval ρ e' = some v :=
  normalize_sound_nc ρ hB e e' v hn hc hv

/-- FULL: after the first two passes nothing can collapse: the second `simplify` of `normalize` is
unconditionally sound. -/
theorem normalize_second_pass_safe (B : String → Bool) (n : Nat) (e e2 : Exp (Ext K))
    (h : flattenF n (simplify e) = some e2) : collapsesNonbinary B e2 = false :=
  noCollapse_flatten_simplify n e e2 h

/-- FULL: `normalize` does not run out of fuel when the fuel covers the polynomial size. -/
theorem normalize_total (e : Exp (Ext K)) (h : fsize (simplify e) ≤ Lin.flattenFuel) :
    (Lin.normalizeExp e).isSome := normalize_isSome e h

/-- The region is not empty and the exclusion is necessary: inside it the value changes
(`x and 1 ↦ x` at `x = 2`; this is the known finding, and `Oracle`'s kind `value-nonbinary-logic-operand`). -/
theorem collapse_region_counterexample :
    ∃ (e : Exp (Ext K)) (ρ : String → K), collapsesNonbinary (fun _ => false) e = true ∧
      finiteLits e = true ∧ eval ρ e = some 1 ∧ eval ρ (simplify e) = some 2 := by
  refine ⟨.and [.var "x", .num (.fin 1)], fun _ => 2, ?_, ?_, ?_, ?_⟩
  · simp [collapsesNonbinary, collapsesAny, logicShaped, simplify, naryCore, naryStep, naryKeep,
      mayBeUndefined, mayBeUndefinedAny, naryFlatten, naryScan, numTruthy]
  · simp [finiteLits, finiteLitsL, isFin]
  · simp [eval, evalList, truthy_eq]
  · simp [simplify, naryCore, naryStep, naryKeep, mayBeUndefined, mayBeUndefinedAny, naryFlatten,
      naryScan, numTruthy, eval]

/-- … and it is exactly the Boolean marking that takes `x and 1` out of the region. -/
example : collapsesNonbinary (fun x => x == "x") (.and [.var "x", .num (.fin 1)] : Exp (Ext K)) = false := by
  simp [collapsesNonbinary, collapsesAny, logicShaped, simplify, naryCore, naryStep, naryKeep,
    mayBeUndefined, mayBeUndefinedAny, naryFlatten, naryScan, numTruthy]

/-- The finiteness hypothesis of `simplify_eval_eq` is needed for the converse direction only, and is the
only other exclusion: `0 * (x + inf)` is outside the collapse region, undefined, and simplifies to `0`. -/
theorem finiteLits_needed_counterexample :
    ∃ e : Exp (Ext K), collapsesNonbinary (fun _ => false) e = false ∧ finiteLits e = false ∧
      (∀ ρ : String → K, eval ρ e = none) ∧ (∀ ρ : String → K, eval ρ (simplify e) = some 0) := by
  refine ⟨.bin .mul (.num (.fin 0)) (.bin .add (.var "x") (.num .pinf)), ?_, ?_, ?_, ?_⟩
  · simp [collapsesNonbinary]
  · simp [finiteLits, isFin]
  · intro ρ; simp [eval]
  · intro ρ; simp [simplify, mulCore, addCore, isNumEq, mayBeUndefined, Arith.eq, Ext.eq, eval]

/-- non-vacuity: `not ((x and y) or z) + (x and y)` has and/or nodes with arbitrary operands in exact and
logical positions, lies outside the region, and `LogicOperands01` fails for it at `x = 2`. -/
example : collapsesNonbinary (fun _ => false)
      (.bin .add (.not (.or [.and [.var "x", .var "y"], .var "z"])) (.and [.var "x", .var "y"])
        : Exp (Ext K)) = false ∧
    ¬ LogicOperands01 (fun _ => (2 : K))
      (.bin .add (.not (.or [.and [.var "x", .var "y"], .var "z"])) (.and [.var "x", .var "y"])) := by
  constructor
  · simp [collapsesNonbinary, collapsesAny, logicShaped, simplify, addCore, notCore, naryCore, naryStep,
      naryKeep, mayBeUndefined, mayBeUndefinedAny, naryFlatten, naryScan, numTruthy]
  · simp [LogicOperands01, LogicOperands01List, Is01, eval]

/-! ## constant spelling

The second half of the property at the level of expressions: the passes that follow (`flatten`, the second
`simplify`, bound inference since c360e70, the lowering) see a constant only through its simplification. -/

/-- FULL: constant folding is complete — a closed expression (no variable) that has the value `k`
simplifies to the literal `k`, whatever operators spell it (`1 + 1`, `4 / 2`, `0 - 2`, `abs{-2}`,
`max{1, 2}`, `not 0`, `2 and 3` …). -/
theorem constant_folding_complete (ρ : String → K) (c : Exp (Ext K)) (k : K)
    (hc : isClosed c = true) (hk : eval ρ c = some k) : simplify c = .num (.fin k) :=
  simplify_closed ρ c hc k hk

/-- FULL: `simplify` is compositional — sub-expressions with the same simplification are interchangeable
in every context (`subst h · t` plugs the hole `h` of `t`). Any number type. -/
theorem simplify_context_congr {α : Type} [Arith α] (h : String) (a b t : Exp α)
    (hab : simplify a = simplify b) : simplify (subst h a t) = simplify (subst h b t) :=
  simplify_subst_congr h hab t

/-- FULL: two spellings of the same constant give IDENTICAL simplified trees in every context … -/
theorem respell_simplify (ρ : String → K) (h : String) (t c1 c2 : Exp (Ext K)) (k : K)
    (h1 : isClosed c1 = true) (h2 : isClosed c2 = true)
    (e1 : eval ρ c1 = some k) (e2 : eval ρ c2 = some k) :
    simplify (subst h c1 t) = simplify (subst h c2 t) :=
  simplify_subst_congr h (by rw [simplify_closed ρ c1 h1 k e1, simplify_closed ρ c2 h2 k e2]) t

/-- … hence identical normalized trees: everything downstream of `normalize` (rows, bounds, acceptance or
rejection) is literally the same for the two spellings. -/
theorem respell_normalize (ρ : String → K) (h : String) (t c1 c2 : Exp (Ext K)) (k : K)
    (h1 : isClosed c1 = true) (h2 : isClosed c2 = true)
    (e1 : eval ρ c1 = some k) (e2 : eval ρ c2 = some k) :
    Lin.normalizeExp (subst h c1 t) = Lin.normalizeExp (subst h c2 t) := by
  unfold Lin.normalizeExp; rw [respell_simplify ρ h t c1 c2 k h1 h2 e1 e2]

/-- non-vacuity: `(0 - 2) * x` and `-2 * x` (the spellings of the repaired finding
`C10-spelling-dependent-rejection`). -/
example (ρ : String → K) :
    Lin.normalizeExp (.bin .mul (.bin .sub (.num (.fin 0)) (.num (.fin 2))) (.var "x") : Exp (Ext K)) =
    Lin.normalizeExp (.bin .mul (.num (.fin (-2))) (.var "x")) := by
  have := respell_normalize ρ "c" (.bin .mul (.var "c") (.var "x"))
    (.bin .sub (.num (.fin 0)) (.num (.fin 2))) (.num (.fin (-2))) (-2)
    (by simp [isClosed]) (by simp [isClosed]) (by simp [eval, binVal]) (by simp [eval])
  simpa [subst] using this

/-- spellings that differ by more than a constant (`x * -2` vs `-2 * x`) are not identical after
`normalize`, only equal in value (`normalize_eval_eq`). -/
example : simplify (.bin .mul (.var "x") (.num (.fin (-2))) : Exp (Ext K)) ≠
    simplify (.bin .mul (.num (.fin (-2))) (.var "x")) := by
  have h : (-2 : K) ≠ 1 := by norm_num
  simp [simplify, mulCore, isNumEq, h]

/-! ## constant spelling at the level of compilation (the glue `normalized_for_bounds`) -/

/-- FULL: `normalized_for_bounds` normalises BOTH sides of EVERY constraint — there is no shortcut for sides
that `Exp::is_leaf` calls a leaf (a bare `abs{}`/`min{}`/`max{}` block is one): it is the all-or-nothing map
of `normConstraint`.  (Seeded change C10-4 added such a shortcut; the correspondence check diffs this model
function against the real pipeline, and the harness compares block-sided twins.) -/
theorem normalizedForBounds_spec {α : Type} [Arith α] (cs : List (Constraint α)) :
    Compile.normalizedForBounds cs = Compile.mapOpt Compile.normConstraint cs :=
  Compile.normalizedForBounds_spec cs

/-- FULL: bound inference cannot tell constraints with equal normal forms apart: the whole bounds stage of
`Compile.linearize` (normalisation, `analyze`, `enforceable`) is the same for twin models. -/
theorem bounds_stage_respell {α : Type} [Arith α] (m m' : Model α) (tol : α) (maxSteps : Nat)
    (hd : m'.domain = m.domain)
    (hc : List.Forall₂ Compile.SameNorm m.constraints m'.constraints) :
    Compile.normalizedForBounds m'.constraints = Compile.normalizedForBounds m.constraints ∧
    (∀ cs, Compile.normalizedForBounds m.constraints = some cs →
      Compile.enforceable (Analyzer.analyze m'.domain cs tol maxSteps) m'.domain =
        Compile.enforceable (Analyzer.analyze m.domain cs tol maxSteps) m.domain) :=
  Compile.bounds_stage_respell m m' tol maxSteps hd hc

/-- The twin of seeded change C10-4: `max{ (1 + 1) * x, y } <= 10` and `max{ 2 * x, y } <= 10` — the side is a
bare block — are handed to bound inference as the same constraint, namely the folded one. -/
theorem block_side_twin_same_bounds_input (ρ : String → K) :
    Compile.normalizedForBounds
      [({ name := "", lhs := .max [.bin .mul (.bin .add (.num (.fin 1)) (.num (.fin 1))) (.var "x"), .var "y"],
          cmp := .le, rhs := .num (.fin 10), isAssert := false } : Constraint (Ext K))] =
    Compile.normalizedForBounds
      [{ name := "", lhs := .max [.bin .mul (.num (.fin 2)) (.var "x"), .var "y"],
         cmp := .le, rhs := .num (.fin 10), isAssert := false }] := by
  apply Compile.normalizedForBounds_congr
  refine List.Forall₂.cons ?_ List.Forall₂.nil
  apply Compile.normConstraint_of_SameNorm
  refine ⟨rfl, rfl, rfl, ?_, by simp⟩
  have := respell_normalize ρ "c" (.max [.bin .mul (.var "c") (.var "x"), .var "y"])
    (.num (.fin 2)) (.bin .add (.num (.fin 1)) (.num (.fin 1))) 2
    (by simp [isClosed]) (by simp [isClosed]) (by simp [eval]) (by simp [eval, binVal]; norm_num)
  simpa [subst, substL] using this

/-- … and that constraint is the folded one (no leaf shortcut): the coefficient reaches the analyzer as the
literal `1 + 1`. -/
example : Compile.normalizedForBounds
      [({ name := "", lhs := .max [.bin .mul (.bin .add (.num (.fin 1)) (.num (.fin 1))) (.var "x"), .var "y"],
          cmp := .le, rhs := .num (.fin 10), isAssert := false } : Constraint (Ext K))] =
    some [{ name := "", lhs := .max [.bin .mul (.num (.fin (1 + 1))) (.var "x"), .var "y"],
            cmp := .le, rhs := .num (.fin 10), isAssert := false }] := by
  have h2 : ((1 : K) + 1 = 0) = False := by simp; norm_num
  have h3 : ((1 : K) + 1 = 1) = False := by simp
  simp [Compile.normalizedForBounds_spec, Compile.mapOpt, Compile.normConstraint, Lin.normalizeExp,
    Lin.flattenFuel, flattenF, flattenF.flattenMulRest, simplify, addCore, mulCore, isNumEq, allNums,
    mayBeUndefined, h2, h3]

/-! ## the model-level respelling theorem (`Compile.linearize`, the whole of `Linearizer::linearize`) -/

/-- FULL. Two models with the same kind of objective and the same declarations, whose objective and constraint
sides have pairwise equal normal forms (`Compile.Twins`: `normalizeExp`-equal; a logic assertion's placeholder
right-hand side equal), and on which the up-front collapse check (rooc 81a4b76 + e35561f) has the same outcome,
compile to the SAME result: `Ok` with the same linear model, or the same error.  These are exactly the two ways
the pipeline reads a source side: the bounds stage and the work-list lowering through `normalizeExp` only
(relational pass `Rooc.LinQ`, adapted from agent-c08proof's calculus), the check through the raw and/or nodes. -/
theorem compile_twins {α : Type} [Arith α] {m m' : Model α} (h : Compile.Twins m m') (tol : α) (maxSteps : Nat)
    (hchk : Compile.checkOutcome m' tol maxSteps = Compile.checkOutcome m tol maxSteps) :
    Compile.linearize m' tol maxSteps = Compile.linearize m tol maxSteps :=
  Compile.linearize_twins h tol maxSteps hchk

/-- FULL. The check reads the raw sides only through the simplifications of their and/or nodes, in post-order
(`Compile.traceModel`): twins with the same trace compile to the same result. -/
theorem compile_twins_trace {α : Type} [Arith α] {m m' : Model α} (h : Compile.Twins m m')
    (ht : Compile.traceModel m' = Compile.traceModel m) (tol : α) (maxSteps : Nat) :
    Compile.linearize m' tol maxSteps = Compile.linearize m tol maxSteps :=
  Compile.linearize_twins_trace h ht tol maxSteps

theorem collapseCheckAll_reads_trace {α : Type} [Arith α] (m : Model α) :
    Lin.collapseCheckAll m = Compile.runTrace (Compile.traceModel m) :=
  Compile.collapseCheckAll_trace m

/-- FULL, the property's quantifier ("re-spelling a constant"): two closed spellings of the same constant `k`
that contain no and/or node, plugged into the same hole of any model — objective, constraint sides, inside
blocks, under logic connectives, as coefficient or as bound — compile to the same result under
`Compile.linearize`: the same linear model bit for bit, or the same rejection. -/
theorem compile_respell_constant (ρ : String → K) (h : String) (c1 c2 : Exp (Ext K)) (k : K)
    (hc1 : isClosed c1 = true) (hc2 : isClosed c2 = true)
    (e1 : eval ρ c1 = some k) (e2 : eval ρ c2 = some k)
    (n1 : Compile.noAndOr c1 = true) (n2 : Compile.noAndOr c2 = true)
    (m : Model (Ext K)) (tol : Ext K) (maxSteps : Nat) :
    Compile.linearize (Compile.substModel h c2 m) tol maxSteps =
      Compile.linearize (Compile.substModel h c1 m) tol maxSteps :=
  Compile.linearize_respell h
    (by rw [simplify_closed ρ c1 hc1 k e1, simplify_closed ρ c2 hc2 k e2]) n1 n2 m tol maxSteps

/-- the same for any number type, with the hypothesis the proof really uses. -/
theorem compile_respell {α : Type} [Arith α] (h : String) (c1 c2 : Exp α)
    (hs : simplify c1 = simplify c2) (n1 : Compile.noAndOr c1 = true) (n2 : Compile.noAndOr c2 = true)
    (m : Model α) (tol : α) (maxSteps : Nat) :
    Compile.linearize (Compile.substModel h c2 m) tol maxSteps =
      Compile.linearize (Compile.substModel h c1 m) tol maxSteps :=
  Compile.linearize_respell h hs n1 n2 m tol maxSteps

/-- non-vacuity: `(1 + 1)` for `2` in `max x s.t. max{ c * x, y } <= 10`. -/
example (ρ : String → K) (tol : Ext K) (n : Nat) (d : List (DomVar (Ext K))) :
    let m : Model (Ext K) :=
      { optType := .max, objective := .var "x",
        constraints := [{ name := "", lhs := .max [.bin .mul (.var "c") (.var "x"), .var "y"], cmp := .le,
                          rhs := .num (.fin 10), isAssert := false }],
        domain := d }
    Compile.linearize (Compile.substModel "c" (.bin .add (.num (.fin 1)) (.num (.fin 1))) m) tol n =
      Compile.linearize (Compile.substModel "c" (.num (.fin 2)) m) tol n := by
  intro m
  exact compile_respell_constant ρ "c" (.num (.fin 2)) (.bin .add (.num (.fin 1)) (.num (.fin 1))) 2
    (by simp [isClosed]) (by simp [isClosed]) (by simp [eval]) (by simp [eval, binVal]; norm_num)
    (by simp [Compile.noAndOr]) (by simp [Compile.noAndOr]) m tol n

/-! ## structural facts about the output (consumed by the linearizer) -/

/-- FULL: `simplify` leaves no `BinOp`-spelled logic node and no `UnOp::Not` — for every input and every
number type; so `Exp::linearize`'s `UnimplementedExpression` arms are dead after `normalize`. -/
theorem simplify_no_bin_logic {α : Type} [Arith α] (e : Exp α) : noBinLogic (simplify e) = true :=
  noBinLogic_simplify e

theorem normalize_no_bin_logic {α : Type} [Arith α] (e e' : Exp α) (hn : Lin.normalizeExp e = some e') :
    noBinLogic e' = true := by
  unfold Lin.normalizeExp at hn
  simp only [Option.map_eq_some_iff] at hn
  obtain ⟨e2, _, rfl⟩ := hn
  exact noBinLogic_simplify e2

/-- FULL: in the output of `simplify` every and/or node is an n-ary node in normal form: at least two
operands, no operand of the same kind (no nesting), no literal unless an operand may be undefined, fixed by
the second loop; `flatten` keeps that. -/
theorem simplify_andor_normal {α : Type} [Arith α] (e : Exp α) : AONF (simplify e) :=
  AONF_of_NF _ (NF_simplify e)

theorem flatten_andor_normal {α : Type} [Arith α] (n : Nat) (e e' : Exp α)
    (h : flattenF n e = some e') (he : AONF e) : AONF e' := AONF_flatten n e e' h he

theorem normalize_andor_normal {α : Type} [Arith α] (e e' : Exp α) (hn : Lin.normalizeExp e = some e') :
    AONF e' ∧ NF e' := by
  unfold Lin.normalizeExp at hn
  simp only [Option.map_eq_some_iff] at hn
  obtain ⟨e2, _, rfl⟩ := hn
  exact ⟨AONF_of_NF _ (NF_simplify e2), NF_simplify e2⟩

/-- FULL: every foldable constant is folded in the output of `simplify` (any input, any number type): no
operator node whose operands are all literals — except a division by the literal zero, kept on purpose —,
no literal-only min/max, and every n-ary and/or node has at least two operands, not all literals. -/
theorem simplify_constants_folded {α : Type} [Arith α] (e : Exp α) : constFolded (simplify e) = true :=
  constFolded_simplify e

theorem normalize_constants_folded {α : Type} [Arith α] (e e' : Exp α)
    (hn : Lin.normalizeExp e = some e') : constFolded e' = true := by
  unfold Lin.normalizeExp at hn
  simp only [Option.map_eq_some_iff] at hn
  obtain ⟨e2, _, rfl⟩ := hn
  exact constFolded_simplify e2

/-- FULL: `flatten` creates no literal. -/
theorem flatten_finiteLits (n : Nat) (e e' : Exp (Ext K)) (h : flattenF n e = some e')
    (he : finiteLits e = true) : finiteLits e' = true := finiteLits_flattenF n e e' h he

/-! ## simplify: what holds in logical positions (truth values) -/

/-- PARTIAL, strictly stronger than `simplify_sound_partial`: only the and/or nodes standing in an
*exact* position (root, operand of + - * / abs min max neg) need 0/1-valued operands; and/or nodes
below not/xor/implies/iff/and/or are unconstrained (`ExactOK`, see `ExpLemmasTruth`). -/
theorem simplify_sound_exact_partial (ρ : String → K) (e : Exp (Ext K)) (v : K)
    (h : ExactOK ρ e) (hv : eval ρ e = some v) : eval ρ (simplify e) = some v :=
  ((simplify_two_sorted ρ e).1 h v hv).1

/-- `LogicOperands01` implies `ExactOK`. -/
theorem exactOK_of_logicOperands01 (ρ : String → K) (e : Exp (Ext K))
    (h : LogicOperands01 ρ e) : ExactOK ρ e := ExactOK_of_LogicOperands01 ρ e h

/-- PARTIAL. Read as a formula, an expression keeps its truth value (and its definedness) under
`simplify` whenever the and/or nodes that stand in exact positions strictly below it have 0/1
operands (`TruthOK`); and/or nodes at the root and below logical connectives are unconstrained. -/
theorem simplify_preserves_truthiness_partial (ρ : String → K) (e : Exp (Ext K)) (v : K)
    (h : TruthOK ρ e) (hv : eval ρ e = some v) :
    ∃ w, eval ρ (simplify e) = some w ∧ truthy w = truthy v := by
  obtain ⟨w, h1, h2, _⟩ := (simplify_two_sorted ρ e).2 h v hv
  exact ⟨w, h1, h2⟩

/-- FULL for the decidable, assignment-independent class `truthShape` (no and/or node in an exact
position strictly below the root — e.g. every pure propositional formula over arithmetic atoms):
at EVERY assignment the truth value is preserved, with no hypothesis on the values. -/
theorem simplify_preserves_truthiness_shape (e : Exp (Ext K)) (hs : truthShape e = true)
    (ρ : String → K) (v : K) (hv : eval ρ e = some v) :
    ∃ w, eval ρ (simplify e) = some w ∧ truthy w = truthy v :=
  simplify_preserves_truthiness_partial ρ e v ((OK_of_shape ρ e).2 hs) hv

/-- FULL for the decidable class `exactShape` (no and/or node in an exact position at all): the
value is preserved at every assignment. -/
theorem simplify_sound_shape (e : Exp (Ext K)) (hs : exactShape e = true)
    (ρ : String → K) (v : K) (hv : eval ρ e = some v) : eval ρ (simplify e) = some v :=
  simplify_sound_exact_partial ρ e v ((OK_of_shape ρ e).1 hs) hv

/-- Outside these classes even the truth value changes: `(x and 1) + 1` is rewritten to `x + 1`;
at `x = -1` the value goes from 2 (true) to 0 (false). -/
theorem simplify_truthiness_counterexample :
    ∃ (e : Exp (Ext K)) (ρ : String → K),
      eval ρ e = some 2 ∧ eval ρ (simplify e) = some 0 ∧
        truthy (2 : K) = true ∧ truthy (0 : K) = false ∧ truthShape e = false := by
  refine ⟨.bin .add (.and [.var "x", .num (.fin 1)]) (.num (.fin 1)), fun _ => -1, ?_, ?_, ?_, ?_, ?_⟩
  · simp [eval, evalList, binVal, truthy_eq]; norm_num
  · simp [simplify, naryCore, naryStep, naryKeep, mayBeUndefined, mayBeUndefinedAny, naryFlatten, naryScan, numTruthy, addCore, eval, binVal]
  · simp [truthy_eq]
  · simp [truthy_eq]
  · simp [truthShape, exactShape, isXorLike, isAndOr]

/-- non-vacuity: `not ((x and 1) or y)` has non-0/1 and/or operands (so `LogicOperands01` fails at
x = 2) but is in both classes. -/
example : exactShape (.not (.or [.and [.var "x", .num (.fin 1)], .var "y"]) : Exp (Ext K)) = true ∧
    ¬ LogicOperands01 (fun _ => (2 : K)) (.not (.or [.and [.var "x", .num (.fin 1)], .var "y"])) := by
  constructor
  · simp [exactShape, truthShape, truthShapeList]
  · simp [LogicOperands01, LogicOperands01List, Is01, eval]

/-! ## simplify: idempotence -/

/-- FULL. `simplify` is idempotent — for every number type (so also at `Float`, NaN and `-0.0`
included: the argument is purely structural).  This is what justifies the model applying the
node-level step where the Rust re-enters `simplify` on freshly simplified children. -/
theorem simplify_idem_any {α : Type} [Arith α] (e : Exp α) : simplify (simplify e) = simplify e :=
  simplify_simplify e

theorem simplify_idem (e : Exp (Ext K)) : simplify (simplify e) = simplify e :=
  simplify_simplify e

/-- FULL. The output of `simplify` is in the normal form `NF` (children in normal form, no literal
/ same-kind child / short n-ary node, no rule applicable), and normal forms are fixed points. -/
theorem simplify_normal_form {α : Type} [Arith α] (e : Exp α) : NF (simplify e) := NF_simplify e
theorem simplify_fixes_normal_form {α : Type} [Arith α] (e : Exp α) (h : NF e) : simplify e = e :=
  simplify_of_NF e h

/-- FULL. The shortcut of the model, stated literally: what the Rust computes for a binary
and/or/xor/implies/iff (`Exp::And(vec![lhs.simplify(), rhs.simplify()]).simplify()` …) is what the
model computes. -/
theorem simplify_reenter_and {α : Type} [Arith α] (l r : Exp α) :
    simplify (.and [simplify l, simplify r]) = simplify (.bin .and l r) := by
  rw [simplify_and, simplify_bin]; simp [binCore, simplify_simplify]
theorem simplify_reenter_or {α : Type} [Arith α] (l r : Exp α) :
    simplify (.or [simplify l, simplify r]) = simplify (.bin .or l r) := by
  rw [simplify_or, simplify_bin]; simp [binCore, simplify_simplify]
theorem simplify_reenter_xor {α : Type} [Arith α] (l r : Exp α) :
    simplify (.xor (simplify l) (simplify r)) = simplify (.bin .xor l r) := by
  rw [simplify_xor, simplify_bin]; simp [binCore, simplify_simplify]
theorem simplify_reenter_implies {α : Type} [Arith α] (l r : Exp α) :
    simplify (.implies (simplify l) (simplify r)) = simplify (.bin .implies l r) := by
  rw [simplify_implies, simplify_bin]; simp [binCore, simplify_simplify]
theorem simplify_reenter_iff {α : Type} [Arith α] (l r : Exp α) :
    simplify (.iff (simplify l) (simplify r)) = simplify (.bin .iff l r) := by
  rw [simplify_iff, simplify_bin]; simp [binCore, simplify_simplify]

/-- non-vacuity: a term that is not a fixed point, so idempotence says something. -/
example : simplify (.bin .add (.var "x") (.num (.fin 0)) : Exp (Ext K)) = .var "x" := by
  simp [simplify, addCore]
example : NF (.and [.var "x", .var "y"] : Exp (Ext K)) := by
  simp [NF, NFList, isNum, isSameKind, isAndNode, naryStep, naryScan, mayBeUndefined, mayBeUndefinedAny]

/-! ## simplify: divisions -/

/-- FULL (since rooc 9f62afd). A division by the literal zero is never rewritten away: if `e`
contains one — anywhere — so does `simplify e`. -/
theorem div_preserved (e : Exp (Ext K)) (h : HasDivBy zeroDivisor e) :
    HasDivBy zeroDivisor (simplify e) := by
  refine HasDivBy_simplify (p := zeroDivisor) ?_ ?_ e (DivS_of_HasDivBy_zero e h)
  · intro v hv; rw [arith_eq_zero_iff] at hv; subst hv; simp
  · intro r hr; cases r <;> simp_all [zeroDivisor, badDivisor]

/-- FULL. More generally every division whose divisor simplifies to the literal zero survives
(`x / (1 - 1)`). -/
theorem div_preserved_simplified (e : Exp (Ext K)) (h : DivS zeroDivisor e) :
    HasDivBy zeroDivisor (simplify e) := by
  refine HasDivBy_simplify (p := zeroDivisor) ?_ ?_ e h
  · intro v hv; rw [arith_eq_zero_iff] at hv; subst hv; simp
  · intro r hr; cases r <;> simp_all [zeroDivisor, badDivisor]

/-- FULL. "A division by zero or by a non-constant is never rewritten away": if `e` contains a
division whose divisor does not simplify to a non-zero literal (`DivS badDivisor`), then `simplify e`
contains a division whose divisor is not a non-zero literal. -/
theorem div_preserved_nonconstant (e : Exp (Ext K)) (h : DivS badDivisor e) :
    HasDivBy badDivisor (simplify e) := by
  refine HasDivBy_simplify (p := badDivisor) ?_ (fun _ h => h) e h
  intro v hv; rw [arith_eq_zero_iff] at hv; subst hv; simp

/-- The former defect is gone in the model of the repaired code: `0 * (x / 0)`, `0 and (1 / x)`,
`1 or (x / 0)` keep their division. -/
theorem div_kept_under_absorbing :
    HasDivBy zeroDivisor (simplify (.bin .mul (.num (.fin 0)) (.bin .div (.var "x") (.num (.fin 0)))
      : Exp (Ext K))) ∧
    HasDivBy badDivisor (simplify (.bin .and (.num (.fin 0)) (.bin .div (.num (.fin 1)) (.var "x"))
      : Exp (Ext K))) ∧
    HasDivBy zeroDivisor (simplify (.or [.num (.fin 1), .bin .div (.var "x") (.num (.fin 0))]
      : Exp (Ext K))) :=
  ⟨div_preserved _ (by simp [HasDivBy, zeroDivisor]),
   div_preserved_nonconstant _ (by simp [DivS, simplify, badDivisor]),
   div_preserved _ (by simp [HasDivBy, HasDivByList, zeroDivisor])⟩

/-- the hypothesis of `div_preserved_nonconstant` cannot be weakened to "the divisor is not a
literal": a constant divisor is (rightly) folded, `x / (1 + 1) ↦ x / 2`. -/
example : simplify (.bin .div (.var "x") (.bin .add (.num (.fin 1)) (.num (.fin 1))) : Exp (Ext K)) =
    .bin .div (.var "x") (.num (.fin (1 + 1))) := by
  simp [simplify, addCore, divCore, isNumEq]

/-- non-vacuity: `2 * (x / (1 - 1)) + 0` has a division whose divisor only becomes the literal zero
after folding, and it survives. -/
example : DivS zeroDivisor
    (.bin .add (.bin .mul (.num (.fin 2)) (.bin .div (.var "x")
      (.bin .sub (.num (.fin 1)) (.num (.fin 1))))) (.num (.fin 0)) : Exp (Ext K)) := by
  simp [DivS, simplify, subCore, zeroDivisor]

end Rooc.Props.C10
