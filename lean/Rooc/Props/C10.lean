/-
C10 — Algebraic rewrites preserve meaning.  PROPERTY THEOREMS ONLY (helper lemmas live in
`Rooc/Proofs/ExpLemmas*.lean`).  `K` is any linearly ordered field (so in particular ℝ and ℚ);
expressions carry literals in `Ext K` (IEEE special values, exact arithmetic, no signed zero);
`Sem.eval ρ e = some v` means "defined at the assignment ρ with value v" (`none` = a division by
zero, a non-finite literal or an empty min/max somewhere in the tree — `eval` does not short-circuit).

The model functions `Exp.simplify` / `Exp.flattenF` are the ones the correspondence check diffs
against the Rust `Exp::simplify` / `Exp::flatten`.
-/
import Rooc.Sem
import Rooc.Proofs.Field
import Rooc.Proofs.ExpLemmas
import Rooc.Proofs.ExpLemmasFlatten
import Rooc.Proofs.ExpLemmasNF
import Rooc.Proofs.ExpLemmasSound
import Rooc.Proofs.ExpLemmasDiv
import Rooc.Proofs.ExpLemmasTruth
import Rooc.Proofs.ExpLemmasReflect
namespace Rooc.Props.C10
open Rooc Rooc.Exp Rooc.Sem

variable {K : Type} [Field K] [LinearOrder K] [IsStrictOrderedRing K] [FloorRing K]

/-- A literal is its own simplification. -/
theorem simplify_num (x : Ext K) : simplify (.num x : Exp (Ext K)) = .num x := by
  simp [simplify]

/-! ## flatten -/

/-- FULL. `flatten` preserves the denotation exactly, whatever fuel the model was given: same
definedness and same value at every assignment. -/
theorem flatten_eval_eq (n : Nat) (ρ : String → K) (e e' : Exp (Ext K))
    (h : flattenF n e = some e') : eval ρ e' = eval ρ e :=
  flattenF_eval ρ n e e' h

/-- FULL. Flattening never changes the value of a defined expression. -/
theorem flatten_sound (n : Nat) (ρ : String → K) (e e' : Exp (Ext K)) (v : K)
    (h : flattenF n e = some e') (hv : eval ρ e = some v) : eval ρ e' = some v := by
  rw [flatten_eval_eq n ρ e e' h]; exact hv

/-- FULL. Converse: flattening never turns an undefined expression into a defined one (it neither
creates nor removes a division by zero). -/
theorem flatten_sound_conv (n : Nat) (ρ : String → K) (e e' : Exp (Ext K)) (v : K)
    (h : flattenF n e = some e') (hv : eval ρ e' = some v) : eval ρ e = some v := by
  rw [← flatten_eval_eq n ρ e e' h]; exact hv

/-- FULL. The Rust recursion (which re-enters on a larger term after distributing) terminates:
the polynomial interpretation `fsize` strictly decreases along every recursive call, so fuel
`fsize e` is enough.  Holds for every number type. -/
theorem flatten_fuel_bound {α : Type} (e : Exp α) (n : Nat) (h : fsize e ≤ n) :
    (flattenF n e).isSome :=
  flattenF_isSome_of_fsize_le n e h

theorem flatten_fuel_suffices {α : Type} (e : Exp α) : ∃ n, (flattenF n e).isSome :=
  ⟨fsize e, flatten_fuel_bound e _ (Nat.le_refl _)⟩

/-- non-vacuity: `(x + y) * z` is really distributed, with the same value. -/
example : flattenF 10 (.bin .mul (.bin .add (.var "x") (.var "y")) (.var "z") : Exp (Ext K)) =
    some (.bin .add (.bin .mul (.var "x") (.var "z")) (.bin .mul (.var "y") (.var "z"))) := by
  simp [flattenF, flattenF.flattenMulRest, isAddSub]

example (ρ : String → K) :
    eval ρ (.bin .add (.bin .mul (.var "x") (.var "z")) (.bin .mul (.var "y") (.var "z"))) =
      some ((ρ "x" + ρ "y") * ρ "z") := by
  simp [eval, binVal]; ring

/-! ## simplify: value preservation -/

/-- PARTIAL. Simplification preserves the value of every defined expression in which the operands
of and/or nodes are 0/1-valued at the assignment (`LogicOperands01`, the Prop version of
`Oracle.logicOperands01`).  Without the hypothesis the statement is false:
`simplify_counterexample`. -/
theorem simplify_sound_partial (ρ : String → K) (e : Exp (Ext K)) (v : K)
    (h01 : LogicOperands01 ρ e) (hv : eval ρ e = some v) : eval ρ (simplify e) = some v :=
  (simplify_sound_aux ρ e h01 v hv).1

/-- FULL (auxiliary). The hypothesis is itself preserved by simplification of a defined expression,
so `simplify_sound_partial` composes with later rewrites. -/
theorem simplify_preserves_logicOperands01 (ρ : String → K) (e : Exp (Ext K)) (v : K)
    (h01 : LogicOperands01 ρ e) (hv : eval ρ e = some v) : LogicOperands01 ρ (simplify e) :=
  (simplify_sound_aux ρ e h01 v hv).2

/-- FULL. The hypothesis is decidable: the executable predicate `Oracle.logicOperands01`, which the
check uses (at `Rat`, with the import-free arithmetic of `Rooc/Num.lean`) to decide whether a value
violation lies inside or outside the region covered by `simplify_sound_partial`, decides exactly
`LogicOperands01` at `K = ℚ`. -/
theorem logicOperands01_reflects (ρ : String → ℚ) (e : Exp (Ext ℚ)) :
    Oracle.logicOperands01 ρ e = true ↔ LogicOperands01 ρ e :=
  logicOperands01_reflects' ρ e

/-- FULL. The oracle's evaluator (import-free `ExactField Rat`) and the evaluator of the theorems
(Mathlib bridge instance) are the same function. -/
theorem oracle_eval_eq (ρ : String → ℚ) (e : Exp (Ext ℚ)) :
    @eval ℚ instExactFieldRat ρ e = @eval ℚ (fieldExact ℚ) ρ e :=
  eval_inst ρ e

/-- The genuine defect that forces the hypothesis: `x and 1` is rewritten to `x`, so at `x = 2`
the value changes from 1 to 2. -/
theorem simplify_counterexample :
    ∃ (e : Exp (Ext K)) (ρ : String → K),
      eval ρ e = some 1 ∧ eval ρ (simplify e) = some 2 ∧ (1 : K) ≠ 2 ∧ ¬ LogicOperands01 ρ e := by
  refine ⟨.and [.var "x", .num (.fin 1)], fun _ => 2, ?_, ?_, by norm_num, ?_⟩
  · simp [eval, evalList, truthy_eq]
  · simp [simplify, naryCore, naryFlatten, naryScan, numTruthy, eval]
  · simp [LogicOperands01, LogicOperands01List, Is01, eval]

/-- the same defect through the binary spelling and for `or`: `x or 0 ↦ x`. -/
theorem simplify_counterexample_or :
    ∃ (e : Exp (Ext K)) (ρ : String → K),
      eval ρ e = some 1 ∧ eval ρ (simplify e) = some 2 := by
  refine ⟨.bin .or (.var "x") (.num (.fin 0)), fun _ => 2, ?_, ?_⟩
  · simp [eval, binVal, truthy_eq]
  · simp [simplify, naryCore, naryFlatten, naryScan, numTruthy, eval]

/-- The converse of value preservation is false as well: simplification can turn an expression
that is undefined at every assignment into a defined one (`0 * (x / 0) ↦ 0`). -/
theorem simplify_defines_undefined_counterexample :
    ∃ e : Exp (Ext K), (∀ ρ : String → K, eval ρ e = none) ∧
      ∀ ρ : String → K, eval ρ (simplify e) = some 0 := by
  refine ⟨.bin .mul (.num (.fin 0)) (.bin .div (.var "x") (.num (.fin 0))), ?_, ?_⟩
  · intro ρ; simp [eval, binVal]
  · intro ρ; simp [simplify, mulCore, divCore, isNumEq, eval]

/-- non-vacuity of `simplify_sound_partial`: the hypothesis holds for an expression with an `and`
node that `simplify` really rewrites. -/
example : ∃ (e : Exp (Ext K)) (ρ : String → K) (v : K),
    LogicOperands01 ρ e ∧ eval ρ e = some v ∧ simplify e ≠ e := by
  refine ⟨.and [.var "x", .num (.fin 1)], fun _ => 1, 1, ?_, ?_, ?_⟩
  · simp [LogicOperands01, LogicOperands01List, Is01, eval]
  · simp [eval, evalList, truthy_eq]
  · simp [simplify, naryCore, naryFlatten, naryScan, numTruthy]

/-! ## simplify: what holds in logical positions (truth values) -/

/-- PARTIAL, strictly stronger than `simplify_sound_partial`: only the and/or nodes standing in an
*exact* position (root, operand of + - * / abs min max neg) need 0/1-valued operands; and/or nodes
below not/xor/implies/iff/and/or are unconstrained (`ExactOK`, see `ExpLemmasTruth`). -/
theorem simplify_sound_exact_partial (ρ : String → K) (e : Exp (Ext K)) (v : K)
    (h : ExactOK ρ e) (hv : eval ρ e = some v) : eval ρ (simplify e) = some v :=
  ((simplify_two_sorted ρ e).1 h v hv).1

/-- `LogicOperands01` implies `ExactOK`. -/
theorem exactOK_of_logicOperands01 (ρ : String → K) (e : Exp (Ext K))
    (h : LogicOperands01 ρ e) : ExactOK ρ e := ExactOK_of_LogicOperands01 ρ e h

/-- PARTIAL. Read as a formula, an expression keeps its truth value (and its definedness) under
`simplify` whenever the and/or nodes that stand in exact positions strictly below it have 0/1
operands (`TruthOK`); and/or nodes at the root and below logical connectives are unconstrained. -/
theorem simplify_preserves_truthiness_partial (ρ : String → K) (e : Exp (Ext K)) (v : K)
    (h : TruthOK ρ e) (hv : eval ρ e = some v) :
    ∃ w, eval ρ (simplify e) = some w ∧ truthy w = truthy v := by
  obtain ⟨w, h1, h2, _⟩ := (simplify_two_sorted ρ e).2 h v hv
  exact ⟨w, h1, h2⟩

/-- FULL for the decidable, assignment-independent class `truthShape` (no and/or node in an exact
position strictly below the root — e.g. every pure propositional formula over arithmetic atoms):
at EVERY assignment the truth value is preserved, with no hypothesis on the values. -/
theorem simplify_preserves_truthiness_shape (e : Exp (Ext K)) (hs : truthShape e = true)
    (ρ : String → K) (v : K) (hv : eval ρ e = some v) :
    ∃ w, eval ρ (simplify e) = some w ∧ truthy w = truthy v :=
  simplify_preserves_truthiness_partial ρ e v ((OK_of_shape ρ e).2 hs) hv

/-- FULL for the decidable class `exactShape` (no and/or node in an exact position at all): the
value is preserved at every assignment. -/
theorem simplify_sound_shape (e : Exp (Ext K)) (hs : exactShape e = true)
    (ρ : String → K) (v : K) (hv : eval ρ e = some v) : eval ρ (simplify e) = some v :=
  simplify_sound_exact_partial ρ e v ((OK_of_shape ρ e).1 hs) hv

/-- Outside these classes even the truth value changes: `(x and 1) + 1` is rewritten to `x + 1`;
at `x = -1` the value goes from 2 (true) to 0 (false). -/
theorem simplify_truthiness_counterexample :
    ∃ (e : Exp (Ext K)) (ρ : String → K),
      eval ρ e = some 2 ∧ eval ρ (simplify e) = some 0 ∧
        truthy (2 : K) = true ∧ truthy (0 : K) = false ∧ truthShape e = false := by
  refine ⟨.bin .add (.and [.var "x", .num (.fin 1)]) (.num (.fin 1)), fun _ => -1, ?_, ?_, ?_, ?_, ?_⟩
  · simp [eval, evalList, binVal, truthy_eq]; norm_num
  · simp [simplify, naryCore, naryFlatten, naryScan, numTruthy, addCore, eval, binVal]
  · simp [truthy_eq]
  · simp [truthy_eq]
  · simp [truthShape, exactShape, isXorLike, isAndOr]

/-- non-vacuity: `not ((x and 1) or y)` has non-0/1 and/or operands (so `LogicOperands01` fails at
x = 2) but is in both classes. -/
example : exactShape (.not (.or [.and [.var "x", .num (.fin 1)], .var "y"]) : Exp (Ext K)) = true ∧
    ¬ LogicOperands01 (fun _ => (2 : K)) (.not (.or [.and [.var "x", .num (.fin 1)], .var "y"])) := by
  constructor
  · simp [exactShape, truthShape, truthShapeList]
  · simp [LogicOperands01, LogicOperands01List, Is01, eval]

/-! ## simplify: idempotence -/

/-- FULL. `simplify` is idempotent — for every number type (so also at `Float`, NaN and `-0.0`
included: the argument is purely structural).  This is what justifies the model applying the
node-level step where the Rust re-enters `simplify` on freshly simplified children. -/
theorem simplify_idem_any {α : Type} [Arith α] (e : Exp α) : simplify (simplify e) = simplify e :=
  simplify_simplify e

theorem simplify_idem (e : Exp (Ext K)) : simplify (simplify e) = simplify e :=
  simplify_simplify e

/-- FULL. The output of `simplify` is in the normal form `NF` (children in normal form, no literal
/ same-kind child / short n-ary node, no rule applicable), and normal forms are fixed points. -/
theorem simplify_normal_form {α : Type} [Arith α] (e : Exp α) : NF (simplify e) := NF_simplify e
theorem simplify_fixes_normal_form {α : Type} [Arith α] (e : Exp α) (h : NF e) : simplify e = e :=
  simplify_of_NF e h

/-- FULL. The shortcut of the model, stated literally: what the Rust computes for a binary
and/or/xor/implies/iff (`Exp::And(vec![lhs.simplify(), rhs.simplify()]).simplify()` …) is what the
model computes. -/
theorem simplify_reenter_and {α : Type} [Arith α] (l r : Exp α) :
    simplify (.and [simplify l, simplify r]) = simplify (.bin .and l r) := by
  rw [simplify_and, simplify_bin]; simp [binCore, simplify_simplify]
theorem simplify_reenter_or {α : Type} [Arith α] (l r : Exp α) :
    simplify (.or [simplify l, simplify r]) = simplify (.bin .or l r) := by
  rw [simplify_or, simplify_bin]; simp [binCore, simplify_simplify]
theorem simplify_reenter_xor {α : Type} [Arith α] (l r : Exp α) :
    simplify (.xor (simplify l) (simplify r)) = simplify (.bin .xor l r) := by
  rw [simplify_xor, simplify_bin]; simp [binCore, simplify_simplify]
theorem simplify_reenter_implies {α : Type} [Arith α] (l r : Exp α) :
    simplify (.implies (simplify l) (simplify r)) = simplify (.bin .implies l r) := by
  rw [simplify_implies, simplify_bin]; simp [binCore, simplify_simplify]
theorem simplify_reenter_iff {α : Type} [Arith α] (l r : Exp α) :
    simplify (.iff (simplify l) (simplify r)) = simplify (.bin .iff l r) := by
  rw [simplify_iff, simplify_bin]; simp [binCore, simplify_simplify]

/-- non-vacuity: a term that is not a fixed point, so idempotence says something. -/
example : simplify (.bin .add (.var "x") (.num (.fin 0)) : Exp (Ext K)) = .var "x" := by
  simp [simplify, addCore]
example : NF (.and [.var "x", .var "y"] : Exp (Ext K)) := by
  simp [NF, NFList, isNum, isSameKind, isAndNode]

/-! ## simplify: divisions -/

/-- PARTIAL. "A division by zero is never rewritten away" holds for *protected* divisions: if `e`
contains a division whose divisor simplifies to the literal zero, and no operand of a `*`, `and`,
`or` node on the path from the root simplifies to that node's absorbing constant (`ProtDiv`), then
`simplify e` still contains a division by the literal zero.  Unprotected divisions are erased:
`div_erased_counterexample`. -/
theorem div_preserved_partial (e : Exp (Ext K)) (h : ProtDiv zeroDivisor e) :
    HasDivBy zeroDivisor (simplify e) := by
  refine HasDivBy_simplify (p := zeroDivisor) ?_ ?_ e h
  · intro v hv; rw [arith_eq_zero_iff] at hv; subst hv; simp
  · intro r hr; cases r <;> simp_all [zeroDivisor, badDivisor]

/-- PARTIAL. The same for "a division by zero or by a non-constant": a protected division whose
divisor does not simplify to a non-zero literal leaves a division with such a divisor. -/
theorem div_preserved_nonconstant_partial (e : Exp (Ext K)) (h : ProtDiv badDivisor e) :
    HasDivBy badDivisor (simplify e) := by
  refine HasDivBy_simplify (p := badDivisor) ?_ (fun _ h => h) e h
  intro v hv; rw [arith_eq_zero_iff] at hv; subst hv; simp

/-- The defect: `0 * (x / 0)`, `0 and (1 / x)`, `1 or (x / 0)` all contain a bad division and
simplify to a literal. -/
theorem div_erased_counterexample :
    ∃ e : Exp (Ext K), HasDivBy zeroDivisor e ∧ ¬ HasDivBy zeroDivisor (simplify e) ∧
      ¬ ProtDiv zeroDivisor e := by
  refine ⟨.bin .mul (.num (.fin 0)) (.bin .div (.var "x") (.num (.fin 0))), ?_, ?_, ?_⟩
  · simp [HasDivBy, zeroDivisor]
  · simp [simplify, mulCore, divCore, isNumEq, HasDivBy]
  · simp [ProtDiv, simplify, isNumEq]

theorem div_erased_counterexample_and :
    ∃ e : Exp (Ext K), HasDivBy badDivisor e ∧ ¬ HasDivBy badDivisor (simplify e) ∧
      ¬ ProtDiv badDivisor e := by
  refine ⟨.bin .and (.num (.fin 0)) (.bin .div (.num (.fin 1)) (.var "x")), ?_, ?_, ?_⟩
  · simp [HasDivBy, badDivisor]
  · simp [simplify, naryCore, naryFlatten, naryScan, numTruthy, divCore, isNumEq, HasDivBy]
  · simp [ProtDiv, simplify, isLit, absorbing, numTruthy]

theorem div_erased_counterexample_or :
    ∃ e : Exp (Ext K), HasDivBy zeroDivisor e ∧ ¬ HasDivBy zeroDivisor (simplify e) ∧
      ¬ ProtDiv zeroDivisor e := by
  refine ⟨.or [.num (.fin 1), .bin .div (.var "x") (.num (.fin 0))], ?_, ?_, ?_⟩
  · simp [HasDivBy, HasDivByList, zeroDivisor]
  · simp [simplify, naryCore, naryFlatten, naryScan, numTruthy, divCore, isNumEq, HasDivBy]
  · simp [ProtDiv, simplify, isLit, absorbing, numTruthy]

/-- non-vacuity of `div_preserved_partial`: `2 * (x / (1 - 1)) + 0` has a protected division whose
divisor only becomes the literal zero after folding, and it survives. -/
example : ProtDiv zeroDivisor
    (.bin .add (.bin .mul (.num (.fin 2)) (.bin .div (.var "x")
      (.bin .sub (.num (.fin 1)) (.num (.fin 1))))) (.num (.fin 0)) : Exp (Ext K)) := by
  simp [ProtDiv, simplify, subCore, divCore, isNumEq, zeroDivisor]

end Rooc.Props.C10
