/-
C10 — Algebraic rewrites preserve meaning.  PROPERTY THEOREMS ONLY (helper lemmas live in
`Rooc/Proofs`).  `K` is any linearly ordered field (so in particular ℝ); expressions carry literals
in `Ext K` (IEEE special values, exact arithmetic); `Sem.eval ρ e = some v` means "defined with value v".
-/
import Rooc.Sem
import Rooc.Proofs.Field
namespace Rooc.Props.C10
open Rooc Rooc.Exp Rooc.Sem

variable {K : Type} [Field K] [LinearOrder K] [IsStrictOrderedRing K] [FloorRing K]

/-- A literal is its own simplification (base case; the full statements follow). -/
theorem simplify_num (x : Ext K) : simplify (.num x : Exp (Ext K)) = .num x := by
  simp [simplify]

end Rooc.Props.C10
