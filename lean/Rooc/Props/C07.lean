/- C07 — property theorems only (helper lemmas live in `Rooc/Proofs`). -/
namespace Rooc.Props.C07
end Rooc.Props.C07
