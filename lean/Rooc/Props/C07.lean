/-
C07 — Derived variable ranges are sound.  PROPERTY THEOREMS ONLY (helper lemmas live in `Rooc/Proofs/Bounds*`).

`K` is any linearly ordered field (in particular ℝ).  Ranges carry endpoints in `Ext K`
(`nan | ninf | fin k | pinf`: IEEE special values, exact arithmetic).  The statements are about the very
definitions of `Rooc/Bounds.lean` that run at `Float` in the correspondence check.
Vocabulary (`Rooc/BoundsSem.lean`): `Mem x b` (x lies in the range, false for a NaN endpoint),
`InBox ρ vb` (every variable lies in its range), `InDomain`, `Holds ρ c`, `SrcFeasible`.
`Sem.eval ρ e = some v` means "e is defined at ρ with value v"; an expression that contains a non-finite
literal or divides by zero has no value, so the hypothesis `FiniteLits` of DESIGN.md §6 is implied by
definedness and does not appear separately (see `infinite_coefficient_range_contains_nothing` for what
happens without it).

Not covered by these theorems (trusted base §5.4): IEEE rounding.  The implementation rounds to nearest,
not outwards; the exact oracle measures the resulting escape on every run.
-/
import Rooc.BoundsSem
import Rooc.Proofs.BoundsNoNaN
import Rooc.Compile
namespace Rooc.Props.C07
open Rooc Rooc.BoundsSem Rooc.BoundsProofs Rooc.Sem

variable {K : Type} [Field K] [LinearOrder K] [IsStrictOrderedRing K] [FloorRing K]

/-! ### forward enclosure -/

/-- `bounds_of(e)` contains the value of `e` at every assignment inside the variable ranges — every
expression constructor, every box (infinite and NaN endpoints included: a NaN range has no inside). -/
theorem boundsOf_encloses (vb : List (String × Bounds (Ext K))) (ρ : String → K) (e : Exp (Ext K)) (v : K)
    (hbox : InBox ρ vb) (hv : eval ρ e = some v) : Mem v (Analyzer.boundsOf vb e) :=
  boundsOf_mem vb ρ hbox e v hv

example : ∃ (vb : List (String × Bounds (Ext K))) (ρ : String → K) (e : Exp (Ext K)) (v : K),
    InBox ρ vb ∧ eval ρ e = some v :=
  ⟨[("x", ⟨.fin 0, .pinf⟩)], fun _ => 1, .abs (.bin .sub (.var "x") (.num (.fin 3))), 2, by
    intro n
    by_cases h : "x" = n <;> simp [Analyzer.varBounds, AList.get?, h, mem_iff, Bounds.unbounded], by
    simp [eval, binVal, kabs_eq]; norm_num⟩

/-- without finite literals the enclosure has nothing to enclose: the range of `inf * x` over `x ∈ [0,1]`
has a NaN endpoint (`0 · inf`), so it contains no number at all — and `inf * x` has no value either. -/
theorem infinite_coefficient_range_contains_nothing (v : K) :
    ¬ Mem v (Analyzer.boundsOf [("x", (⟨.fin 0, .fin 1⟩ : Bounds (Ext K)))] (.bin .mul (.num .pinf) (.var "x")))
    ∧ ∀ ρ : String → K, eval ρ (.bin .mul (.num (.pinf : Ext K)) (.var "x")) = none := by
  refine ⟨?_, fun ρ => by simp [eval]⟩
  simp [Analyzer.boundsOf, Exp.asNum, Analyzer.varBounds, AList.get?, Bounds.scale, Ext.eq, Ext.lt, Ext.mul, Ext.sign,
    Ext.sgn, Ext.ofSign, mem_iff]

/-- `no_nan`: with finite literals and a NaN-free box, `bounds_of` never has a NaN endpoint (the infinite
sums are repaired by `lower_sum`/`upper_sum`, `0 · c` is special-cased, a finite non-zero coefficient
times ±inf is ±inf). -/
theorem boundsOf_no_nan (vb : List (String × Bounds (Ext K))) (e : Exp (Ext K))
    (hbox : ∀ name, NoNaN (Analyzer.varBounds vb name)) (hlit : finiteLits e = true) :
    NoNaN (Analyzer.boundsOf vb e) :=
  boundsOf_noNaN vb hbox e hlit

example : ∃ (vb : List (String × Bounds (Ext K))) (e : Exp (Ext K)),
    (∀ name, NoNaN (Analyzer.varBounds vb name)) ∧ finiteLits e = true :=
  ⟨[("x", ⟨.ninf, .pinf⟩)], .bin .sub (.var "x") (.var "x"), by
    intro n
    by_cases h : "x" = n <;> simp [Analyzer.varBounds, AList.get?, h, NoNaN, Bounds.unbounded, Ext.isNaN], by
    simp [finiteLits]⟩

/-! ### intersection with tolerance -/

/-- whatever `intersection` returns contains every common point — for EVERY tolerance (NaN included). -/
theorem intersection_superset (a b r : Bounds (Ext K)) (tol : Ext K) (x : K)
    (h : a.intersection b tol = some r) (ha : Mem x a) (hb : Mem x b) : Mem x r :=
  mem_intersection h ha hb

/-- and it never reports a contradiction while the two ranges have a common point. -/
theorem intersection_some_of_common_point (a b : Bounds (Ext K)) (tol : Ext K) (x : K)
    (ha : Mem x a) (hb : Mem x b) : ∃ r, a.intersection b tol = some r :=
  intersection_isSome tol ha hb

example : ∃ (a b : Bounds (Ext K)) (x : K), Mem x a ∧ Mem x b :=
  ⟨⟨.fin 0, .fin 2⟩, ⟨.ninf, .fin 1⟩, 1, by simp [mem_iff], by simp [mem_iff]⟩

/-! ### single tightening steps keep every admissible point in the box -/

/-- `tighten_variable`: if the candidate contains `ρ(name)`, `ρ` stays in the box (tolerance-gated update,
contradiction flag and the Boolean early return included). -/
theorem tightenVariable_sound (ρ : String → K) (an : Analyzer (Ext K)) (name : String) (cand : Bounds (Ext K))
    (hbox : InBox ρ an.variableBounds) (hc : Mem (ρ name) cand) :
    InBox ρ (an.tightenVariable name cand).1.variableBounds :=
  tightenVariable_inBox an name cand hbox hc

/-- `tighten_expression` (reverse rules: abs upper-only, min lower-only, max upper-only, affine operators):
if the value of `e` lies in `required`, `ρ` stays in the box. -/
theorem tightenExpression_sound (ρ : String → K) (e : Exp (Ext K)) (required : Bounds (Ext K)) (s : TState (Ext K))
    (v : K) (hbox : InBox ρ s.an.variableBounds) (hv : eval ρ e = some v) (hm : Mem v required) :
    InBox ρ (Analyzer.tightenExpression e required s).an.variableBounds :=
  tightenExpression_ok ρ e required s v hbox hv hm

/-- `tighten_constraint_expression`: a point that satisfies the constraint stays in the box. -/
theorem tightenConstraintExpression_sound (ρ : String → K) (c : Constraint (Ext K)) (s : TState (Ext K))
    (hc : Holds ρ c) (hbox : InBox ρ s.an.variableBounds) :
    InBox ρ (Analyzer.tightenConstraintExpression c (Bounds.required c.cmp) s).an.variableBounds :=
  tightenConstraintExpression_inBox c s hc hbox

/-- `AffineForm::from_constraint` + `tighten_affine_form` (merge with zero-coefficient removal, prefix and
suffix sums, division by each coefficient, early exit on contradiction): a point that satisfies the row
stays in the box. -/
theorem tightenAffine_sound (ρ : String → K) (an : Analyzer (Ext K)) (c : Constraint (Ext K)) (f : AffineForm (Ext K))
    (hf : AffineForm.fromConstraint c = some f) (hc : Holds ρ c) (hbox : InBox ρ an.variableBounds) :
    InBox ρ (an.tightenAffineForm f c.cmp).an.variableBounds := by
  obtain ⟨S, h1, h2⟩ := fromConstraint_den hf hc
  exact tightenAffineForm_inBox an f c.cmp S h1 h2 hbox

example : ∃ (ρ : String → K) (c : Constraint (Ext K)) (f : AffineForm (Ext K)),
    AffineForm.fromConstraint c = some f ∧ Holds ρ c := by
  refine ⟨fun _ => 1, ⟨"r", .bin .mul (.num (.fin 3)) (.var "x"), .le, .num (.fin 4), false⟩,
    ⟨[("x", .fin 3)], .fin (-4)⟩, ?_, 3, 4, by simp [eval, binVal], by simp [eval], by simp [cmpHolds]; norm_num⟩
  simp [AffineForm.fromConstraint, AffineForm.fromExp, Exp.asNum, AffineForm.scale, AffineForm.scaleCoeffs,
    AffineForm.merge, AffineForm.mergeCoeffs, Ext.mul, Ext.add, Ext.neg, Ext.eq, Ext.isFinite]

/-! ### the work-list -/

/-- `propagate_affine_constraints`: for EVERY step limit (`fuel`), every dependency table, every queue
content and every `queued` flag vector, with the freeze on contradiction: a point that satisfies all
constraints and is in the box before the loop is in the box after it. -/
theorem propagate_sound (ρ : String → K) (cs : List (Constraint (Ext K))) (deps : List (String × List Nat))
    (fuel : Nat) (an : Analyzer (Ext K)) (queue : List Nat) (queued : List Bool)
    (hcs : ∀ c ∈ cs, Holds ρ c) (hbox : InBox ρ an.variableBounds) :
    InBox ρ (Analyzer.propagateLoop cs (cs.map AffineForm.fromConstraint) deps fuel an queue queued).variableBounds :=
  propagateLoop_inBox cs hcs deps fuel an queue queued hbox

/-- `BoundsAnalyzer::analyze`: every source-feasible assignment lies inside every derived variable range —
for every tolerance and every step limit, for infeasible models (vacuous: no feasible point; the freeze
only stops refining) and with infinite declared ranges. -/
theorem analyze_sound (domain : List (DomVar (Ext K))) (cs : List (Constraint (Ext K))) (tol : Ext K) (maxSteps : Nat)
    (ρ : String → K) (hρ : SrcFeasible domain cs ρ) :
    InBox ρ (Analyzer.analyze domain cs tol maxSteps).variableBounds := by
  unfold Analyzer.analyze Analyzer.propagate
  exact propagateLoop_inBox cs hρ.2 _ _ _ _ _ (fromDomain_inBox domain tol hρ.1)

example : ∃ (domain : List (DomVar (Ext K))) (cs : List (Constraint (Ext K))) (ρ : String → K),
    SrcFeasible domain cs ρ :=
  ⟨[⟨"x", .real (.fin 0) .pinf, 1⟩, ⟨"n", .int 0 5, 1⟩],
   [⟨"r", .bin .add (.var "x") (.var "n"), .le, .num (.fin 4), false⟩], fun _ => 1, by
    intro d hd
    simp at hd
    rcases hd with rfl | rfl
    · simp [InDomain, Mem, Ext.le]
    · exact ⟨1, by simp, by omega, by omega⟩, by
    intro c hc
    simp at hc; subst hc
    exact ⟨2, 4, by simp [eval, binVal]; norm_num, by simp [eval], by simp [cmpHolds]; norm_num⟩⟩

/-! ### copying the ranges into the domains -/

/-- tolerant integer rounding: for every `tol ≥ 0`, an integer `n ≥ l` satisfies `n ≥ ⌈l − tol⌉`
(and symmetrically for upper bounds). -/
theorem integer_rounding_sound (tol l : K) (n : Int) (htol : 0 ≤ tol) :
    (l ≤ n → Int.ceil (l - tol) ≤ n) ∧ ((n : K) ≤ l → n ≤ Int.floor (l + tol)) :=
  ⟨fun h => Int.ceil_le.2 (by linarith), fun h => Int.le_floor.2 (by linarith)⟩

/-- `apply_to_domain`: a point of the box that is in its declared domains is in the tightened domains
(Boolean untouched, integer rounding with tolerance and saturating `as i32`, `max(lower, 0)` for
`NonNegativeReal`, plain copy for `Real`), for every finite tolerance `≥ 0`.  `hi32`: integer ranges
are `i32` ranges (the Rust type). -/
theorem applyToDomain_sound (ρ : String → K) (an : Analyzer (Ext K)) (domain : List (DomVar (Ext K))) (tol : K)
    (htol : an.tolerance = .fin tol) (htol0 : 0 ≤ tol)
    (hi32 : ∀ d ∈ domain, ∀ lo hi, d.ty = .int lo hi → i32Min ≤ lo ∧ hi ≤ i32Max)
    (hbox : InBox ρ an.variableBounds) (hd : ∀ d ∈ domain, InDomain d.ty (ρ d.name)) :
    ∀ d' ∈ an.applyToDomain domain, InDomain d'.ty (ρ d'.name) := by
  intro d' hd'
  simp only [Analyzer.applyToDomain, List.mem_map] at hd'
  obtain ⟨d, hdm, rfl⟩ := hd'
  obtain ⟨h1, h2⟩ := applyToVar_inDomain an d tol htol htol0 (hi32 d hdm) hbox (hd d hdm)
  rw [h1]; exact h2

/-- the tolerance must not be negative: with `tol = -1` the integer `0 ≥ 0` is cut off (`⌈0 + 1⌉ = 1`). -/
theorem applyToDomain_negative_tolerance_counterexample :
    ∃ (ρ : String → K) (an : Analyzer (Ext K)) (d : DomVar (Ext K)),
      an.tolerance = .fin (-1) ∧ InBox ρ an.variableBounds ∧ InDomain d.ty (ρ d.name) ∧
      ¬ InDomain (an.applyToVar d).ty (ρ d.name) := by
  refine ⟨fun _ => 0, ⟨[("n", ⟨.fin 0, .fin 5⟩)], [], .fin (-1), false, false⟩, ⟨"n", .int 0 5, 1⟩, rfl, ?_, ?_, ?_⟩
  · intro n
    by_cases h : "n" = n <;> simp [Analyzer.varBounds, AList.get?, h, mem_iff, Bounds.unbounded]
  · exact ⟨0, by simp, by omega, by omega⟩
  · simp only [Analyzer.applyToVar, AList.get?, beq_self_eq_true, if_true]
    have h1 : (Arith.ceil (Arith.sub (Ext.fin (0:K)) (Ext.fin (-1))) : Ext K) = .fin 1 := by
      simp [Arith.ceil, Ext.sub, Ext.add, Ext.neg]
    have h2 : (Arith.floor (Arith.add (Ext.fin (5:K)) (Ext.fin (-1))) : Ext K) = .fin 4 := by
      have : Int.floor ((5:K) + (-1)) = 4 := by
        rw [show (5:K) + (-1) = ((4:Int):K) by norm_num]; exact Int.floor_intCast 4
      simp only [Arith.floor, a_add, Ext.add, ef_add, ef_floor, ef_ofInt, this]; norm_num
    simp only [h1, h2]
    have e1 : (Ext.fin (1:K)) = Ext.fin ((1:Int):K) := by simp
    have e4 : (Ext.fin (4:K)) = Ext.fin ((4:Int):K) := by simp
    rw [e1, e4]
    simp only [a_gt, Ext.lt, ef_lt, toI32_int, Ext.clampInt, i32Min, i32Max]
    norm_num
    rintro ⟨n, hn, h1, h2⟩
    have : (n : K) = 0 := by simpa using hn.symm
    have : n = 0 := by exact_mod_cast this
    omega

/-- `enforceable`: the declared box is sound; otherwise the stored range of every `IntegerRange` variable is
replaced by its tolerant rounding (what `apply_to_domain` publishes), which keeps every integer of the old
range — for every finite tolerance `≥ 0`. -/
theorem enforceable_sound (ρ : String → K) (an : Analyzer (Ext K)) (domain : List (DomVar (Ext K))) (tol : K)
    (htol : an.tolerance = .fin tol) (htol0 : 0 ≤ tol)
    (hd : ∀ d ∈ domain, InDomain d.ty (ρ d.name)) (hbox : InBox ρ an.variableBounds) :
    InBox ρ (an.enforceable domain).variableBounds := by
  unfold Analyzer.enforceable
  split
  · exact fromDomain_inBox domain an.tolerance hd
  · exact roundIntegerRanges_inBox tol htol0 domain an htol hd hbox

/-- the copy of `enforceable` in the pipeline model is the same function. -/
theorem compile_enforceable_eq (an : Analyzer (Ext K)) (domain : List (DomVar (Ext K))) :
    Compile.enforceable an domain = an.enforceable domain := rfl

/-! ### the report of the hook (what the compiler publishes) -/

/-- End to end, for the function the harness observes (`verif_hooks::analyze_bounds`): at every
source-feasible assignment (1) every published variable range contains the variable's value, (2) every
published expression range contains the expression's value (whenever it has one), (3) every tightened
domain contains the variable's value. -/
theorem analyzeBounds_sound (domain : List (DomVar (Ext K))) (cs : List (Constraint (Ext K)))
    (exprs : List (Exp (Ext K))) (tol : K) (maxSteps : Nat) (htol0 : 0 ≤ tol)
    (hi32 : ∀ d ∈ domain, ∀ lo hi, d.ty = .int lo hi → i32Min ≤ lo ∧ hi ≤ i32Max)
    (ρ : String → K) (hρ : SrcFeasible domain cs ρ) :
    let r := analyzeBounds domain cs exprs (.fin tol) maxSteps
    (∀ p ∈ r.variables, Mem (ρ p.1) p.2) ∧
    (∀ p ∈ exprs.zip r.expressions, ∀ v, eval ρ p.1 = some v → Mem v p.2) ∧
    (∀ d' ∈ r.domain, InDomain d'.ty (ρ d'.name)) := by
  have hbox := analyze_sound domain cs (.fin tol) maxSteps ρ hρ
  have htol : (Analyzer.analyze domain cs (.fin tol) maxSteps).tolerance = .fin tol := by
    unfold Analyzer.analyze Analyzer.propagate
    exact propagateLoop_tolerance _ _ _ _ _ _ _
  refine ⟨?_, ?_, ?_⟩
  · intro p hp
    simp only [analyzeBounds, List.mem_map] at hp
    obtain ⟨d, _, rfl⟩ := hp
    exact boundsOf_encloses _ ρ (.var d.name) _ hbox (by simp [eval])
  · intro p hp v hv
    simp only [analyzeBounds, List.zip_map_right, List.mem_map] at hp
    obtain ⟨q, hq, rfl⟩ := hp
    have := List.of_mem_zip hq
    obtain ⟨_, h2⟩ := this
    simp only [Prod.map_fst, Prod.map_snd, id] at hv ⊢
    have hq' : q.1 = q.2 := by
      have := List.mem_iff_getElem.1 hq
      obtain ⟨i, hi, rfl⟩ := this
      simp
    rw [← hq']
    exact boundsOf_encloses _ ρ _ v hbox hv
  · exact applyToDomain_sound ρ _ domain tol htol htol0 hi32 hbox hρ.1

/-- The same for what `Linearizer::linearize` itself uses (`verif_hooks::linearizer_bounds`: analysis of the
normalised constraints, `enforceable`, `apply_to_domain`): every published variable range and every
tightened domain contains the value of the variable at every assignment that is in the declared domains
and satisfies the normalised constraints — in particular when the analysis found the model infeasible or
stopped at its step limit.  (That an assignment satisfying the SOURCE constraints satisfies the normalised
ones is C10: value preservation of `simplify` / `flatten`.) -/
theorem linearizerBounds_sound (domain : List (DomVar (Ext K))) (normalized : List (Constraint (Ext K)))
    (tol : K) (maxSteps : Nat) (htol0 : 0 ≤ tol)
    (hi32 : ∀ d ∈ domain, ∀ lo hi, d.ty = .int lo hi → i32Min ≤ lo ∧ hi ≤ i32Max)
    (ρ : String → K) (hρ : SrcFeasible domain normalized ρ) :
    let r := linearizerBounds domain normalized (.fin tol) maxSteps
    (∀ p ∈ r.variables, Mem (ρ p.1) p.2) ∧ (∀ d' ∈ r.domain, InDomain d'.ty (ρ d'.name)) := by
  have htolA : (Analyzer.analyze domain normalized (.fin tol) maxSteps).tolerance = .fin tol := by
    unfold Analyzer.analyze Analyzer.propagate
    exact propagateLoop_tolerance _ _ _ _ _ _ _
  have hbox := enforceable_sound ρ _ domain tol htolA htol0 hρ.1
    (analyze_sound domain normalized (.fin tol) maxSteps ρ hρ)
  have htol : ((Analyzer.analyze domain normalized (.fin tol) maxSteps).enforceable domain).tolerance = .fin tol := by
    rw [enforceable_tol]; exact htolA
  refine ⟨?_, ?_⟩
  · intro p hp
    simp only [linearizerBounds, List.mem_map] at hp
    obtain ⟨d, _, rfl⟩ := hp
    exact boundsOf_encloses _ ρ (.var d.name) _ hbox (by simp [eval])
  · exact applyToDomain_sound ρ _ domain tol htol htol0 hi32 hbox hρ.1

end Rooc.Props.C07
