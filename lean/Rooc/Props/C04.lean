/- C04 — property theorems only (helper lemmas live in `Rooc/Proofs`). -/
namespace Rooc.Props.C04
end Rooc.Props.C04
