/-
C04 — Returned solutions are feasible and self-consistent.  PROPERTY THEOREMS ONLY.

Two groups:
* the certificate checker every returned point is pushed through is SOUND (`checkPoint_sound`): an accepted point
  gives one value per variable and satisfies every row and every domain (bounds, integrality, 0/1) within the
  tolerance — over any linearly ordered field `K`;
* rooc's own mapping code around the external solvers (`Rooc/SolverWrap.lean`, diffed against the Rust on every run):
  read-back per domain, objective incl. offset, by-name map, named-row map, free-variable recombination.
The external solvers are parameters (their raw answer is an input of the wrapper functions).
-/
import Rooc.Proofs.Cert
import Rooc.Proofs.SolverWrap
import Rooc.Proofs.ComposeNames
import Rooc.Proofs.ComposeSimplexExamples
import Rooc.Proofs.ComposeSlow
import Mathlib.Data.Rat.Floor
namespace Rooc.Props.C04
open Rooc Rooc.Cert Rooc.SolverWrap

variable {K : Type} [Field K] [LinearOrder K] [IsStrictOrderedRing K] [FloorRing K]

/-! ### the certificate checker -/

/-- `checkPoint p x tol = true` ⇒ `x` has one value per variable and satisfies every row (`≤`, `≥`, `=`) and every
domain (bounds; integrality `∃ n : ℤ, |x − n| ≤ tol` inside the range; 0/1) within `tol`. -/
theorem checkPoint_sound (p : Prob K) (x : List K) (tol : K) (h : checkPoint p x tol = true) :
    FeasibleWithin p x tol := by
  unfold checkPoint at h
  simp only [Bool.and_eq_true, List.all_eq_true, decide_eq_true_eq] at h
  exact ⟨fun r hr => ⟨(h.1 r hr).1, rowHolds_sound (h.1 r hr).2⟩, domsHold_sound x p.doms h.2⟩

/-- with tolerance 0 an accepted point is feasible for the LP relaxation in the exact sense used by C05. -/
theorem checkPoint_rows_exact (p : Prob K) (x : List K) (h : checkPoint p x 0 = true) :
    ∀ r ∈ p.rows, r.coeffs.length = x.length ∧ RowSat x r := by
  unfold checkPoint at h
  simp only [Bool.and_eq_true, List.all_eq_true, decide_eq_true_eq] at h
  exact fun r hr => ⟨(h.1 r hr).1, rowHolds_zero_sound (h.1 r hr).2⟩

/-- the recomputed objective is the model's objective function at the point, constant offset included. -/
theorem objective_eq (p : Prob K) (x : List K) : objective p x = dot p.obj x + p.offset := by
  simp [objective]

/-! ### rooc's read-back of solver values (`milp_solver.rs:187-195`) -/

/-- an integral raw value inside the `i32` range is read back exactly (`value as i32`). -/
theorem readBack_int_exact (lo hi n : Int) (h1 : -2147483648 ≤ n) (h2 : n ≤ 2147483647) :
    readBack (.int lo hi : VarType (Ext K)) (Ext.fin (n : K)) = .int n := by
  simp only [readBack, Arith.toI32, Ext.toIntSat, ef_lt, ef_ofInt, Int.cast_zero, ef_ceil, ef_floor,
    Int.ceil_intCast, Int.floor_intCast, ite_self, Ext.clampInt]
  have a : ¬ n < -2147483648 := not_lt.mpr h1
  have b : ¬ n > 2147483647 := not_lt.mpr h2
  simp [a, b]

/-- an exact 0 / 1 is read back as `false` / `true` (`value != 0.0`). -/
theorem readBack_bool_exact :
    readBack (.bool : VarType (Ext K)) (Ext.fin 0) = .bool false ∧
    readBack (.bool : VarType (Ext K)) (Ext.fin 1) = .bool true := by
  simp [readBack, Arith.ne, Arith.eq, Ext.eq]

/-- continuous values pass through untouched. -/
theorem readBack_real_exact (lo hi v : Ext K) :
    readBack (.real lo hi) v = .real v ∧ readBack (.nnreal lo hi) v = .real v := by
  simp [readBack]

/-- the value read back denotes the same number (so the certificate check speaks about the solver's point). -/
theorem readBack_exact (ty : VarType (Ext K)) (n : Int) (h1 : -2147483648 ≤ n) (h2 : n ≤ 2147483647)
    (hb : ty = .bool → n = 0 ∨ n = 1) :
    (readBack ty (Ext.fin (n : K))).toNum = Ext.fin (n : K) := by
  cases ty with
  | real lo hi => simp [readBack, Val.toNum]
  | nnreal lo hi => simp [readBack, Val.toNum]
  | int lo hi => rw [readBack_int_exact lo hi n h1 h2]; simp [Val.toNum]
  | bool =>
    rcases hb rfl with rfl | rfl
    · simp [readBack, Val.toNum, Arith.ne, Arith.eq, Ext.eq]
    · simp [readBack, Val.toNum, Arith.ne, Arith.eq, Ext.eq]

/-- WITHOUT the integrality hypothesis the read-back is not faithful: a `1e-12` noise on a 0/1 variable reads back as
`true`, and a fractional value of an integer variable is truncated toward zero (not rounded).  This is why the
interrupted-search point of C15 (fractional working values) turns into a wrong integer point. -/
theorem readBack_exact_counterexample :
    readBack (.bool : VarType (Ext K)) (Ext.fin (1 / 1000000000000)) = .bool true ∧
    readBack (.int 0 5 : VarType (Ext K)) (Ext.fin (29999 / 10000)) = .int 2 := by
  constructor
  · simp [readBack, Arith.ne, Arith.eq, Ext.eq]
  · have hfl : Int.floor ((29999 : K) / 10000) = 2 := by
      rw [Int.floor_eq_iff]; constructor <;> norm_num
    have hpos : ¬ ((29999 : K) / 10000 < 0) := by norm_num
    simp [readBack, Arith.toI32, Ext.toIntSat, Ext.clampInt, hfl, hpos]

/-! ### objective with offset, by-name map -/

/-- `calc_objective` on finite data is `obj·x + offset` (this is the value the Clarabel path reports; the microlp
paths report `solver objective + offset`). -/
theorem calcObjective_exact (lm : LinModel (Ext K)) (c x : List K) (off : K)
    (hobj : lm.objective = c.map Ext.fin) (hoff : lm.offset = Ext.fin off) (hlen : x.length = c.length) :
    calcObjective lm (x.map Ext.fin) = some (Ext.fin (dot c x + off)) := by
  unfold calcObjective
  simp [hobj, hoff, hlen, sumProducts_fin]

omit [Field K] [LinearOrder K] [IsStrictOrderedRing K] [FloorRing K] in
/-- `LpSolution::value_of`: with duplicated names the FIRST assignment wins (so on a well-formed model, whose names
are distinct, every variable has exactly the value of its only assignment). -/
theorem valueOf_first_duplicate_wins (s : Solution (Ext K)) (name : String) :
    s.valueOf name = (s.assignment.find? (fun p => p.1 == name)).map (·.2) := by
  unfold Solution.valueOf
  exact buildAssignmentMap_get s.assignment name

/-- `make_constraints_map_from_assignment`: the reported map contains no internal (`__`-prefixed) row, and for every
other name it holds the activity `Σ cᵢ·vᵢ` of the LAST row carrying that name (unnamed rows collapse on the empty key
the same way) — with distinct names: of that row. -/
theorem constraintsMap_last_duplicate_wins (lm : LinModel (Ext K)) (values : List (Ext K))
    (cm : List (String × Ext K)) (h : constraintsMap lm values = some cm) :
    (∀ p ∈ cm, p.1.startsWith "__" = false) ∧
    ∀ name : String, name.startsWith "__" = false →
      imGet cm name = lastVal (lm.rows.map fun r => (r.name, sumProducts r.coeffs values)) name := by
  unfold constraintsMap calcConstraints at h
  split at h
  · simp only [Option.map_some, Option.some.injEq] at h
    subst h
    constructor
    · intro p hp
      obtain ⟨q, hq, he⟩ := imCollect_key_mem _ p hp
      have := (List.mem_filter.mp hq).2
      rw [← he]
      simpa using this
    · intro name hn
      rw [imCollect_get]
      exact lastVal_filter (fun n => !(n.startsWith "__")) _ name (by simp [hn])
  · simp at h

/-- the MILP wrapper reports one assignment per variable, in the model's order, when microlp returns one value per
column. -/
theorem wrapMilp_one_value_per_variable (lm : LinModel (Ext K)) (st : MlpStatus) (obj : Ext K) (vals : List (Ext K))
    (s : Solution (Ext K)) (hlen : vals.length = lm.vars.length)
    (h : wrapMilp lm (.ok st obj vals) = .ok s) :
    s.assignment.map (·.1) = lm.vars ∧ s.value = Arith.add obj lm.offset := by
  unfold wrapMilp at h
  split at h
  · simp at h
  · split at h
    · simp at h
    · split at h
      · simp at h
      · simp only at h
        cases hc : constraintsMap lm vals with
        | none => simp [hc] at h
        | some cm =>
          simp only [hc, Res.ok.injEq] at h
          subst h
          refine ⟨?_, rfl⟩
          simp only [lpSolutionNew, zipNames, List.map_map]
          refine Eq.trans (List.map_congr_left (g := Prod.fst) ?_) (List.map_fst_zip (le_of_eq hlen.symm))
          intro x _
          simp only [Function.comp]
          split <;> rfl

/-! ### tableau simplex: mapping the standard-form solution back (`as_lp_solution`) -/

/-- the name carries none of the internal prefixes the mapping looks at. -/
def plainName (n : String) : Bool :=
  !(n.startsWith "$su_" || n.startsWith "$sl_" || n.startsWith "$a_" || n.startsWith "$m" || n.startsWith "$p")

/-- (partial: names without internal prefixes) a plain variable keeps its name and value. -/
theorem asLpAssignment_plain_partial (names : List String) (values : List (Ext K))
    (h : names.all plainName = true) :
    asLpAssignment names values = (zipNames names values).map fun p => (p.1, Val.real p.2) := by
  unfold asLpAssignment
  simp only
  rw [← List.filterMap_eq_map]
  apply List.filterMap_congr
  intro p hp
  have hn : plainName p.1 = true := by
    have := List.of_mem_zip hp
    exact (List.all_eq_true.mp h) p.1 this.1
  simp only [plainName, Bool.not_eq_true', Bool.or_eq_false_iff] at hn
  obtain ⟨⟨⟨⟨h1, h2⟩, h3⟩, h4⟩, h5⟩ := hn
  simp [h1, h2, h3, stripPrefix, h4, h5]

/-- the split halves `$p‹v›`, `$m‹v›` of a free variable are recombined into `v = p − m`, slack / surplus /
artificial columns are dropped. -/
theorem asLpAssignment_split_example (p m s : K) :
    asLpAssignment ["$px", "$mx", "$sl_0"] [Ext.fin p, Ext.fin m, Ext.fin s]
      = [("x", Val.real (Ext.fin (p - m)))] := by
  have l1 : "$p".length = 2 := by decide
  have l2 : "$m".length = 2 := by decide
  have e1 : "$m" ++ String.ofList ['x'] = "$mx" := by decide
  have e2 : "$p" ++ String.ofList ['x'] = "$px" := by decide
  have e3 : String.ofList ['x'] = "x" := by decide
  simp [asLpAssignment, zipNames, imCollect, imInsert, imGet, stripPrefix, l1, l2, e1, e2, e3]

/-- COUNTEREXAMPLE to "every variable keeps exactly one value" for names that collide with the internal prefixes: a
user variable called `$sl_x` is dropped by the name-prefix test. -/
theorem asLpAssignment_prefix_collision_counterexample (v : Ext K) :
    asLpAssignment ["$sl_x"] [v] = [] := by
  simp [asLpAssignment, zipNames]

/-- what else the `LpSolution` of the tableau simplex carries (`as_lp_solution` → `LpSolution::new`): status `Optimal`, no
row activities, no shadow prices — so `slow_simplex_solution_exact_partial` below speaks about the whole returned object. -/
theorem asLpSolution_status_rows (names : List String) (values : List (Ext K)) (value : Ext K) :
    (asLpSolution names values value).status = .optimal ∧ (asLpSolution names values value).constraints = [] ∧
    (asLpSolution names values value).shadow = [] ∧ (asLpSolution names values value).value = value := by
  simp [asLpSolution, lpSolutionNew]

/-! ### non-vacuity -/

/-- `x + y ≤ 3`, `x` integer in `0..5`, `y ∈ {0,1}` at `(2, 1)`. -/
example : @checkPoint ℚ (fieldExact ℚ)
    ⟨.min, [1, 1], 0, [⟨[1, 1], .le, 3⟩], [.int 0 5, .bool]⟩ [2, 1] (1 / 1000000) = true := by
  have hfl : Int.floor ((2 : ℚ) + 1 / 2) = 2 := by
    rw [Int.floor_eq_iff]; constructor <;> norm_num
  simp [checkPoint, rowHolds, domsHold, domHolds, roundK, absK]
  norm_num [hfl]

/-! ### `as_lp_solution` ∘ C13: the solution handed back by the tableau simplex

`asLpSolution_feasible` is (ii) of DESIGN.md §6 C04: a feasible point of the standard form of `lm` is mapped back BY
NAME (`asLpAssignment`: `v = $p‹v› − $m‹v›`, `$sl_ / $su_ / $a_` columns dropped) to exactly C13's positional
`preimage`, hence (C13 `bwd`) to a feasible point of `lm` with the same objective, and every variable of `lm` gets
exactly one value.  Helpers: `Rooc/Proofs/ComposeNames.lean` (closed form of the generated names
`ComposeNames.standardize_vars`, the recombination `asLp_closed`, `closed_perm_back`).
PARTIAL by a genuine defect: the names of `lm` must be pairwise distinct and `plainName` (no internal prefix);
`asLpAssignment_prefix_collision_counterexample` above is the excluded region. -/
section AsLpSolution
open StdSem StdMain ComposeSimplex
attribute [local instance] exactArith

/-- **`as_lp_solution` maps a feasible point of the standard form back to a feasible point of the original.**
`y` : any feasible point of the standard form `s` of `lm` (C13 `StdFeasible`: one value per column, all `≥ 0`, every
equality holds), `value` : whatever is reported as objective.  Then the by-name assignment names every variable of
`lm` exactly once, `value_of` returns for the `i`-th variable the `i`-th component of `preimage lm y`, that point
satisfies every row and every declared bound of `lm`, and its objective is the one the standard form records.
SHARP FORM of the name hypothesis: only the variables that stay ONE column (`keep (flags lm) lm.vars`: the non-free,
`NonNegativeReal` ones) need a `plainName`; a free variable `v` occurs only as `$p‹v›` / `$m‹v›` and may be called anything
(even `$sl_x`).  The counterexample `asLpAssignment_prefix_collision_counterexample` is exactly a kept variable. -/
theorem asLpSolution_feasible_kept_partial {lm : LinModel (Ext K)} (hW : WF lm) (hnd : lm.vars.Nodup)
    (hpl : (StdLayout.keep (StdSpec.flags lm) lm.vars).all plainName = true)
    {s : StdModel (Ext K)} (hs : Standardize.standardize lm = .ok s)
    (y : List K) (hF : StdFeasible s y) (value : Ext K) :
    ((asLpSolution s.vars (y.map Ext.fin) value).assignment.map (·.1)).Perm lm.vars ∧
    (∀ i (hi : i < lm.vars.length),
      (asLpSolution s.vars (y.map Ext.fin) value).valueOf (lm.vars[i]) =
        some (Val.real (Ext.fin ((preimage lm y).getD i 0)))) ∧
    LinFeasible lm (preimage lm y) ∧ stdObj s y = obj lm (preimage lm y) := by
  have hpl' : ∀ v ∈ StdLayout.keep (StdSpec.flags lm) lm.vars, ComposeNames.plain v = true :=
    fun v hv => (List.all_eq_true.mp hpl) v hv
  obtain ⟨hperm, hval⟩ := ComposeNames.asLp_standardize_kept lm hW hnd hpl' hs y hF.len
  refine ⟨hperm, fun i hi => ?_, Rooc.StdMain.bwd lm hW hs y hF⟩
  rw [valueOf_first_duplicate_wins]
  show (List.find? _ (asLpAssignment s.vars (y.map Ext.fin))).map _ = _
  rw [hval i hi]
  rfl

/-- the same under the simpler hypothesis that EVERY variable of `lm` has a plain name. -/
theorem asLpSolution_feasible_partial {lm : LinModel (Ext K)} (hW : WF lm) (hnd : lm.vars.Nodup)
    (hpl : lm.vars.all plainName = true) {s : StdModel (Ext K)} (hs : Standardize.standardize lm = .ok s)
    (y : List K) (hF : StdFeasible s y) (value : Ext K) :
    ((asLpSolution s.vars (y.map Ext.fin) value).assignment.map (·.1)).Perm lm.vars ∧
    (∀ i (hi : i < lm.vars.length),
      (asLpSolution s.vars (y.map Ext.fin) value).valueOf (lm.vars[i]) =
        some (Val.real (Ext.fin ((preimage lm y).getD i 0)))) ∧
    LinFeasible lm (preimage lm y) ∧ stdObj s y = obj lm (preimage lm y) :=
  asLpSolution_feasible_kept_partial hW hnd
    (List.all_eq_true.mpr fun v hv =>
      (List.all_eq_true.mp hpl) v ((ComposeNames.keep_sublist _ _).subset hv)) hs y hF value

/-- **the `LpSolution` of `solve_real_lp_problem_slow_simplex`, end to end at exact arithmetic** (C13 ∘ C14 ∘
`as_lp_solution`): when the loop stops `Finished` on a canonical feasible tableau of the standard form of a well-formed
`lm` (distinct plain names), the returned solution — assignment `as_lp_solution(variables_values)`, value
`optimal_value` — names every variable of `lm` exactly once, the point `x` it denotes is feasible for `lm`, no feasible
point is better in `lm`'s direction, and the reported value is `obj lm x`. -/
theorem slow_simplex_solution_exact_partial {lm : LinModel (Ext K)} (hW : WF lm) (hnd : lm.vars.Nodup)
    (hpl : lm.vars.all plainName = true) {s : StdModel (Ext K)} (hs : Standardize.standardize lm = .ok s)
    {T : Tab K} (hT : CanonicalFor T (stdK s)) (stallExtra limit : Nat) (prefer : List Nat)
    (hfin : (Tableau.solve (0:K) stallExtra limit prefer T).result = .ok ()) :
    ∃ x : List K,
      LinFeasible lm x ∧
      (∀ x', LinFeasible lm x' →
        (lm.optType = .min → obj lm x ≤ obj lm x') ∧ (lm.optType = .max → obj lm x' ≤ obj lm x)) ∧
      (returnedSolution s (Tableau.solve (0:K) stallExtra limit prefer T).final).value = Ext.fin (obj lm x) ∧
      ((returnedSolution s (Tableau.solve (0:K) stallExtra limit prefer T).final).assignment.map (·.1)).Perm lm.vars ∧
      ∀ i (hi : i < lm.vars.length),
        (returnedSolution s (Tableau.solve (0:K) stallExtra limit prefer T).final).valueOf (lm.vars[i]) =
          some (Val.real (Ext.fin (x.getD i 0))) := by
  obtain ⟨hfeas, hopt, hvalue⟩ := finished_optimal hW hs hT stallExtra limit prefer hfin
  have hF := finished_stdFeasible hT stallExtra limit prefer hfin
  obtain ⟨hperm, hval, _, _⟩ := asLpSolution_feasible_partial hW hnd hpl hs _ hF
    (Ext.fin (Tableau.optimalValue (Tableau.solve (0:K) stallExtra limit prefer T).final))
  exact ⟨_, hfeas, hopt, by rw [← hvalue]; rfl, hperm, hval⟩

/-! #### the diffed whole-function model IS this composition

`SlowSimplex.solveReal` (`Rooc/SlowSimplex.lean`) is the model of the entry point `solve_real_lp_problem_slow_simplex`
that `./check C04` / `C05` compare bit for bit with the real function on every generated model.  The three lemmas below
(every number type) say that its answers are exactly the stage-wise events the theorems above and in C05 speak about. -/

/-- a returned `LpSolution` = the three stages succeeded, the loop stopped `Finished`, and the solution is
`as_lp_solution` of `variables_values` / `optimal_value` of the final tableau under the standard form's names. -/
theorem slow_simplex_entry_ok_iff {α : Type} [Arith α] (tol : α) (se p1 : Nat) (lm : LinModel α) (limit : Int)
    (sol : Solution α) :
    SlowSimplex.solveReal tol se p1 lm limit = .ok sol ↔
      ∃ sm T, Standardize.standardize lm = .ok sm ∧ Tableau.intoTableau tol se p1 sm = .ok T ∧
        (Tableau.solve tol se limit.toNat [] T).result = .ok () ∧
        sol = asLpSolution sm.vars (Tableau.variablesValues (Tableau.solve tol se limit.toNat [] T).final)
          (Tableau.optimalValue (Tableau.solve tol se limit.toNat [] T).final) :=
  SlowSimplex.solveReal_ok_iff tol se p1 lm limit sol

/-- `Err(Unbounded)` exactly when the loop reports it. -/
theorem slow_simplex_entry_unbounded_iff {α : Type} [Arith α] (tol : α) (se p1 : Nat) (lm : LinModel α) (limit : Int) :
    SlowSimplex.solveReal tol se p1 lm limit = .err "Unbounded" ↔
      ∃ sm T, Standardize.standardize lm = .ok sm ∧ Tableau.intoTableau tol se p1 sm = .ok T ∧
        (Tableau.solve tol se limit.toNat [] T).result = .error .unbounded :=
  SlowSimplex.solveReal_unbounded_iff tol se p1 lm limit

/-- `Err(Infeasible)` exactly when `into_tableau` reports `Infesible`. -/
theorem slow_simplex_entry_infeasible_iff {α : Type} [Arith α] (tol : α) (se p1 : Nat) (lm : LinModel α) (limit : Int) :
    SlowSimplex.solveReal tol se p1 lm limit = .err "Infeasible" ↔
      ∃ sm, Standardize.standardize lm = .ok sm ∧ Tableau.intoTableau tol se p1 sm = .error .infeasible :=
  SlowSimplex.solveReal_infeasible_iff tol se p1 lm limit

/-! #### non-vacuity (`K = ℚ`) -/
section examples
attribute [local instance 2000] fieldExact
open ComposeSimplex

/-- a split free variable: `min y s.t. y ≥ −3`, `y` free; the standard form has columns `$py, $my, $su_1`; the feasible
point `(0, 3, 0)` is mapped back by `as_lp_solution` to `y = −3`, which is feasible for the original. -/
example : (asLpSolution exFreeStd.vars ([0, 3, 0].map Ext.fin) (Ext.fin (-3))).valueOf "y" = some (Val.real (Ext.fin (-3 : ℚ))) ∧
    LinFeasible exFree [-3] := by
  obtain ⟨_, hval, hfeas, _⟩ := asLpSolution_feasible_partial exFree_wf (by simp [exFree]) (by decide) exFree_std
    [0, 3, 0] exFree_point (Ext.fin (-3))
  rw [exFree_preimage] at hval hfeas
  exact ⟨by simpa [exFree] using hval 0 (by simp [exFree]), hfeas⟩

/-- the SHARP name hypothesis at work: the free variable is CALLED `$sl_y` (an internal prefix).  No kept variable
exists, so `asLpSolution_feasible_kept_partial` applies, and `as_lp_solution` hands back `$sl_y = −3`. -/
example : (asLpSolution exFreeSlStd.vars ([0, 3, 0].map Ext.fin) (Ext.fin (-3))).valueOf "$sl_y" =
    some (Val.real (Ext.fin (-3 : ℚ))) := by
  obtain ⟨_, hval, _, _⟩ := asLpSolution_feasible_kept_partial exFreeSl_wf (by simp [exFreeSl])
    (by rw [exFreeSl_flags]; simp [exFreeSl, StdLayout.keep]) exFreeSl_std [0, 3, 0] exFreeSl_point (Ext.fin (-3))
  rw [exFreeSl_preimage] at hval
  simpa [exFreeSl] using hval 0 (by simp [exFreeSl])

/-- `slow_simplex_solution_exact_partial` applies to `min −x s.t. x ≤ 2, x ≥ 0` (tableau `exT`, one pivot): the
hypotheses are jointly satisfiable. -/
example : ∃ x : List ℚ, LinFeasible exMin x ∧ (∀ x', LinFeasible exMin x' → obj exMin x ≤ obj exMin x') := by
  obtain ⟨x, hx, hopt, _⟩ := slow_simplex_solution_exact_partial exMin_wf (by simp [exMin]) (by decide) exMin_std
    exT_canonicalFor 1 10 [] exT_solve.1
  exact ⟨x, hx, fun x' hx' => (hopt x' hx').1 rfl⟩

end examples
end AsLpSolution

end Rooc.Props.C04
