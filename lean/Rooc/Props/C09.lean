/- C09 — property theorems only (helper lemmas live in `Rooc/Proofs`). -/
namespace Rooc.Props.C09
end Rooc.Props.C09
