/-
C09 — Expressions parse with the documented precedence and associativity.
PROPERTY THEOREMS ONLY (helper lemmas live in `Rooc/Proofs`).
-/
import Lean
import Rooc.Syntax.Parse
namespace Rooc.Props.C09
open Rooc Rooc.Syntax

/-- The documented operator table (properties.jsonl C09): level 1 = loosest. -/
def docLevel : BinOp → Nat
  | .implies | .iff => 1
  | .or => 2
  | .xor => 3
  | .and => 4
  | .add | .sub => 5
  | .mul | .div => 6
def docRightAssoc : BinOp → Bool
  | .implies => true
  | _ => false
/-- the pest rule that carries each operator -/
def docRule : BinOp → String
  | .add => "add" | .sub => "sub" | .mul => "mul" | .div => "div" | .and => "and_op" | .or => "or_op"
  | .xor => "xor_op" | .implies => "implies_op" | .iff => "iff_op"
def docUnRule : UnOp → String
  | .neg => "neg" | .not => "not_op"

def allBinOps : List BinOp := [.add, .sub, .mul, .div, .and, .or, .xor, .implies, .iff]

/-- The REGENERATED Pratt table is the documented one: binding power `10 + 10·level`, `implies`
right-associative, everything else left-associative, both prefix operators above every infix. -/
theorem table_documented :
    (∀ o ∈ allBinOps, getOp (docRule o) = some (if docRightAssoc o then .inR else .inL, 10 + 10 * docLevel o)
        ∧ infixArm (docRule o) = some o)
    ∧ (∀ u ∈ [UnOp.neg, UnOp.not], getOp (docUnRule u) = some (.pre, 80) ∧ prefixArm (docUnRule u) = some u) := by
  decide

end Rooc.Props.C09
