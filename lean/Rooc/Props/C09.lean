/-
C09 — Expressions parse with the documented precedence and associativity.
PROPERTY THEOREMS ONLY (helper lemmas live in `Rooc/Proofs`).

Vocabulary: `parseToks : List Tok → Except PErr PExp` is the executable model of the PEG rules reachable
from `exp` + pest's Pratt loop over the REGENERATED operator table (`Rooc/Syntax/Parse.lean`, diffed
against the real parser on every run); `Doc.*` is the documented table (`Rooc/Syntax/Doc.lean`);
`Tk t ts items` is the rendering relation "the token list `ts` writes down the tree `t`" with any operator
spelling, any SUPERSET of the needed parentheses, implicit products and calls (`Rooc/Proofs/Group.lean`);
`render alias t` is the minimal-parenthesis printer built from the documented rules only.
-/
import Lean
import Rooc.Proofs.Render
import Rooc.Proofs.LexSpell
import Rooc.Proofs.Total
namespace Rooc.Props.C09
open Rooc Rooc.Syntax Rooc.Syntax.Doc Rooc.Syntax.Proofs

def allBinOps : List BinOp := [.add, .sub, .mul, .div, .and, .or, .xor, .implies, .iff]

/-- The REGENERATED Pratt table is the documented one: binding power `10 + 10·level`, `implies`
right-associative, every other operator left-associative (so `implies` and `iff` share the lowest level
and keep their own associativity), both prefix operators above every infix, and every rule is mapped
to its own operator by `map_infix` / `map_prefix`. -/
theorem table_documented :
    (∀ o ∈ allBinOps, getOp (docRule o) = some (if docRightAssoc o then .inR else .inL, 10 + 10 * docLevel o)
        ∧ infixArm (docRule o) = some o)
    ∧ (∀ u ∈ [UnOp.neg, UnOp.not], getOp (docUnRule u) = some (.pre, 80) ∧ prefixArm (docUnRule u) = some u) := by
  decide

/-- **General round trip** (`printer_roundtrip`): ANY way of writing a tree down — any spelling of the
operators (keywords or `&& || ! -> <->`), any superset of the needed parentheses, implicit products,
calls — is read back as that tree. -/
theorem printer_roundtrip {t : PExp} {ts : List Tok} {items : List Item} (h : Tk t ts items) :
    parseToks ts = .ok t := parse_tk h

/-- **`parse (render t) = t`** for every tree of the sub-language, with the minimal-parenthesis printer
defined from the documented rules only, in both spellings. -/
theorem parse_print (alias : Bool) (t : PExp) (h : WF t) : parseToks (render alias t) = .ok t := by
  obtain ⟨items, hk, _⟩ := render_tk alias t h
  exact parse_tk hk

example : WF (.bin .sub (.var "x") (.bin .sub (.un .neg (.var "y")) (.bin .mul (.int 2) (.call "f" [.var "z", .num "2.5"])))) := by
  simp [WF, WF.WFs]; decide

/-- the symbolic aliases mean the same as the keywords -/
theorem alias_eq (t : PExp) (h : WF t) : parseToks (render true t) = parseToks (render false t) := by
  rw [parse_print true t h, parse_print false t h]

/-- Two binary operators in a row group by the DOCUMENTED levels, for every pair of operators and every
spelling: `a o1 b o2 c` is `(a o1 b) o2 c` when `o1` is on a tighter level, or on the same level and left
associative; otherwise it is `a o1 (b o2 c)`. -/
theorem operator_pair (o1 o2 : BinOp) (al1 al2 : Bool) {a b c : PExp} {ta tb tc : Tok}
    (ha : Atom a ta) (hb : Atom b tb) (hc : Atom c tc) :
    parseToks [ta, binTokS al1 o1, tb, binTokS al2 o2, tc] =
      .ok (if docLevel o1 > docLevel o2 ∨ (docLevel o1 = docLevel o2 ∧ docRightAssoc o1 = false)
           then .bin o2 (.bin o1 a b) c else .bin o1 a (.bin o2 b c)) := by
  by_cases hg : docLevel o1 > docLevel o2 ∨ (docLevel o1 = docLevel o2 ∧ docRightAssoc o1 = false)
  · simp only [hg, if_true]
    have hnp : needParenLeft o2 (.bin o1 a b) = false := by
      simp only [needParenLeft]; revert hg; cases o1 <;> cases o2 <;> decide
    exact parse_tk (Tk.bin (Tk.bin (Tk.atom ha) (Tk.atom hb) (Or.inl rfl) (Or.inl rfl) (binTokS_mem al1 o1))
      (Tk.atom hc) (Or.inr hnp) (Or.inl rfl) (binTokS_mem al2 o2))
  · simp only [hg, if_false]
    have hnp : needParenRight o1 (.bin o2 b c) = false := by
      simp only [needParenRight]; revert hg; cases o1 <;> cases o2 <;> decide
    exact parse_tk (Tk.bin (Tk.atom ha)
      (Tk.bin (Tk.atom hb) (Tk.atom hc) (Or.inl rfl) (Or.inl rfl) (binTokS_mem al2 o2))
      (Or.inl rfl) (Or.inr hnp) (binTokS_mem al1 o1))

/-- `a -> b <-> c` is `a -> (b <-> c)` -/
theorem implies_then_iff {a b c : PExp} {ta tb tc : Tok} (ha : Atom a ta) (hb : Atom b tb) (hc : Atom c tc) :
    parseToks [ta, .arrow, tb, .darrow, tc] = .ok (.bin .implies a (.bin .iff b c)) := by
  simpa [binTokS, docLevel, docRightAssoc] using operator_pair .implies .iff true true ha hb hc

/-- `a <-> b -> c` is `(a <-> b) -> c` -/
theorem iff_then_implies {a b c : PExp} {ta tb tc : Tok} (ha : Atom a ta) (hb : Atom b tb) (hc : Atom c tc) :
    parseToks [ta, .darrow, tb, .arrow, tc] = .ok (.bin .implies (.bin .iff a b) c) := by
  simpa [binTokS, docLevel, docRightAssoc] using operator_pair .iff .implies true true ha hb hc

/-- `a -> b -> c` is `a -> (b -> c)`, `a - b - c` is `(a - b) - c` -/
theorem implies_right_assoc {a b c : PExp} {ta tb tc : Tok} (ha : Atom a ta) (hb : Atom b tb) (hc : Atom c tc) :
    parseToks [ta, .word "implies", tb, .word "implies", tc] = .ok (.bin .implies a (.bin .implies b c)) := by
  simpa [binTokS, docLevel, docRightAssoc] using operator_pair .implies .implies false false ha hb hc
theorem sub_left_assoc {a b c : PExp} {ta tb tc : Tok} (ha : Atom a ta) (hb : Atom b tb) (hc : Atom c tc) :
    parseToks [ta, .minus, tb, .minus, tc] = .ok (.bin .sub (.bin .sub a b) c) := by
  simpa [binTokS, docLevel, docRightAssoc] using operator_pair .sub .sub false false ha hb hc

/-- a prefix operator binds tighter than every binary operator: `-a o b` is `(-a) o b`, `not a o b` is
`(not a) o b` -/
theorem unary_binds_tightest (u : UnOp) (o : BinOp) (alu alo : Bool) {a b : PExp} {ta tb : Tok}
    (ha : Atom a ta) (hb : Atom b tb) :
    parseToks [unTokS alu u, ta, binTokS alo o, tb] = .ok (.bin o (.un u a) b) :=
  parse_tk (Tk.bin (Tk.un (Tk.atom ha) (unTokS_mem alu u)) (Tk.atom hb) (Or.inr rfl) (Or.inl rfl) (binTokS_mem alo o))

/-- … also on the right of an operator: `a o -b` is `a o (-b)` -/
theorem unary_right_operand (u : UnOp) (o : BinOp) (alu alo : Bool) {a b : PExp} {ta tb : Tok}
    (ha : Atom a ta) (hb : Atom b tb) :
    parseToks [ta, binTokS alo o, unTokS alu u, tb] = .ok (.bin o a (.un u b)) :=
  parse_tk (Tk.bin (Tk.atom ha) (Tk.un (Tk.atom hb) (unTokS_mem alu u)) (Or.inl rfl) (Or.inr rfl) (binTokS_mem alo o))

/-- **An implicit product is a single factor**: numbers / parenthesised groups written next to each
other, optionally closed by a variable (`2x`, `2(x+1)`, `(a)(b)c`), are ONE operand of whatever operator
stands before them — `a / 2x` is `a / (2*x)` — and of a prefix operator: `-2x` is `-(2*x)`. -/
theorem implicit_product_single_factor (o : BinOp) (al : Bool) {a p : PExp} {ta : Tok} {ps vs : List PExp}
    {ts vts : List Tok} (ha : Atom a ta) (hj : Juxt (p :: ps) ts) (hv : VarTail vs vts) (hn : 1 ≤ (ps ++ vs).length) :
    parseToks (ta :: binTokS al o :: (ts ++ vts)) = .ok (.bin o a (mulAll p (ps ++ vs))) := by
  have := parse_tk (Tk.bin (Tk.atom ha) (Tk.imul hj hv hn) (Or.inl rfl) (Or.inl rfl) (binTokS_mem al o))
  simpa using this

theorem implicit_product_under_prefix (u : UnOp) (al : Bool) {p : PExp} {ps vs : List PExp}
    {ts vts : List Tok} (hj : Juxt (p :: ps) ts) (hv : VarTail vs vts) (hn : 1 ≤ (ps ++ vs).length) :
    parseToks (unTokS al u :: (ts ++ vts)) = .ok (.un u (mulAll p (ps ++ vs))) :=
  parse_tk (Tk.un (Tk.imul hj hv hn) (unTokS_mem al u))

/-- `a / 2x = a / (2*x)` -/
example : parseToks [.word "a", .slash, .int "2", .word "x"] = .ok (.bin .div (.var "a") (.bin .mul (.int 2) (.var "x"))) := by
  have h2 : digitsToNat "2".toList ≤ i64Max := by decide
  have := implicit_product_single_factor .div false (Atom.var "a" (by decide))
    (Juxt.int h2 Juxt.nil) (VarTail.var "x" (by decide)) (by simp)
  simpa [binTokS, mulAll, digitsToNat] using this

/-- `a / 2(x+1) = a / (2*(x+1))` and `a / (b)(c)d = a / ((b*c)*d)` -/
example : parseToks [.word "a", .slash, .int "2", .lpar, .word "x", .plus, .int "1", .rpar] =
    .ok (.bin .div (.var "a") (.bin .mul (.int 2) (.bin .add (.var "x") (.int 1)))) := by
  have h2 : digitsToNat "2".toList ≤ i64Max := by decide
  have h1 : digitsToNat "1".toList ≤ i64Max := by decide
  have hx : Tk (.bin .add (.var "x") (.int (digitsToNat "1".toList))) ([.word "x"] ++ .plus :: [.int "1"]) _ :=
    Tk.bin (Tk.atom (Atom.var "x" (by decide))) (Tk.atom (Atom.int "1" h1)) (Or.inl rfl) (Or.inl rfl)
      (by simp [binToks] : Tok.plus ∈ binToks .add)
  have := implicit_product_single_factor .div false (Atom.var "a" (by decide))
    (Juxt.int h2 (Juxt.paren hx Juxt.nil)) VarTail.none (by simp)
  simpa [binTokS, mulAll, digitsToNat] using this

/-- **Identifiers that merely start with a keyword stay identifiers**: every word that is not itself a
keyword — `android`, `mins`, `iffy`, and also `truex`, `falsey`, `True` — is read as a variable. -/
theorem keyword_prefix_ident (n : String) (hk : isKeyword n = false) : parseToks [.word n] = .ok (.var n) :=
  parse_tk (Tk.atom (Atom.var n hk))

example : ∀ n ∈ ["android", "order", "nothing", "iffy", "xor1", "implies2", "mins", "format", "inx", "ast", "lets", "And",
    "$and", "_or", "truex", "falsey", "true1", "truetrue", "True", "FALSE", "trueand"], isKeyword n = false := by decide

/-- regression examples for the defect repaired in cf0e033 (`boolean` had no boundary look-ahead and was
case-insensitive): `truex` is a variable, `trueand x` is NOT `true and x`, `2 truex` is `2 * truex` -/
example : parseToks [.word "truex"] = .ok (.var "truex") := keyword_prefix_ident "truex" (by decide)
example : parseToks [.word "True"] = .ok (.var "True") := keyword_prefix_ident "True" (by decide)
example : parseToks [.word "trueand", .word "x"] = .error .reject := by
  have hl : ∀ f, leaf (f+2) [.word "trueand", .word "x"] = .ok (.var "trueand", [.word "x"]) := by
    intro f
    rw [leaf_word _ _ _ (by intro tl; simp)]
    simp [wordLeaf, Gen.booleanWords, isKeyword, Gen.keywords]
  have hb : binRule (.word "x") = none := by decide
  simp [parseToks, parseToksRaw, parseFuel, parseExp, collect, optUnary_word (w := "trueand") (by decide), hl, collectLoop, hb,
    prattParse, expr, nud, loop, lbp]

/-! ### the whole regenerated grammar data is the documented one; what the grammar rejects -/

/-- The REGENERATED keyword list, operator spellings (keywords with the boundary look-ahead and the symbolic
aliases), the alternatives of `binary_op` / `unary_op` and the boolean words are the documented ones. -/
theorem grammar_tables_documented :
    Gen.keywords = ["for", "min", "max", "where", "true", "false", "in", "as", "define", "let", "solve", "and", "or", "not",
      "implies", "iff", "xor"]
    ∧ Gen.opSpellings = [("mul", "sym", "*"), ("add", "sym", "+"), ("sub", "sym", "-"), ("div", "sym", "/"), ("neg", "sym", "-"),
        ("and_op", "word", "and"), ("and_op", "sym", "&&"), ("or_op", "word", "or"), ("or_op", "sym", "||"),
        ("xor_op", "word", "xor"), ("implies_op", "word", "implies"), ("implies_op", "sym", "->"),
        ("iff_op", "word", "iff"), ("iff_op", "sym", "<->"), ("not_op", "word", "not"), ("not_op", "sym", "!")]
    ∧ Gen.binaryOpAlts = ["mul", "add", "iff_op", "implies_op", "sub", "div", "or_op", "xor_op", "and_op"]
    ∧ Gen.unaryOpAlts = ["neg", "not_op"]
    ∧ Gen.booleanWords = ["true", "false"] := by decide

/-- every documented spelling of a binary / prefix operator is read as that operator's rule -/
theorem spellings_read (o : BinOp) (u : UnOp) :
    (∀ tk ∈ binToks o, binRule tk = some (docRule o)) ∧ (∀ tk ∈ unToks u, unRule tk = some (docUnRule u)) :=
  ⟨fun _ h => binRule_of_mem h, fun _ h => unRule_of_mem h⟩

/-- **A comparison is not an operator of the expression language**: an expression followed by `<= >= = < >`
(so in particular a comparison chain `a <= b <= c` inside an expression) is rejected. -/
theorem comparison_in_expression_rejected {t : PExp} {ts : List Tok} {items : List Item} (h : Tk t ts items)
    (tk : Tok) (hc : tk = .le ∨ tk = .ge ∨ tk = .eq ∨ tk = .lt ∨ tk = .gt) (rest : List Tok) :
    parseToks (ts ++ tk :: rest) = .error .reject := by
  have hterm : isTerm tk = true := by rcases hc with rfl | rfl | rfl | rfl | rfl <;> rfl
  have hw : ∀ w, tk ≠ .word w := by rcases hc with rfl | rfl | rfl | rfl | rfl <;> (intro w e; cases e)
  have := parseExp_of_main (tk_main h).1 h.toIR (closed_of_term hterm hw rest) (parseFuel (ts ++ tk :: rest)) (by simp [parseFuel])
  simp [parseToks, parseToksRaw, this]

/-- a second prefix operator is not part of the grammar (`exp = unary_op? ~ exp_leaf ~ …`): `- - x`, `- ! x`,
`not - x`, `! ! x` are rejected -/
theorem second_prefix_rejected (u : UnOp) (al : Bool) (tk : Tok) (h2 : tk = .minus ∨ tk = .bang) (rest : List Tok) :
    parseToks (unTokS al u :: tk :: rest) = .error .reject := by
  have hu : optUnary (unTokS al u :: tk :: rest) = ([.op (docUnRule u)], tk :: rest) :=
    optUnary_of_mem (unTokS_mem al u) _ (by rcases h2 with rfl | rfl <;> (intro tl e; cases e))
  have hf : parseFuel (unTokS al u :: tk :: rest) = (6 * rest.length + 19) + 3 := by simp [parseFuel]; omega
  have hl : leaf (6 * rest.length + 19 + 1) (tk :: rest) = .error .reject := by
    rcases h2 with rfl | rfl <;> simp [leaf]
  simp only [parseToks, parseToksRaw, hf, parseExp, collect, hu, hl]

/-! ### totality of the parser model -/

/-- **The parser never panics**: the pairs that the PEG rule `exp` hands to pest's Pratt driver are always
`[prefix] leaf (infix [prefix] leaf)*` with operators that are in the (regenerated) table with the right
affix, so none of the driver's `panic!` / `expect` sites is reachable — for EVERY token sequence. -/
theorem parse_never_panics (toks : List Tok) : parseToks toks ≠ .error .panic := parseToks_no_panic toks

/-- **The model is total**: with the fuel `parseToks` passes, every token sequence is answered with a tree or
with `reject` (never `fuel`, never `panic`). -/
theorem parse_total (toks : List Tok) : (∃ t, parseToks toks = .ok t) ∨ parseToks toks = .error .reject :=
  parseToks_total toks

/-! ### from tokens to text -/

/-- **Lexer round trip**: a token sequence written with single spaces (`spell`) is cut back into itself. -/
theorem lexer_roundtrip (ts : List Tok) (h : ∀ t ∈ ts, TokOK t) : lex (spell ts) = .ok ts := lex_spell ts h

/-- **`parseText (text of (render t)) = t`**: the minimal-parenthesis rendering of every tree with plain
names, written as text, is read back as that tree (lexer + PEG fragment + Pratt loop). -/
theorem parse_print_text (alias : Bool) (t : PExp) (h : WF t) (ht : TextOK t) :
    parseText (spell (render alias t)) = .ok t := by
  simp only [parseText, lex_spell _ (render_tokOK alias t ht), parse_print alias t h]

example : TextOK (.bin .sub (.var "x") (.bin .sub (.un .neg (.var "y")) (.bin .mul (.int 2) (.call "f" [.var "z", .num "2.5"])))) := by
  have hx : plainWord "x".toList = true := by decide
  have hy : plainWord "y".toList = true := by decide
  have hz : plainWord "z".toList = true := by decide
  have hf : plainWord "f".toList = true := by decide
  have hnum : FloatParts "2.5" := ⟨['2'], ['5'], by decide, by decide, by decide, by decide, by decide⟩
  exact ⟨hx, hy, trivial, hf, hz, hnum, trivial⟩

/-! ### the laws named in the property text, on the TEXTS themselves (`parseText` = lexer + `parseToks`) -/

private theorem vA : Atom (.var "a") (.word "a") := Atom.var "a" (by decide)
private theorem vB : Atom (.var "b") (.word "b") := Atom.var "b" (by decide)
private theorem vC : Atom (.var "c") (.word "c") := Atom.var "c" (by decide)
private theorem vX : Atom (.var "x") (.word "x") := Atom.var "x" (by decide)
private theorem i1 : Atom (.int 1) (.int "1") := Atom.int "1" (by decide)
private theorem i2 : Atom (.int 2) (.int "2") := Atom.int "2" (by decide)

theorem text_of_toks {s : String} {ts : List Tok} {t : PExp} (hl : lex s.toList = .ok ts) (hp : parseToks ts = .ok t) :
    parseText s.toList = .ok t := by
  simp [parseText, hl, hp]

/-- `a -> b <-> c` is `a -> (b <-> c)` -/
theorem text_implies_iff :
    parseText "a -> b <-> c".toList = .ok (.bin .implies (.var "a") (.bin .iff (.var "b") (.var "c"))) :=
  text_of_toks (by decide) (implies_then_iff vA vB vC)

/-- `a <-> b -> c` is `(a <-> b) -> c` -/
theorem text_iff_implies :
    parseText "a <-> b -> c".toList = .ok (.bin .implies (.bin .iff (.var "a") (.var "b")) (.var "c")) :=
  text_of_toks (by decide) (iff_then_implies vA vB vC)

/-- the keyword spelling reads the same: `a implies b iff c` -/
theorem text_implies_iff_keywords :
    parseText "a implies b iff c".toList = parseText "a -> b <-> c".toList := by
  rw [text_implies_iff]
  exact text_of_toks (ts := [.word "a", .word "implies", .word "b", .word "iff", .word "c"]) (by decide)
    (by simpa [binTokS, docLevel, docRightAssoc] using operator_pair .implies .iff false false vA vB vC)

/-- `-a * b` is `(-a) * b` and `not a and b` is `(not a) and b` -/
theorem text_unary_tighter :
    parseText "-a * b".toList = .ok (.bin .mul (.un .neg (.var "a")) (.var "b"))
    ∧ parseText "not a and b".toList = .ok (.bin .and (.un .not (.var "a")) (.var "b"))
    ∧ parseText "!a && b".toList = .ok (.bin .and (.un .not (.var "a")) (.var "b")) :=
  ⟨text_of_toks (ts := [.minus, .word "a", .star, .word "b"]) (by decide)
     (by simpa [binTokS, unTokS] using unary_binds_tightest .neg .mul false false vA vB),
   text_of_toks (ts := [.word "not", .word "a", .word "and", .word "b"]) (by decide)
     (by simpa [binTokS, unTokS] using unary_binds_tightest .not .and false false vA vB),
   text_of_toks (ts := [.bang, .word "a", .ampamp, .word "b"]) (by decide)
     (by simpa [binTokS, unTokS] using unary_binds_tightest .not .and true true vA vB)⟩

/-- `2x`, `2(x+1)` and `(a)(b)c` are single factors: `a / 2x = a / (2*x)`, `a / 2(x+1) = a / (2*(x+1))`,
`a / (a)(b)c = a / ((a*b)*c)` -/
theorem text_implicit_products :
    parseText "a / 2x".toList = .ok (.bin .div (.var "a") (.bin .mul (.int 2) (.var "x")))
    ∧ parseText "a / 2(x+1)".toList = .ok (.bin .div (.var "a") (.bin .mul (.int 2) (.bin .add (.var "x") (.int 1))))
    ∧ parseText "a / (a)(b)c".toList = .ok (.bin .div (.var "a") (.bin .mul (.bin .mul (.var "a") (.var "b")) (.var "c"))) := by
  have h2 : digitsToNat "2".toList ≤ i64Max := by decide
  refine ⟨text_of_toks (ts := [.word "a", .slash, .int "2", .word "x"]) (by decide) ?_,
    text_of_toks (ts := [.word "a", .slash, .int "2", .lpar, .word "x", .plus, .int "1", .rpar]) (by decide) ?_,
    text_of_toks (ts := [.word "a", .slash, .lpar, .word "a", .rpar, .lpar, .word "b", .rpar, .word "c"]) (by decide) ?_⟩
  · have := implicit_product_single_factor .div false vA (Juxt.int h2 Juxt.nil) (VarTail.var "x" (by decide)) (by simp)
    simpa [binTokS, mulAll, digitsToNat] using this
  · have hx : Tk (.bin .add (.var "x") (.int 1)) ([.word "x"] ++ .plus :: [.int "1"]) _ :=
      Tk.bin (Tk.atom vX) (Tk.atom i1) (Or.inl rfl) (Or.inl rfl) (by simp [binToks] : Tok.plus ∈ binToks .add)
    have := implicit_product_single_factor .div false vA (Juxt.int h2 (Juxt.paren hx Juxt.nil)) VarTail.none (by simp)
    simpa [binTokS, mulAll, digitsToNat] using this
  · have := implicit_product_single_factor .div false vA
      (Juxt.paren (Tk.atom vA) (Juxt.paren (Tk.atom vB) Juxt.nil)) (VarTail.var "c" (by decide)) (by simp)
    simpa [binTokS, mulAll] using this

/-- identifiers that merely start with a keyword: `android + nothing` are two variables … -/
theorem text_keyword_prefixed :
    parseText "android + nothing".toList = .ok (.bin .add (.var "android") (.var "nothing")) :=
  text_of_toks (ts := [.word "android", .plus, .word "nothing"]) (by decide)
    (by simpa [binTokS, docLevel] using
      parse_tk (Tk.bin (Tk.atom (Atom.var "android" (by decide))) (Tk.atom (Atom.var "nothing" (by decide)))
        (Or.inl rfl) (Or.inl rfl) (by simp [binToks] : Tok.plus ∈ binToks .add)))

end Rooc.Props.C09
