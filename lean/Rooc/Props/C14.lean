/- C14 — property theorems (work in progress). -/
import Rooc.Proofs.Field
namespace Rooc.Props.C14
end Rooc.Props.C14
