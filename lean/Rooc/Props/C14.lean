/-
C14 — Every simplex step preserves equivalence, feasibility and monotonicity.  PROPERTY THEOREMS ONLY
(lemmas live in `Rooc/Proofs/{Pivot,Step,BasicSol,Optimal,Feasible,Unbounded}.lean`).

The theorems are about the very functions of `Rooc/Tableau.lean` that are diffed bit-for-bit against
`tableau.rs` at `Float`, here instantiated at an arbitrary linearly ordered field `K` with exact arithmetic
(`exactArith`, `Rooc/Proofs/FieldArith.lean`).  `tol` is the tolerance of `math_utils.rs`; statements
that hold for every `tol` say so, statements that need exact comparisons are stated at `tol = 0` and come
with a proved counterexample for `tol > 0`.  Vocabulary (`Sol`, `Canon`, `Feasible`, `ObjInv`,
`basicSolution`): `Rooc/TabSem.lean`.
-/
import Rooc.Proofs.Term3
import Mathlib.Algebra.Order.Field.Rat
import Mathlib.Tactic.NormNum
namespace Rooc.Props.C14
open Rooc Tableau TabSem
variable {K : Type} [Field K] [LinearOrder K] [IsStrictOrderedRing K]
attribute [local instance] exactArith

/-- **pivot_equiv.** Pivoting on ANY non-zero element keeps the solution set of `[A | b]`. -/
theorem pivot_equiv {T : Tab K} {m n : Nat} (hR : Rect T m n) {t h : Nat} (ht : t < m)
    (hp : nth (row T.a t) h ≠ 0) (x : List K) : Sol (pivot T t h) x ↔ Sol T x :=
  PivotLemmas.pivot_sol hR ht hp x

/-- **pivot_basis.** Canonical form (rectangular, basic columns are unit columns, basic indices in range,
basic reduced costs zero) survives a pivot on any non-zero element of a column `h < n`. -/
theorem pivot_basis {T : Tab K} {m n : Nat} (hC : Canon T m n) {t h : Nat} (ht : t < m) (hh : h < n)
    (hp : nth (row T.a t) h ≠ 0) : Canon (pivot T t h) m n :=
  PivotLemmas.pivot_canon hC ht hh hp

/-- **pivot_feasible** (exact comparisons).  The row chosen by `find_t` keeps `b ≥ 0`. -/
theorem pivot_feasible {T : Tab K} {m n : Nat} (hR : Rect T m n) (hF : Feasible T) {h : Nat}
    {prefer : List Nat} {t : Nat} {ratio : K} (hf : findT (0:K) T h prefer = some (t, ratio)) :
    Feasible (pivot T t h) :=
  FeasibleLemmas.pivot_feasible_exact hR hF hf

/-- **pivot_monotone.** Entering a column of non-positive reduced cost on a positive pivot with `b_t ≥ 0`
never decreases `current_value`, i.e. never increases the objective `−current_value`. -/
theorem pivot_monotone {T : Tab K} {t h : Nat} (hc : nth T.c h ≤ 0) (hp : 0 < nth (row T.a t) h)
    (hb : 0 ≤ nth T.b t) : T.value ≤ (pivot T t h).value :=
  PivotLemmas.pivot_value_ge hc hp hb

/-- **value_tracks_objective.** In canonical form the basic solution solves the system and `current_value`
is minus its objective (for the objective `c0` that `(c, value)` represent on the solution set). -/
theorem value_tracks_objective {T : Tab K} {m n : Nat} (hC : Canon T m n) {c0 : List K} (hO : ObjInv T c0) :
    Sol T (basicSolution T) ∧ dot c0 (basicSolution T) = -T.value :=
  ⟨BasicSol.basicSolution_sol hC, BasicSol.basicSolution_objective hC hO⟩

/-- **step_preserves** (every tolerance, Dantzig or Bland, any preference list).  One `step_inner` keeps
the canonical form, the solution set and the represented objective; on a feasible tableau `current_value`
does not decrease. -/
theorem step_preserves {tol : K} {T T' : Tab K} {m n : Nat} (hC : Canon T m n) {prefer : List Nat}
    {bland : Bool} {act : StepAction K} (hs : stepInner tol T prefer bland = .ok (act, T')) :
    Canon T' m n ∧ (∀ x, Sol T' x ↔ Sol T x) ∧ (∀ c0, ObjInv T c0 → ObjInv T' c0) ∧
      (Feasible T → T.value ≤ T'.value) :=
  StepLemmas.stepInner_preserves hC hs

/-- **steps_preserve** (induction over the history; every tolerance).  Wherever the loop of
`solve_avoiding` / `solve_step_by_step` stops — success, `Unbounded`, or iteration limit, after any number
of Dantzig and Bland steps — the tableau is canonical, equivalent to the start, and represents the same
objective. -/
theorem steps_preserve {tol : K} {T : Tab K} {m n : Nat} (hC : Canon T m n) (stallExtra limit : Nat)
    (prefer : List Nat) :
    Canon (solve tol stallExtra limit prefer T).final m n ∧
    (∀ x, Sol (solve tol stallExtra limit prefer T).final x ↔ Sol T x) ∧
    (∀ c0, ObjInv T c0 → ObjInv (solve tol stallExtra limit prefer T).final c0) :=
  StepLemmas.solveLoop_preserves limit T 0 T.value [] hC

/-- **steps_feasible_monotone** (exact comparisons).  Along the whole loop the basic solution stays
non-negative and the objective `−current_value` never gets worse. -/
theorem steps_feasible_monotone {T : Tab K} {m n : Nat} (hC : Canon T m n) (hF : Feasible T)
    (stallExtra limit : Nat) (prefer : List Nat) :
    Feasible (solve (0:K) stallExtra limit prefer T).final ∧
    T.value ≤ (solve (0:K) stallExtra limit prefer T).final.value :=
  FeasibleLemmas.solveLoop_feasible_exact limit T 0 T.value [] hC hF

/-- **finished_optimal** (every tolerance `tol ≥ 0`).  When a step answers `Finished`, the basic solution
is optimal up to `tol·Σx`: for every non-negative solution `x`, `c0·x_B ≤ c0·x + tol·Σx`. -/
theorem finished_optimal {tol : K} (htol : 0 ≤ tol) {T T' : Tab K} {m n : Nat} (hC : Canon T m n)
    {c0 : List K} (hO : ObjInv T c0) {prefer : List Nat} {bland : Bool}
    (hs : stepInner tol T prefer bland = .ok (.finished, T')) (x : List K) (hxl : x.length = n)
    (hS : Sol T x) (hx : NonNeg x) :
    dot c0 (basicSolution T) ≤ dot c0 x + tol * x.sum :=
  Optimal.finished_near_optimal htol hC hO hs x hxl hS hx

/-- **finished_optimal_exact.**  With exact comparisons `Finished` means optimal, and the basic solution is
itself a non-negative solution when the tableau is feasible. -/
theorem finished_optimal_exact {T T' : Tab K} {m n : Nat} (hC : Canon T m n) (hF : Feasible T)
    {c0 : List K} (hO : ObjInv T c0) {prefer : List Nat} {bland : Bool}
    (hs : stepInner (0:K) T prefer bland = .ok (.finished, T')) :
    Sol T (basicSolution T) ∧ (∀ j, 0 ≤ nth (basicSolution T) j) ∧
    ∀ x : List K, x.length = n → Sol T x → NonNeg x → dot c0 (basicSolution T) ≤ dot c0 x := by
  refine ⟨BasicSol.basicSolution_sol hC, BasicSol.basicSolution_nonneg hC hF, ?_⟩
  intro x hxl hS hx
  have := Optimal.finished_near_optimal (le_refl (0:K)) hC hO hs x hxl hS hx
  simpa using this

/-- **unbounded_genuine** (exact comparisons).  When a step answers `Unbounded`, the problem has
non-negative solutions with objective below every bound. -/
theorem unbounded_genuine {T : Tab K} {m n : Nat} (hC : Canon T m n) (hF : Feasible T) {c0 : List K}
    (hO : ObjInv T c0) {prefer : List Nat} {bland : Bool} {e : SimplexErr}
    (hs : stepInner (0:K) T prefer bland = .error e) (M : K) :
    ∃ x : List K, x.length = n ∧ Sol T x ∧ (∀ j, 0 ≤ nth x j) ∧ dot c0 x < M :=
  Unbounded.unbounded_genuine hC hF hO hs M

/-! ### the exact-comparison theorems at a tolerance `tol > 0`, on tolerance-separated tableaus

`Bland.Sep tol T` (decidable): every reduced cost and every entry of `T` is `0` or `≥ tol` in magnitude, two ratios of a
column are equal or `≥ tol` apart.  On such a tableau every tolerant predicate of `math_utils` decides as exact
arithmetic would, so the four statements that fail for `tol > 0` in general (see the counterexamples below) hold.
`SepLoop.SepAll tol prefer T`: every tableau the loop can reach from `T` is separated. -/

/-- **pivot_feasible_sep.**  `tol > 0`, `T` separated and feasible: the row chosen by `find_t` keeps `b ≥ 0`. -/
theorem pivot_feasible_sep {tol : K} (ht : 0 < tol) {T : Tab K} {m n : Nat} (hR : Rect T m n) (hS : Bland.Sep tol T)
    (hF : Feasible T) {h : Nat} {prefer : List Nat} {t : Nat} {ratio : K} (hf : findT tol T h prefer = some (t, ratio)) :
    Feasible (pivot T t h) :=
  SepLoop.pivot_feasible_sep ht hR hS hF hf

/-- **steps_feasible_monotone_sep.**  `tol > 0`, the tolerance never decides along the run: wherever the loop stops, the
basic solution is non-negative and the objective `−current_value` has not got worse. -/
theorem steps_feasible_monotone_sep {tol : K} (ht : 0 < tol) {T : Tab K} {m n : Nat} (hC : Canon T m n) (hF : Feasible T)
    (stallExtra limit : Nat) (prefer : List Nat) (hS : SepLoop.SepAll tol prefer T) :
    Feasible (solve tol stallExtra limit prefer T).final ∧ T.value ≤ (solve tol stallExtra limit prefer T).final.value ∧
      SepLoop.SepAll tol prefer (solve tol stallExtra limit prefer T).final :=
  SepLoop.solveLoop_feasible_sep ht limit T 0 T.value [] hC hF hS

/-- **finished_optimal_sep.**  `tol > 0`, `T` separated: `Finished` means optimal, exactly. -/
theorem finished_optimal_sep {tol : K} (ht : 0 < tol) {T T' : Tab K} {m n : Nat} (hC : Canon T m n) (hS : Bland.Sep tol T)
    {c0 : List K} (hO : ObjInv T c0) {prefer : List Nat} {bland : Bool}
    (hs : stepInner tol T prefer bland = .ok (.finished, T')) (x : List K) (hxl : x.length = n)
    (hSol : Sol T x) (hx : NonNeg x) : dot c0 (basicSolution T) ≤ dot c0 x :=
  SepLoop.finished_optimal_sep ht hC hS hO hs x hxl hSol hx

/-- **unbounded_genuine_sep.**  `tol > 0`, `T` separated and feasible: an `Unbounded` answer is genuine. -/
theorem unbounded_genuine_sep {tol : K} (ht : 0 < tol) {T : Tab K} {m n : Nat} (hC : Canon T m n) (hS : Bland.Sep tol T)
    (hF : Feasible T) {c0 : List K} (hO : ObjInv T c0) {prefer : List Nat} {bland : Bool} {e : SimplexErr}
    (hs : stepInner tol T prefer bland = .error e) (M : K) :
    ∃ x : List K, x.length = n ∧ Sol T x ∧ (∀ j, 0 ≤ nth x j) ∧ dot c0 x < M :=
  SepLoop.unbounded_genuine_sep ht hC hS hF hO hs M

/-- **into_tableau_canonical_partial** (direct start).  When `into_tableau` finds an independent column for
every row (the branch that does not need phase 1), the tableau it returns is in canonical form, has the
solution set of the standard form `A x = b`, represents its objective, and is feasible when `b ≥ 0` (which
`to_standard_form` guarantees, C13 `std_shape`).  PARTIAL: needs the decidable hypothesis `NoSubTol` — no
entry of `A` with `0 < |a| < tol` — and `tol > 0`; without it a "basic" column may keep a sub-tolerance entry
in another row (known finding `C14-absolute-tolerance-on-unscaled-data`).  The two-phase start is not covered. -/
theorem into_tableau_canonical_partial {tol : K} (ht : 0 < tol) (sm : StdModel K) (stallExtra phase1Limit : Nat)
    (hrows : ∀ r ∈ sm.rows, r.coeffs.length = sm.vars.length) (hobj : sm.objective.length = sm.vars.length)
    (hN : Start.NoSubTol tol (sm.rows.map (·.coeffs)))
    (hdir : sm.rows.length ≤ (independentColumns tol sm.vars.length (sm.rows.map (·.coeffs))).length ∧
      (selectPerRow sm.rows.length (independentColumns tol sm.vars.length (sm.rows.map (·.coeffs)))).length = sm.rows.length) :
    ∃ T, intoTableau tol stallExtra phase1Limit sm = .ok T ∧ Canon T sm.rows.length sm.vars.length ∧
      ObjInv T sm.objective ∧ (∀ x, Sol T x ↔ Sol (Start.stdTab sm) x) ∧ ((∀ r ∈ sm.rows, 0 ≤ r.rhs) → Feasible T) :=
  Start.intoTableau_direct ht sm stallExtra phase1Limit hrows hobj hN hdir

/-- **phase1_start_canonical.**  The artificial-variable tableau that `into_tableau_two_phase` hands to the
solver is in canonical form, represents the phase-1 objective `Σ artificials`, extends the standard form by
one artificial variable per row (`(x, z)` solves it iff `A x + z = b`), and is feasible when `b ≥ 0`.  Together
with `steps_preserve` every tableau phase 1 visits has these properties. -/
theorem phase1_start_canonical (sm : StdModel K) (hrows : ∀ r ∈ sm.rows, r.coeffs.length = sm.vars.length) :
    Canon (phase1Tab sm) sm.rows.length (sm.vars.length + sm.rows.length) ∧
    ObjInv (phase1Tab sm) (Phase1.phase1Cost sm.vars.length sm.rows.length) ∧
    (∀ x z : List K, x.length = sm.vars.length → z.length = sm.rows.length →
      (Sol (phase1Tab sm) (x ++ z) ↔
        ∀ i, i < sm.rows.length → dot (row (sm.rows.map (·.coeffs)) i) x + nth z i = nth (sm.rows.map (·.rhs)) i)) ∧
    ((∀ r ∈ sm.rows, 0 ≤ r.rhs) → Feasible (phase1Tab sm)) :=
  Phase1.phase1_canonical sm hrows

/-- **phase1_feasible_value_bound** (every `tol ≥ 0`).  If the standard form has a feasible point `x`, the value
`v` at which phase 1 stops with success satisfies `−v ≤ tol·Σx`. -/
theorem phase1_feasible_value_bound {tol : K} (htol : 0 ≤ tol) (sm : StdModel K)
    (hrows : ∀ r ∈ sm.rows, r.coeffs.length = sm.vars.length) (stallExtra limit : Nat) (prefer : List Nat)
    (hok : (solve tol stallExtra limit prefer (phase1Tab sm)).result = .ok ())
    (x : List K) (hxl : x.length = sm.vars.length)
    (hx : ∀ i, i < sm.rows.length → dot (row (sm.rows.map (·.coeffs)) i) x = nth (sm.rows.map (·.rhs)) i)
    (hnn : ∀ v ∈ x, 0 ≤ v) :
    -(solve tol stallExtra limit prefer (phase1Tab sm)).final.value ≤ tol * x.sum :=
  Phase1.phase1_value_bound htol sm hrows stallExtra limit prefer hok x hxl hx hnn

/-- **phase1_nonzero_infeasible_partial.**  When `into_tableau_two_phase` answers `Infesible` (phase 1 stopped at a
value with `|v| ≥ tol`) and that value is `≤ 0` (as it is whenever the final phase-1 basic solution is
non-negative), the standard form has no feasible point with `Σx < 1`.  PARTIAL by nature: with an ABSOLUTE
tolerance on the phase-1 optimum nothing stronger is true (a feasible point far from the origin can leave a
residual `≥ tol`; known finding `C14-absolute-tolerance-on-unscaled-data`). -/
theorem phase1_nonzero_infeasible_partial (tol : K) (htol : 0 < tol) (sm : StdModel K)
    (hrows : ∀ r ∈ sm.rows, r.coeffs.length = sm.vars.length) (stallExtra limit : Nat)
    (h : twoPhase tol stallExtra limit sm = .error .infeasible)
    (hv : (solve tol stallExtra limit ((List.range sm.rows.length).map (· + sm.vars.length)) (phase1Tab sm)).final.value ≤ 0)
    (x : List K) (hxl : x.length = sm.vars.length)
    (hx : ∀ i, i < sm.rows.length → dot (row (sm.rows.map (·.coeffs)) i) x = nth (sm.rows.map (·.rhs)) i)
    (hnn : ∀ v ∈ x, 0 ≤ v) : 1 ≤ x.sum :=
  Phase1.infeasible_report tol htol sm hrows stallExtra limit h hv x hxl hx hnn

/-- **two_phase_start_canonical_partial.**  The tableau returned by `into_tableau_two_phase` — phase 1, artificial
drive-out, redundant-row drop, removal of the artificial columns, cost restoration — is a canonical feasible tableau
OF the standard form: canonical form (for the number of rows that survive), the objective row of the standard form
represented by `(c, value)`, exactly the solution set of `A x = b`, non-negative basic solution, sign flip and offset
copied.  PARTIAL: `tol > 0` and three decidable facts about the run — the phase-1 result has value EXACTLY `0` (the
code only tests `|v| < tol`) and a non-negative basic solution (`steps_feasible_monotone` guarantees it for exact
comparisons only), and the rows the drive-out loop marks as redundant have structural entries EXACTLY `0` in its
result (the code only tests `|a| < tol`; cf. the known finding `C14-absolute-tolerance-on-unscaled-data`). -/
theorem two_phase_start_canonical_partial {tol : K} (ht : 0 < tol) (sm : StdModel K) (stallExtra phase1Limit : Nat)
    (hrows : ∀ r ∈ sm.rows, r.coeffs.length = sm.vars.length) (hobj : sm.objective.length = sm.vars.length)
    (hv : (TwoPhase.phase1Final tol stallExtra phase1Limit sm).value = 0)
    (hF : Feasible (TwoPhase.phase1Final tol stallExtra phase1Limit sm))
    (hd : ∀ r ∈ (TwoPhase.driveOutResult tol stallExtra phase1Limit sm).2.2.2, ∀ j, j < sm.vars.length →
      nth (row (TwoPhase.driveOutResult tol stallExtra phase1Limit sm).1 r) j = 0)
    {T : Tab K} (h : twoPhase tol stallExtra phase1Limit sm = .ok T) :
    (∃ m', Canon T m' sm.vars.length) ∧ ObjInv T sm.objective ∧ (∀ x, Sol T x ↔ Sol (Start.stdTab sm) x) ∧
      Feasible T ∧ T.flip = sm.flip ∧ T.offset = sm.offset :=
  TwoPhase.twoPhase_canonical ht sm stallExtra phase1Limit hrows hobj hv hF hd h

/-- `into_tableau` IS `into_tableau_two_phase` whenever the direct start is not available. -/
theorem into_tableau_two_phase_branch (tol : K) (stallExtra phase1Limit : Nat) (sm : StdModel K)
    (hnd : ¬ (sm.rows.length ≤ (independentColumns tol sm.vars.length (sm.rows.map (·.coeffs))).length ∧
      (selectPerRow sm.rows.length (independentColumns tol sm.vars.length (sm.rows.map (·.coeffs)))).length = sm.rows.length)) :
    intoTableau tol stallExtra phase1Limit sm = twoPhase tol stallExtra phase1Limit sm := by
  unfold intoTableau
  simp only [ge_iff_le]
  split
  · rename_i h1
    split
    · rfl
    · rename_i h2
      exfalso; apply hnd
      refine ⟨h1, ?_⟩
      have hle : (selectPerRow sm.rows.length (independentColumns tol sm.vars.length (sm.rows.map (·.coeffs)))).length ≤ sm.rows.length := by
        unfold selectPerRow
        exact le_trans (List.length_filterMap_le _ _) (by simp)
      omega
  · rfl

/-- **bland_no_cycle_partial.**  Bland's rule as implemented by `find_h(use_bland)` / `find_t` does not cycle:
along any run of Bland steps of `step_inner` (no preference list) the basis never returns to a basis set it
had before.  PARTIAL: the visited tableaus must be feasible and SEPARATED by the tolerance (`Bland.Sep`:
reduced costs and entries are `0` or `≥ tol` in magnitude, ratios of a column equal or `≥ tol` apart — a
decidable predicate per tableau), and `tol > 0`; only then are ties in the ratio test detected exactly and
broken by the smallest basic index.  (For `tol = 0` the predicate `float_eq` never holds, ties go to the first
row, and that is not Bland's rule.) -/
theorem bland_no_cycle_partial {tol : K} (ht : 0 < tol) {m n N : Nat} {c0 : List K} {T : Nat → Tab K}
    {h t : Nat → Nat} {ρ : Nat → K} (R : Bland.BlandRun tol m n N c0 T h t ρ) {a b : Nat} (hab : a < b)
    (hb : b ≤ N) : ¬ (∀ j, j ∈ (T b).basis ↔ j ∈ (T a).basis) :=
  Bland.no_repeat ht R hab hb

/-- **bland_run_length_partial.**  Consequently a run of Bland steps over `n` columns has fewer than `2^n` steps:
once the stall counter has switched the loop to Bland's rule, it stops stalling (reaches `Finished`,
`Unbounded` or a strict improvement) within `2^n` pivots.  Same hypotheses as `bland_no_cycle_partial`; the
bookkeeping of the mixed Dantzig/Bland loop against its numeric `limit` is not done. -/
theorem bland_run_length_partial {tol : K} (ht : 0 < tol) {m n N : Nat} {c0 : List K} {T : Nat → Tab K}
    {h t : Nat → Nat} {ρ : Nat → K} (R : Bland.BlandRun tol m n N c0 T h t ρ) : N < 2 ^ n :=
  Bland.run_length_lt ht R

/-- **loop_run_length.**  The mixed Dantzig/Bland loop is short: a run of the loop body (no preference list) in which
step `p` uses Bland's rule iff the stall counter exceeds the stall limit `L`, the counter being reset by a change of
`current_value` and incremented otherwise, over feasible tolerance-separated tableaus with `n` columns, has at most
`2^n·(L+2)` pivots.  (Bland steps never revisit a basis set — `bland_no_cycle_partial`, the stall counter only grows
while the value stands still; Dantzig steps are told apart by the basis set at the start of their stall streak and
their position `≤ L` in it; values are determined by basis sets.) -/
theorem loop_run_length {tol : K} (ht : 0 < tol) {m n L N : Nat} {c0 : List K} {T : Nat → Tab K} {h t : Nat → Nat}
    {ρ : Nat → K} {st : Nat → Nat} (R : Term.LoopRun tol m n L N c0 T h t ρ st) : N ≤ 2 ^ n * (L + 2) :=
  Term.run_length_le ht R

/-- **solve_terminates_partial.**  `solve` / `solve_step_by_step` (no preference list) from a canonical feasible tableau
with `n` columns and `m` rows cannot answer `IterationLimitReached` when its limit exceeds
`2^n·(stall_limit + 2)`, `stall_limit = n + m + stallExtra` as in the source (`Gen.stallLimitExtra`, re-extracted
together with the `use_bland = stalls > stall_limit` test on every run; the check fails loudly if either changes shape).
PARTIAL: `tol > 0` and "the tolerance never decides" (`Term.ExactAll`: every tableau reachable from `T` is separated,
every pivot changes the value by `0` or by `≥ tol`) — for `tol = 0` `float_eq(value, last)` never holds, the stall
counter never moves and Bland's rule is never switched on.  The bound is exponential (number of basis sets), as for
any pivoting rule; the numeric default limits of the callers are not compared with it. -/
theorem solve_terminates_partial {tol : K} (ht : 0 < tol) {T : Tab K} {m n : Nat} (hC : Canon T m n) {c0 : List K}
    (hO : ObjInv T c0) (hF : Feasible T) (hE : Term.ExactAll tol T) (stallExtra limit : Nat)
    (hlim : 2 ^ n * (n + m + stallExtra + 2) < limit) :
    (solve tol stallExtra limit [] T).result = .ok () ∨ (solve tol stallExtra limit [] T).result = .error .unbounded := by
  have hne := Term.solve_no_limit ht hC hO hF hE stallExtra limit hlim
  cases hr : (solve tol stallExtra limit [] T).result with
  | ok u => left; rfl
  | error e =>
    cases e with
    | unbounded => right; rfl
    | iterationLimit => exact absurd hr hne
    | other => exact absurd hr (Term.solveLoop_ne_other _ _ _ _ _)

/-- **terminates_within_limit_partial.**  The loop performs at most `limit` pivots (it is fuel-bounded by
construction).  That Bland's rule reaches `Finished`/`Unbounded` BEFORE the limit (no cycling) is the
classical termination theorem and is NOT proved here (planned: `bland_terminates`). -/
theorem terminates_within_limit_partial {tol : K} (T : Tab K) (stallExtra limit : Nat) (prefer : List Nat) :
    (solve tol stallExtra limit prefer T).steps.length ≤ limit := by
  have := FeasibleLemmas.solveLoop_steps_le (tol := tol) (prefer := prefer)
    (stallLimit := T.c.length + T.a.length + stallExtra) limit T 0 T.value []
  simpa [solve] using this

/-! ### Non-vacuity: the hypotheses are satisfiable (concrete tableaus over `ℚ`), and counterexamples
for the statements that need exact comparisons. -/
section examples

/-- `min −x₀` with the row `x₀ + x₁ = 2`, `x₁` basic. -/
def T0 : Tab ℚ := { c := [-1, 0], a := [[1, 1]], b := [2], basis := [1], value := 0, offset := 0, flip := false }
/-- the same after the pivot: `x₀` basic, value `2`. -/
def T0' : Tab ℚ := { c := [0, 1], a := [[1, 1]], b := [2], basis := [0], value := 2, offset := 0, flip := false }
/-- `min −x₀` with the row `−x₀ + x₁ = 2`: unbounded. -/
def T1 : Tab ℚ := { c := [-1, 0], a := [[-1, 1]], b := [2], basis := [1], value := 0, offset := 0, flip := false }

example : Canon T0 1 2 := Unbounded.canon_of_one_row T0 [1, 1] 2 1 rfl rfl rfl rfl (by decide) (by simp [nth]) (by simp [T0, nth])
example : Canon T0' 1 2 := Unbounded.canon_of_one_row T0' [1, 1] 2 0 rfl rfl rfl rfl (by decide) (by simp [nth]) (by simp [T0', nth])
example : Canon T1 1 2 := Unbounded.canon_of_one_row T1 [-1, 1] 2 1 rfl rfl rfl rfl (by decide) (by simp [nth]) (by simp [T1, nth])
example : Feasible T0 := by intro i hi; have : i = 0 := by simp [T0] at hi; omega
                            subst this; simp [T0, nth]
example : ObjInv T0 [-1, 0] := by intro x _ _; simp [T0]
example : Sol T0 [2, 0] ∧ NonNeg [(2:ℚ), 0] := by
  constructor
  · intro i hi; have : i = 0 := by simp [T0] at hi; omega
    subst this; simp [T0, row, nth, dot]
  · intro j hj; have : j = 0 ∨ j = 1 := by simp at hj; omega
    rcases this with rfl | rfl <;> simp [nth]
/-- a pivot step, a `Finished` answer and an `Unbounded` answer all occur (exact comparisons). -/
example : stepInner (0:ℚ) T0 [] false = .ok (.pivot 0 0 2, T0') := by
  simp [stepInner, isOptimal, findH, findT, eligible, ratios, minByFirst, pivot, rowSubMul, rowDiv, T0, T0', Tol.fge,
    Tol.feq, Tol.flt, Tol.fgt, nth, row, List.zipIdx]
example : stepInner (0:ℚ) T0' [] false = .ok (.finished, T0') := by
  simp [stepInner, isOptimal, findH, eligible, minByFirst, T0', Tol.fge, Tol.feq, Tol.flt, List.zipIdx]
example : stepInner (0:ℚ) T1 [] false = .error .unbounded := by
  simp [stepInner, isOptimal, findH, findT, eligible, ratios, minByFirst, T1, Tol.fge, Tol.feq, Tol.flt, Tol.fgt, nth,
    List.zipIdx]

/-- tolerance `1e-5`, second row has the entry `5e-6` in the entering column: the ratio test ignores it. -/
def T2 : Tab ℚ := { c := [-1, 0, 0], a := [[1, 1, 0], [1/200000, 0, 1]], b := [10, 0], basis := [1, 2],
                    value := 0, offset := 0, flip := false }

/-- **pivot_feasible fails for `tol > 0`**: `find_t` with tolerance `1e-5` selects row 0 although row 1 has a
positive (sub-tolerance) entry; after the pivot `b₁ = −1/20000 < 0`.  (This is the known finding
`C14-absolute-tolerance-on-unscaled-data`.) -/
theorem pivot_feasible_tol_counterexample :
    findT (1/100000 : ℚ) T2 0 [] = some (0, 10) ∧ Feasible T2 ∧ nth (pivot T2 0 0).b 1 = -1/20000 ∧
      ¬ Feasible (pivot T2 0 0) := by
  refine ⟨?_, ?_, ?_, ?_⟩
  · have h1 : |(1:ℚ)| = 1 := abs_one
    have h2 : |(200000:ℚ)⁻¹| = 200000⁻¹ := abs_of_pos (by norm_num)
    simp [findT, ratios, T2, Tol.feq, Tol.fgt, nth, List.zipIdx, List.filterMap_cons, h1, h2]
    norm_num
  · intro i hi
    have : i = 0 ∨ i = 1 := by simp [T2] at hi; omega
    rcases this with rfl | rfl <;> simp [T2, nth]
  · simp [pivot, T2, nth, row]; norm_num
  · intro hF
    have := hF 1 (by simp [pivot, T2])
    simp [pivot, T2, nth, row] at this
    norm_num at this

/-- reduced cost `−5e-6`: below the tolerance. -/
def T3 : Tab ℚ := { c := [-1/200000, 0], a := [[1, 1]], b := [2], basis := [1], value := 0, offset := 0, flip := false }

/-- **exact optimality fails for `tol > 0`**: with tolerance `1e-5` the step answers `Finished` at the basic
solution `(0, 2)` of objective `0`, while `(2, 0)` is feasible with objective `−1/100000`
(`finished_optimal` bounds the gap by `tol·Σx`). -/
theorem finished_optimal_tol_counterexample :
    stepInner (1/100000 : ℚ) T3 [] false = .ok (.finished, T3) ∧ Sol T3 [2, 0] ∧
      dot [(-1/200000 : ℚ), 0] [2, 0] < dot [(-1/200000 : ℚ), 0] (basicSolution T3) := by
  refine ⟨?_, ?_, ?_⟩
  · simp [stepInner, isOptimal, T3, Tol.fge, Tol.feq]
    norm_num [abs_of_pos]
  · intro i hi; have : i = 0 := by simp [T3] at hi; omega
    subst this; simp [T3, row, nth, dot]
  · simp [basicSolution, variablesValues, T3, dot, nth, List.zipIdx]
    norm_num

/-- `min −x₀` with `x₀ + x₁ = 2`: the slack-like column `x₁`… and `x₀` are both independent. -/
def sm0 : StdModel ℚ := { vars := ["x0", "x1"], objective := [-1, 0], offset := 0, flip := false, rows := [{ coeffs := [1, 1], rhs := 2 }] }

theorem sm0_independent : independentColumns (1/100000 : ℚ) 2 [[1, 1]] = [⟨0, 0, 1⟩, ⟨0, 1, 1⟩] := by
  have h1 : |(1:ℚ)| = 1 := abs_one
  have h2 : (100000:ℚ)⁻¹ ≤ 1 := by norm_num
  simp [independentColumns, List.range, List.range.loop, List.zipIdx, nth, Tol.fne, Tol.feq, Tol.fgt, h1, h2]

/-- the hypotheses of `into_tableau_canonical_partial` are satisfiable. -/
example : Start.NoSubTol (1/100000 : ℚ) (sm0.rows.map (·.coeffs)) ∧
    sm0.rows.length ≤ (independentColumns (1/100000 : ℚ) sm0.vars.length (sm0.rows.map (·.coeffs))).length ∧
    (selectPerRow sm0.rows.length (independentColumns (1/100000 : ℚ) sm0.vars.length (sm0.rows.map (·.coeffs)))).length = sm0.rows.length := by
  have h1 : |(1:ℚ)| = 1 := abs_one
  have e : independentColumns (1/100000 : ℚ) sm0.vars.length (sm0.rows.map (·.coeffs)) = [⟨0, 0, 1⟩, ⟨0, 1, 1⟩] := sm0_independent
  refine ⟨?_, ?_, ?_⟩
  · intro r hr x hx
    simp [sm0] at hr; subst hr
    simp at hx; subst hx
    right; rw [h1]; norm_num
  · rw [e]; simp [sm0]
  · rw [e]; simp [selectPerRow, sm0, List.range, List.range.loop]

theorem T0_sep : Bland.Sep (1/100000 : ℚ) T0 := by
  refine ⟨?_, ?_, ?_⟩
  · intro j
    rcases j with _ | _ | j <;> simp [T0, nth] <;> norm_num
  · intro i j
    rcases i with _ | i <;> rcases j with _ | _ | j <;> simp [T0, nth, row] <;> norm_num
  · intro i i' j
    rcases i with _ | i <;> rcases i' with _ | i' <;> rcases j with _ | _ | j <;> simp [T0, nth, row] <;> norm_num

theorem T0'_sep : Bland.Sep (1/100000 : ℚ) T0' := by
  refine ⟨?_, ?_, ?_⟩
  · intro j
    rcases j with _ | _ | j <;> simp [T0', nth] <;> norm_num
  · intro i j
    rcases i with _ | i <;> rcases j with _ | _ | j <;> simp [T0', nth, row] <;> norm_num
  · intro i i' j
    rcases i with _ | i <;> rcases i' with _ | i' <;> rcases j with _ | _ | j <;> simp [T0', nth, row] <;> norm_num

/-- a Bland run exists (one step, tolerance `1e-5`): the hypotheses of `bland_no_cycle_partial` are satisfiable. -/
example : Bland.BlandRun (1/100000 : ℚ) 1 2 1 [-1, 0] (fun p => if p = 0 then T0 else T0') (fun _ => 0) (fun _ => 0)
    (fun _ => 2) := by
  have h1 : |(1:ℚ)| = 1 := abs_one
  have h2 : (100000:ℚ)⁻¹ ≤ 1 := by norm_num
  have hfeas : ∀ (T : Tab ℚ), T.a.length = 1 → nth T.b 0 = 2 → Feasible T := by
    intro T hl hb i hi
    have : i = 0 := by omega
    subst this; simp [hb]
  refine ⟨Unbounded.canon_of_one_row T0 [1, 1] 2 1 rfl rfl rfl rfl (by decide) (by simp [nth]) (by simp [T0, nth]),
    by intro x _ _; simp [T0], ?_, ?_, ?_⟩
  · intro p hp
    have : p = 0 := by omega
    subst this
    simp [stepInner, isOptimal, findH, findT, eligible, ratios, pivot, rowSubMul, rowDiv, T0, T0', Tol.fge,
      Tol.feq, Tol.flt, Tol.fgt, nth, row, List.zipIdx, h1, h2]
  · intro p hp
    rcases p with _ | p
    · simpa using T0_sep
    · simpa using T0'_sep
  · intro p hp
    rcases p with _ | p
    · exact hfeas _ rfl (by simp [T0, nth])
    · exact hfeas _ (by simp [T0']) (by simp [T0', nth])

/-- `min x₀` with the row `−x₀ = 0`: the only column is negative, so `into_tableau` needs phase 1. -/
def smTP : StdModel ℚ := { vars := ["x0"], objective := [1], offset := 0, flip := false, rows := [{ coeffs := [-1], rhs := 0 }] }
/-- its phase-1 tableau (optimal at once, value 0). -/
def P1 : Tab ℚ := { c := [1, 0], a := [[-1, 1]], b := [0], basis := [1], value := 0, offset := 0, flip := false }
/-- what `into_tableau_two_phase` returns for it (the artificial variable is driven out by a pivot on `−1`). -/
def TP : Tab ℚ := { c := [0], a := [[1]], b := [0], basis := [0], value := 0, offset := 0, flip := false }

theorem smTP_phase1 : phase1Tab smTP = P1 := by
  simp [phase1Tab, smTP, P1, Standardize.resize, subRow, List.zipIdx, List.range, List.range.loop]

theorem smTP_phase1Final : TwoPhase.phase1Final (1/100000 : ℚ) 1 10 smTP = P1 := by
  unfold TwoPhase.phase1Final
  rw [smTP_phase1]
  simp [solve, solveLoop, stepInner, isOptimal, P1, Tol.fge, Tol.feq]

theorem smTP_driveOut : TwoPhase.driveOutResult (1/100000 : ℚ) 1 10 smTP = ([[1, -1]], [0], [0], []) := by
  have h1 : |(1:ℚ)| = 1 := abs_one
  have h2 : (100000:ℚ)⁻¹ ≤ 1 := by norm_num
  unfold TwoPhase.driveOutResult
  rw [smTP_phase1Final]
  simp [driveOut, P1, smTP, List.range, List.range.loop, Tol.fne, Tol.feq, nth, row, rowDiv, h1, h2]

theorem smTP_twoPhase : twoPhase (1/100000 : ℚ) 1 10 smTP = .ok TP := by
  have h1 : |(1:ℚ)| = 1 := abs_one
  have h2 : (100000:ℚ)⁻¹ ≤ 1 := by norm_num
  have hp := smTP_phase1Final
  unfold TwoPhase.phase1Final at hp
  have hs : (solve (1/100000 : ℚ) 1 10 (List.map (fun x => x + smTP.vars.length) (List.range smTP.rows.length))
      (phase1Tab smTP)).result = .ok () := by
    rw [smTP_phase1]
    simp [solve, solveLoop, stepInner, isOptimal, P1, Tol.fge, Tol.feq]
  unfold twoPhase
  simp only [hs, hp]
  simp [P1, TP, smTP, driveOut, restoreCosts, List.range, List.range.loop, Tol.fne, Tol.feq, nth, row, rowDiv, rowSubMul,
    h1, h2, List.zipIdx]

/-- the hypotheses of `two_phase_start_canonical_partial` are satisfiable (tolerance `1e-5`), and it applies: the returned
tableau `TP` is canonical for `smTP`. -/
example : (∃ m', Canon TP m' smTP.vars.length) ∧ ObjInv TP smTP.objective ∧
    (∀ x, Sol TP x ↔ Sol (Start.stdTab smTP) x) ∧ Feasible TP ∧ TP.flip = smTP.flip ∧ TP.offset = smTP.offset := by
  refine two_phase_start_canonical_partial (tol := (1/100000 : ℚ)) (by norm_num) smTP 1 10 ?_ rfl ?_ ?_ ?_ smTP_twoPhase
  · intro r hr; simp [smTP] at hr; subst hr; rfl
  · rw [smTP_phase1Final]; rfl
  · rw [smTP_phase1Final]
    intro i hi
    have : i = 0 := by simp [P1] at hi; omega
    subst this; simp [P1, nth]
  · rw [smTP_driveOut]; simp

theorem T0'_finished (bland : Bool) : stepInner (1/100000 : ℚ) T0' [] bland = .ok (.finished, T0') := by
  have h1 : ¬ (1:ℚ) < 0 := by norm_num
  simp [stepInner, isOptimal, T0', Tol.fge, Tol.feq]

/-- the hypotheses of `solve_terminates_partial` are satisfiable: from the optimal tableau `T0'` only `T0'` is reachable,
it is separated, and no pivot leaves it. -/
example : Term.ExactAll (1/100000 : ℚ) T0' := by
  have hreach : ∀ X, SepLoop.Reach (1/100000 : ℚ) [] T0' X → X = T0' := by
    intro X hX
    generalize hT : T0' = Y at hX
    induction hX with
    | refl T => rfl
    | head hs _ ih =>
      subst hT
      rw [T0'_finished] at hs
      cases hs
      exact ih rfl
  intro X hX
  rw [hreach X hX]
  refine ⟨T0'_sep, ?_⟩
  intro bland h t r T'' hs
  rw [T0'_finished bland] at hs
  cases hs

end examples

end Rooc.Props.C14
