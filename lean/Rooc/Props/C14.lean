/- C14 — property theorems only (helper lemmas live in `Rooc/Proofs`). -/
namespace Rooc.Props.C14
end Rooc.Props.C14
