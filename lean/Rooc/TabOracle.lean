/-
Exact oracle for C14: evaluates the PROPERTY on the implementation's own trace, in exact rational
arithmetic and independently of the model in `Tableau.lean`.  Reference object: for the standard form
`A x = b` and a basis `B`, the canonical tableau `B⁻¹[A | b]` is unique; it is recomputed from the
ORIGINAL data by Gauss–Jordan elimination on the basis columns.  For every prefix of the trace:

* the implementation's rows equal the reference rows (⇒ same solution set as the initial system;
  rows that were dropped must be redundant), up to rounding `1e-6·max(1,|x|)`;
* basic columns are unit columns; the basic solution is non-negative and satisfies the original rows;
* reduced costs and `current_value` are the reference ones (`value = −c_B·B⁻¹b`);
* the exact objective never increases; repeated bases are counted;
* at the end: `Finished` ⇒ the exact optimum (brute-force vertex enumeration) equals the objective of
  the last basis; `Unbounded` ⇒ the problem is unbounded; an infeasibility report ⇒ infeasible;
  `solve_step_by_step` must not run into its iteration limit.
Import-free.
-/
import Rooc.WireTab
import Rooc.StdOracle
namespace Rooc
namespace TabOracle
open Sexp RatLin StdOracle

structure QTab where
  c : List Rat
  a : List (List Rat)
  b : List Rat
  basis : List Nat
  value : Rat

def toQ (T : Tab (Ext Rat)) : Option QTab := do
  pure { c := ← optAllR finOf T.c, a := ← optAllR (optAllR finOf) T.a, b := ← optAllR finOf T.b,
         basis := T.basis, value := ← finOf T.value }

def qabs (x : Rat) : Rat := if x < 0 then -x else x
/-- equality up to IEEE rounding: relative `1e-6` of the values compared, plus `1e-11` of the largest magnitude
`scale` in the instance's data (a difference of two numbers of size `scale` cancels down to `~1e-16·scale`
per operation; the implementation's tableaus are only that exact). -/
def close (scale x y : Rat) : Bool := qabs (x - y) ≤ (max 1 (max (qabs x) (qabs y))) / 1000000 + scale / 100000000000
def closeL (scale : Rat) (xs ys : List Rat) : Bool := xs.length == ys.length && (List.zip xs ys).all fun (x, y) => close scale x y

/-- Gauss–Jordan on the given pivot columns (in order) of augmented rows; `none` if some column has no
pivot.  Returns the pivot rows in basis order and the left-over rows. -/
def reduceOn (rows : List (List Rat)) (basis : List Nat) : Option (List (List Rat) × List (List Rat)) :=
  let rec go : List Nat → List (List Rat) → List (List Rat) → Option (List (List Rat) × List (List Rat))
    | [], done, todo => some (done, todo)
    | k :: ks, done, todo =>
      match todo.find? (fun r => r.getD k 0 != 0) with
      | none => none
      | some p =>
        let pn := p.map (· / p.getD k 0)
        let elim (r : List Rat) : List Rat :=
          let f := r.getD k 0
          if f == 0 then r else List.zipWith (fun a b => a - f * b) r pn
        go ks (done.map elim ++ [pn]) ((todo.eraseP (fun r => r.getD k 0 != 0)).map elim)
  go basis [] rows

structure Ref where
  n : Nat
  A : List (List Rat)
  b : List Rat
  c : List Rat
  /-- largest magnitude in the data (≥ 1) -/
  scale : Rat

def viol (kind : String) (extra : List Sexp) : Sexp := app "violation" (.atom kind :: extra)

/-- is the negative entry of row `i` after the pivot `(h, t)` from the basis `prevBasis` explained by a tie of the
ratio test WITHIN THE ABSOLUTE TOLERANCE?  i.e. row `i` was a candidate (`a_ih > 0`) whose exact ratio is smaller than
the chosen row's, but by at most `tol`: then `b'_i = −a_ih·(ratio_t − ratio_i) ≥ −a_ih·tol`.  Any other negativity
(larger gap, non-candidate row) is not excused. -/
def tieExplains (tol : Rat) (n : Nat) (aug : List (List Rat)) (prevBasis : List Nat) (h t i : Nat) : Bool :=
  match reduceOn aug prevBasis with
  | none => false
  | some (piv, _) =>
    let ri := piv.getD i []
    let rt := piv.getD t []
    let ai := ri.getD h 0
    let atv := rt.getD h 0
    if i == t || ai ≤ 0 || atv ≤ 0 then false else
    let gap := rt.getD n 0 / atv - ri.getD n 0 / ai
    decide (0 ≤ gap) && decide (gap ≤ tol)

/-- checks one tableau of the trace against the reference; returns the exact objective of its basis. -/
def checkTab (tol : Rat) (R : Ref) (k : Nat) (T : QTab) (prev : Option (List Nat × Nat × Nat) := none) : Except Sexp Rat := do
  let at_ := encNat k
  let m' := T.a.length
  if T.b.length != m' || T.basis.length != m' || T.c.length != R.n || T.a.any (·.length != R.n) then
    throw (viol "tableau-shape" [at_])
  if T.basis.any (· ≥ R.n) || T.basis.eraseDups.length != T.basis.length then
    throw (viol "basis-invalid" [at_, .list (T.basis.map encNat)])
  let aug := List.zipWith (fun r bi => (r ++ List.replicate (R.n - r.length) 0).take R.n ++ [bi]) R.A R.b
  match reduceOn aug T.basis with
  | none => throw (viol "basis-singular" [at_, .list (T.basis.map encNat)])
  | some (piv, rest) =>
    if rest.any (fun r => r.any (· != 0)) then throw (viol "dropped-row-not-redundant" [at_])
    -- same equation system (row by row against the unique canonical tableau of this basis)
    let exA := piv.map (·.take R.n)
    let exB := piv.map (·.getD R.n 0)
    for (i, (ra, rb)) in (List.zip T.a T.b).zipIdx.map (fun (p, i) => (i, p)) do
      let ea := exA.getD i []
      let eb := exB.getD i 0
      if !(closeL R.scale ra ea) || !(close R.scale rb eb) then
        -- sub-classify: a discrepancy below the tolerance of the float predicates
        let d := (List.zip (ra ++ [rb]) (ea ++ [eb])).foldl (fun acc (x, y) => max acc (qabs (x - y))) 0
        throw (viol (if d ≤ 2 * tol then "equation-system-changed-within-tolerance" else "equation-system-changed")
          [at_, encNat i, encQs (ra ++ [rb]), encQs (ea ++ [eb])])
    -- basic columns are unit columns
    for (i, j) in T.basis.zipIdx.map (fun (j, i) => (i, j)) do
      for (i', r) in T.a.zipIdx.map (fun (r, i) => (i, r)) do
        let want : Rat := if i' == i then 1 else 0
        if qabs (r.getD j 0 - want) > 1 / 1000000000 + R.scale / 100000000000 then
          throw (viol "basic-column-not-unit" [at_, encNat j, encNat i', encQ (r.getD j 0)])
    -- feasibility of the basic solution (exact, and as stored)
    match exB.zipIdx.find? (·.1 < 0) with
    | some (v, i) =>
      let tie := match prev with
        | some (pb, h, t) => tieExplains tol R.n aug pb h t i
        | none => false
      throw (viol (if tie then "ratio-tie-within-tolerance"
                   else if v ≥ -(10 * tol) then "basic-solution-negative-within-tolerance" else "basic-solution-negative") [at_, encQ v])
    | none => pure ()
    match T.b.find? (· < -(tol + R.scale / 100000000000)) with
    | some v => throw (viol "stored-b-negative" [at_, encQ v])
    | none => pure ()
    -- the stored basic solution satisfies the ORIGINAL rows
    let x := scatter R.n T.basis T.b
    for (r, bi) in List.zip R.A R.b do
      if !(close R.scale (dot r x) bi) then throw (viol "basic-solution-violates-original-rows" [at_, encQs x, encQ (dot r x), encQ bi])
    -- reduced costs and value
    let cB := T.basis.map (R.c.getD · 0)
    let exC := (List.range R.n).map fun j => R.c.getD j 0 - dot cB (exA.map (·.getD j 0))
    let z := dot cB exB
    if !(closeL R.scale T.c exC) then throw (viol "reduced-costs-wrong" [at_, encQs T.c, encQs exC])
    if !(close R.scale T.value (-z)) then throw (viol "value-does-not-track-objective" [at_, encQ T.value, encQ (-z)])
    pure z

def decTab (s : Sexp) : Option QTab := (Tab.dec s : Option (Tab (Ext Rat))).bind toQ

def checkRaw (tol : Rat) (sm : StdModel (Ext Rat)) (start : Sexp) (steps : List Sexp) (final : Sexp) : Sexp :=
  match optAllR finOf sm.objective,
        optAllR (fun (r : StdRow (Ext Rat)) => do pure ((← optAllR finOf r.coeffs), (← finOf r.rhs))) sm.rows with
  | some c, some rows =>
    let n := sm.vars.length
    let scale := (c ++ rows.map (·.2) ++ (rows.map (·.1)).flatten).foldl (fun m x => max m (qabs x)) 1
    let R : Ref := { n := n, A := rows.map (·.1), b := rows.map (·.2), c := c, scale := scale }
    let small := binom n (min R.A.length n) ≤ 4000
    let verdict : Option Verdict := if small then some (bruteForce n R.A R.b R.c) else none
    let vname : String := match verdict with
      | some .infeasible => "infeasible" | some .unbounded => "unbounded" | some (.optimal _ _) => "optimal" | none => "unknown"
    match start with
    | .list [.atom "err", .atom "Infesible"] =>
      (match verdict with
       | some .infeasible | none => app "ok" [.atom "infeasible", .atom vname]
       | _ => viol "infeasible-report-wrong" [.atom vname])
    | .list (.atom "err" :: .atom "SimplexError" :: rest) => viol "phase1-error" rest
    | .list (.atom "err" :: rest) => viol "canonical-transform-error" rest
    | .list [.atom "ok", t0] =>
      match decTab t0, optAllR (fun | .list [_, t] => decTab t | _ => none) steps with
      | some T0, some Ts =>
        let all := T0 :: Ts
        -- the pivot (entering column, leaving row) that produced each tableau of the trace
        let acts : List (Option (Nat × Nat)) := none :: steps.map fun
          | .list [.list [.atom "pivot", h, t, _], _] => (do pure ((← decNat h), (← decNat t)) : Option (Nat × Nat))
          | _ => none
        let prevs : List (Option (List Nat × Nat × Nat)) := (List.zip (T0 :: all) acts).map fun
          | (Tp, some (h, t)) => some (Tp.basis, h, t)
          | _ => none
        -- every prefix
        let res : Except Sexp (List Rat) := all.zipIdx.foldlM (fun zs (T, k) => do
          let z ← checkTab tol R k T (prevs.getD k none)
          match zs.getLast? with
          | some prev => if z > prev + (max 1 (qabs prev)) / 1000000000 then throw (viol "objective-increased" [encNat k, encQ prev, encQ z]) else pure ()
          | none => pure ()
          pure (zs ++ [z])) []
        match res with
        | .error v =>
          -- a feasible start on an infeasible problem is reported under its own name
          (match verdict with
           | some .infeasible => viol "feasible-start-on-infeasible-problem" [v]
           | _ => v)
        | .ok zs =>
          let zLast := zs.getLast?.getD 0
          let sets := all.map fun T => T.basis.mergeSort
          let repeats := sets.length - sets.eraseDups.length
          let degenerate := (List.zip zs (zs.drop 1)).filter (fun (a, b) => a == b) |>.length
          let okInfo := [.atom vname, encNat all.length, .atom ("repeats:" ++ toString repeats), .atom ("degenerate-pivots:" ++ toString degenerate)]
          match final with
          | .list [.atom "final", .atom stepStatus, .list (.atom "solve" :: .atom solveStatus :: solveRest)] =>
            let stepCheck : Option Sexp :=
              match stepStatus, verdict with
              | "finished", some (.optimal v _) => if close R.scale v zLast then none else some (viol "finished-not-optimal" [encQ zLast, encQ v])
              | "finished", some .unbounded => some (viol "finished-but-unbounded" [encQ zLast])
              | "finished", some .infeasible => some (viol "finished-on-infeasible-problem" [])
              | "unbounded", some .unbounded => none
              | "unbounded", some _ => some (viol "unbounded-report-wrong" [.atom vname])
              | _, _ => none
            let solveCheck : Option Sexp :=
              match solveStatus, verdict with
              | "IterationLimitReached", _ => some (viol "iteration-limit-reached" [])
              | "Other", _ => some (viol "solve-error-other" [])
              | "ok", some (.optimal v _) =>
                (match solveRest with
                 | stdVal :: _ => (match (decNumS stdVal : Option (Ext Rat)) with
                   | some (.fin q) => if close R.scale q v then none else some (viol "solve-value-wrong" [encQ q, encQ v])
                   | _ => some (viol "solve-value-not-finite" []))
                 | _ => none)
              | "ok", some .unbounded => some (viol "solve-finished-but-unbounded" [])
              | "ok", some .infeasible => some (viol "solve-finished-on-infeasible-problem" [])
              | "Unbounded", some .unbounded => none
              | "Unbounded", some _ => some (viol "solve-unbounded-report-wrong" [.atom vname])
              | _, _ => none
            (match stepCheck, solveCheck with
             | some v, _ => v
             | _, some v => v
             | none, none => app "ok" okInfo)
          | _ => app "err" [.atom "decode-final"]
      | _, _ => app "ok" [.atom "skipped-nonfinite"]
    | _ => app "err" [.atom "decode-start"]
  | _, _ => app "ok" [.atom "skipped-nonfinite"]

/-- least non-zero magnitude in a list. -/
def minNonzero (xs : List Rat) : Option Rat :=
  xs.foldl (fun acc x => if x == 0 then acc else
    match acc with
    | none => some (qabs x)
    | some m => some (min m (qabs x))) none

/-- how close to zero the exact quantities of this instance get: the data, every basic solution of the
standard form, and the reference tableau of every basis on the trace. -/
def sensitivity (sm : StdModel (Ext Rat)) (start : Sexp) (steps : List Sexp) : Option Rat :=
  match optAllR finOf sm.objective,
        optAllR (fun (r : StdRow (Ext Rat)) => do pure ((← optAllR finOf r.coeffs), (← finOf r.rhs))) sm.rows with
  | some c, some rows =>
    let n := sm.vars.length
    let A := rows.map (·.1)
    let b := rows.map (·.2)
    let data := c ++ b ++ A.flatten
    let basics := if binom n (min A.length n) ≤ 4000 then ((basicSolutions n A b).map (·.2)).flatten else []
    let tabs : List QTab := ((match start with | .list [.atom "ok", t0] => [t0] | _ => []) ++
      steps.filterMap (fun | .list [_, t] => some t | _ => none)).filterMap decTab
    let aug := List.zipWith (fun r bi => (r ++ List.replicate (n - r.length) 0).take n ++ [bi]) A b
    let refs := tabs.flatMap fun T =>
      match reduceOn aug T.basis with
      | some (piv, rest) =>
        let exA := piv.map (·.take n)
        let cB := T.basis.map (c.getD · 0)
        let exC := (List.range n).map fun j => c.getD j 0 - dot cB (exA.map (·.getD j 0))
        piv.flatten ++ rest.flatten ++ exC
      | none => []
    minNonzero (data ++ basics ++ refs)
  | _, _ => none

/-- the property on the trace, with every violation classified by the instance's conditioning:
quantities below `1e-9` are rounding noise of the input data (no exact verdict is meaningful), quantities
below `2·tol` make the instance sensitive to the absolute tolerance of `math_utils` (kind
`sub-tolerance-data`, the precise violation follows as second atom). -/
def check (tol : Rat) (sm : StdModel (Ext Rat)) (start : Sexp) (steps : List Sexp) (final : Sexp) : Sexp :=
  match checkRaw tol sm start steps final with
  | .list (.atom "violation" :: rest) =>
    match sensitivity sm start steps with
    | some s =>
      if s < 1 / 1000000000 then app "ok" (.atom "ill-conditioned" :: rest.take 1)
      else if s < 2 * tol then app "violation" (.atom "sub-tolerance-data" :: rest)
      else app "violation" rest
    | none => app "violation" rest
  | r => r

end TabOracle
end Rooc
