/-
Exact oracles for the solver properties (C04, C05, C15, C20): the PROPERTY evaluated on what the implementation
answered, with every verdict of the exact solver re-checked by the certificate checker of `Rooc/Cert.lean`
(an uncertified verdict is never used: the oracle answers `(err cert-failed …)` instead).  Runs at `Ext Rat`.
Import-free.
-/
import Rooc.Cert
import Rooc.WireSolve
namespace Rooc
namespace SolveOracle
open Cert SolverWrap Sexp

def tol6 : Rat := 1 / 1000000
def rabs (x : Rat) : Rat := if x < 0 then -x else x
def rmax (a b : Rat) : Rat := if a < b then b else a
/-- equal within 1e-6 relative (absolute below 1). -/
def close (a b : Rat) : Bool := rabs (a - b) ≤ tol6 * rmax 1 (rmax (rabs a) (rabs b))
def encRat (q : Rat) : Sexp := .atom (Wire.enc (Ext.fin q : Ext Rat))
def viol (kind : String) (details : List Sexp) : Sexp := app "violation" (.atom kind :: details)
def okS (xs : List Sexp) : Sexp := app "ok" xs
def errS (xs : List Sexp) : Sexp := app "err" xs

def count (l : List String) (s : String) : Nat := (l.filter (· == s)).length

/-! ### C04 -/

/-- "every variable of the model has exactly one value": assignment names = model variables, each once; and
`value_of(name)` is that value. -/
def oneValuePerVariable (lm : LinModel (Ext Rat)) (s : Solution (Ext Rat))
    (byname : List (String × Option (Val (Ext Rat)))) : Option Sexp :=
  let names := s.assignment.map (·.1)
  match lm.vars.find? (fun v => count names v == 0) with
  | some v => some (viol "variable-without-value" [.str v])
  | none =>
  match lm.vars.find? (fun v => count names v > 1) with
  | some v => some (viol "variable-with-several-values" [.str v])
  | none =>
  match names.find? (fun n => !(lm.vars.contains n)) with
  | some n => some (viol "value-for-unknown-variable" [.str n])
  | none =>
  match byname.find? (fun (n, v) =>
      match v, imGet s.assignment n with
      | some a, some b => !(Arith.eq a.toNum b.toNum)
      | none, none => false
      | _, _ => true) with
  | some (n, _) => some (viol "value-of-disagrees-with-assignment" [.str n])
  | none => none

def pointOf (lm : LinModel (Ext Rat)) (s : Solution (Ext Rat)) : Except Sexp (List Rat) :=
  listM (fun v =>
    match imGet s.assignment v with
    | some val =>
      match val.toNum with
      | .fin q => .ok q
      | _ => .error (viol "non-finite-value" [.str v])
    | none => .error (viol "variable-without-value" [.str v])) lm.vars

/-- the first row / domain that fails at `x` (for the report). -/
def firstFailure (p : Prob Rat) (x : List Rat) (tol : Rat) : Sexp :=
  let rows := (List.range p.rows.length).zip p.rows
  match rows.find? (fun (_, r) => !(rowHolds tol x r)) with
  | some (i, r) => .list [.atom "row", .atom (toString i), encRat (dot r.coeffs x), encRat r.rhs]
  | none =>
    let ds := (List.range p.doms.length).zip (x.zip p.doms)
    match ds.find? (fun (_, v, d) => !(domHolds tol v d)) with
    | some (j, v, _) => .list [.atom "domain", .atom (toString j), encRat v]
    | none => .atom "shape"

/-- signature of the name-prefix defect of `as_lp_solution` (tableau simplex): a USER variable whose name starts with
one of the internal prefixes (`$sl_`, `$su_`, `$a_`, `$p`, `$m`) is dropped or merged. -/
def internalPrefix (n : String) : Bool :=
  n.startsWith "$sl_" || n.startsWith "$su_" || n.startsWith "$a_" || n.startsWith "$p" || n.startsWith "$m"

def checkSolution (lm : LinModel (Ext Rat)) (solver : String) (s : Solution (Ext Rat))
    (byname : List (String × Option (Val (Ext Rat)))) : Sexp :=
  match ofLinModel lm with
  | .error why => okS [.atom "skipped", .atom why]
  | .ok p =>
  match oneValuePerVariable lm s byname with
  | some v =>
    if solver == "simplex" && lm.vars.any internalPrefix then viol "internal-prefix-variable-lost" [v] else v
  | none =>
  match pointOf lm s with
  | .error v => v
  | .ok x =>
  if !(checkPoint p x tol6) then viol "infeasible-point" [firstFailure p x tol6] else
  match s.value with
  | .fin v =>
    let expect := objective p x
    if !(close v expect) then viol "objective-mismatch" [encRat v, encRat expect] else
    -- named-row activities
    let bad := s.constraints.find? fun (name, act) =>
      name != "" &&
      match act with
      | .fin a => !(p.rows.zip lm.rows).any (fun (r, lr) => lr.name == name && close a (dot r.coeffs x))
      | _ => true
    match bad with
    | some (name, _) => viol "row-activity-mismatch" [.str name]
    | none => okS [.atom "feasible"]
  | _ => viol "non-finite-objective" []

/-! ### exact verdicts -/

def exact (lm : LinModel (Ext Rat)) : Except String (Prob Rat × Solved) :=
  match ofLinModel lm with
  | .error why => .error why
  | .ok p => .ok (p, solve p)

def verdictName : Verdict → String
  | .optimal _ _ => "optimal" | .infeasible => "infeasible" | .unbounded => "unbounded" | .failed _ => "failed"

/-- recession cone of the relaxation boxed into `[-1,1]ⁿ`: rows with rhs 0, `d ≥ 0` where a lower bound is finite,
`d ≤ 0` where an upper bound is finite. -/
def coneLP (p : Prob Rat) (obj : List Rat) (extra : List (Row Rat)) : LP Rat :=
  let lp := p.relax
  { obj := obj,
    rows := lp.rows.map (fun r => { r with rhs := 0 }) ++ extra,
    bnds := lp.bnds.map fun b =>
      ⟨some (if b.lo.isSome then 0 else -1), some (if b.hi.isSome then 0 else 1)⟩ }

def unitVec (n j : Nat) (v : Rat) : List Rat := (List.range n).map fun k => if k == j then v else 0

def lpMinValue (lp : LP Rat) : Option Rat :=
  match Simplex.solveLP lp with
  | .optimal x y v _ _ => if checkOptimal lp x y then some v else none
  | _ => none

/-- signature of the microlp defects (C05 a, b): the feasible set has a recession direction `d` along which the
objective is constant (`c·d = 0`) and which moves a FREE variable. -/
def flatFreeDirection (p : Prob Rat) : Bool :=
  let lp := p.relax
  let n := lp.bnds.length
  let flat : Row Rat := ⟨lp.obj, .eq, 0⟩
  (List.range n).any fun j =>
    match lp.bnds[j]? with
    | some ⟨none, none⟩ =>
      [(1 : Rat), -1].any fun s =>
        match lpMinValue (coneLP p (unitVec n j (-s)) [flat]) with
        | some v => v < 0
        | none => false
    | _ => false

/-- the relaxation has a recession direction that strictly improves the objective (dual infeasibility). -/
def improvingRay (p : Prob Rat) : Bool :=
  match lpMinValue (coneLP p p.relax.obj []) with
  | some v => v < 0
  | none => false

/-- the relaxation has an improving recession direction that MOVES A FREE VARIABLE (exact, two LPs per free variable and
sign: first the most improving boxed ray, value `v < 0`; then maximise `±d_j` over the boxed cone cut by `c·d ≤ v/2`). -/
def improvingRayThroughFree (p : Prob Rat) : Bool :=
  let lp := p.relax
  let n := lp.bnds.length
  match lpMinValue (coneLP p lp.obj []) with
  | some v =>
    v < 0 &&
    (List.range n).any fun j =>
      match lp.bnds[j]? with
      | some ⟨none, none⟩ =>
        [(1 : Rat), -1].any fun s =>
          match lpMinValue (coneLP p (unitVec n j (-s)) [⟨lp.obj, .le, v / 2⟩]) with
          | some w => w < 0
          | none => false
      | _ => false
  | none => false

/-! ### C05 -/

/-- signature of the Satisfy/objective inconsistency: the model asks for ANY feasible point (`satisfy`) but carries
non-zero objective coefficients, and minimising those coefficients (what the MILP wrapper hands to microlp) is
genuinely unbounded — certified. The good_lp path ignores the coefficients of a `satisfy` model. -/
def satisfyObjectiveUnbounded (p : Prob Rat) : Bool :=
  p.sense == .satisfy && p.obj.any (· != 0) &&
  (let s := solve { p with sense := .min }
   s.certified && (match s.verdict with | .unbounded => true | _ => false))

/-- error kinds by which an entry point declines a model it does not accept (not a verdict). -/
def declines (variant : String) : Bool :=
  variant == "InvalidDomain" || variant == "UnimplementedOptimizationType" || variant == "UnavailableComparison"

def checkVerdict (lm : LinModel (Ext Rat)) (solver : String) (r : ImplRes (Ext Rat)) (msg : String)
    (rawStatus : String := "none") : Sexp :=
  match exact lm with
  | .error why => okS [.atom "skipped", .atom why]
  | .ok (p, sol) =>
  if !sol.certified then errS [.atom "cert-failed", .atom (verdictName sol.verdict)] else
  let microlpBased := solver == "milp" || solver == "auto" || solver == "microlp"
  let tag := .atom (verdictName sol.verdict)
  match r, sol.verdict with
  | _, .failed w => errS [.atom "exact-solver-failed", .str w]
  | .ok s _, .optimal _ v =>
    if p.sense == .satisfy then okS [tag, .atom "feasible"] else
    match s.value with
    | .fin got => if close got v then okS [tag, encRat v] else viol "wrong-optimum" [.atom solver, encRat got, encRat v]
    | _ => viol "wrong-optimum" [.atom solver, .atom "non-finite", encRat v]
  | .ok s _, .infeasible =>
    -- signature of a second Clarabel defect (dependency): on a model that is primal AND dual infeasible clarabel itself
    -- ends `Solved` with an iterate that ran off (~1e25); the point rooc passes through violates a row of the model
    let violates : Bool := match pointOf lm s with
      | .ok x => !(checkPoint p x tol6)
      | .error _ => false
    if solver == "clarabel" && (rawStatus == "Solved" || rawStatus == "AlmostSolved") && violates && improvingRay p then
      viol "clarabel-solved-on-primal-dual-infeasible-model" [.atom solver, .atom rawStatus]
    else viol "solution-for-infeasible-model" [.atom solver]
  | .ok s _, .unbounded =>
    -- signature of the Clarabel defect (dependency): clarabel ITSELF ends with status `Solved` / `AlmostSolved` on an
    -- unbounded LP (its primal or dual iterate runs off along the unbounded direction and the stopping test fires
    -- anyway), and the point it hands back — which rooc passes through unchanged (correspondence) — is a FEASIBLE
    -- point of the model within 1e-6: a feasible point mislabelled optimal, not a mapping error of the wrapper.
    let feasiblePoint : Bool := match pointOf lm s with
      | .ok x => checkPoint p x tol6
      | .error _ => false
    if solver == "clarabel" && (rawStatus == "Solved" || rawStatus == "AlmostSolved") && feasiblePoint then
      viol "clarabel-solved-on-unbounded-model" [.atom solver, .atom rawStatus]
    else viol "solution-for-unbounded-model" [.atom solver]
  | .err "Infeasible", .infeasible => okS [tag]
  | .err "Infeasible", _ => viol "infeasible-reported-for-feasible-model" [.atom solver, tag]
  | .err "Unbounded", .unbounded => okS [tag]
  | .err "Unbounded", .optimal _ v =>
    if microlpBased && satisfyObjectiveUnbounded p then viol "satisfy-objective-coefficients-optimised" [.atom solver]
    else if microlpBased && flatFreeDirection p then viol "microlp-flat-free-direction" [.atom solver, .atom "unbounded-reported", encRat v]
    else viol "unbounded-reported-for-bounded-model" [.atom solver, encRat v]
  | .err "Unbounded", .infeasible =>
    if solver == "clarabel" && improvingRay p then viol "clarabel-dual-infeasible-reported-unbounded" [.atom solver]
    else viol "unbounded-reported-for-infeasible-model" [.atom solver]
  | .err variant, _ =>
    if declines variant then okS [.atom "declined", .atom variant]
    else if solver == "simplex" && variant == "Other" && msg.startsWith "Infesible" && sol.verdict matches .infeasible then
      viol "simplex-infeasible-reported-as-other" [.atom solver]
    -- "the simplex-based solvers always reach one of these three verdicts … through the dedicated kinds"; the
    -- interior-point path may give up (`Other("No progress")`, …): that is no verdict, hence not a wrong one
    -- signature of a microlp defect (dependency): on a mixed-integer model whose relaxation is unbounded along a FREE
    -- variable, the root LP is reported solved (when the start basis first has to be made feasible) and the unboundedness
    -- only surfaces inside a branch & bound node as the internal error below
    else if microlpBased && variant == "Other" && msg.startsWith "bounded B&B node reported unbounded" && isMip p &&
        (sol.verdict matches .unbounded) && improvingRayThroughFree p then
      viol "microlp-node-unbounded-free-variable" [.atom solver]
    -- third symptom of microlp's flat-free-direction defect: on a BOUNDED mixed-integer model with a recession direction
    -- of zero objective through a free variable (typically an unused free column) a branch & bound node LP is reported
    -- unbounded along that direction and microlp turns it into the internal error below
    else if microlpBased && variant == "Other" && msg.startsWith "bounded B&B node reported unbounded" && isMip p &&
        (match sol.verdict with | .optimal _ _ => true | _ => false) && flatFreeDirection p then
      viol "microlp-flat-free-direction" [.atom solver, .atom "node-unbounded-error", tag]
    else if solver == "clarabel" then okS [.atom "no-verdict", .atom variant, tag]
    else viol "no-dedicated-verdict" [.atom solver, .atom variant, tag]
  | .hang, _ =>
    if microlpBased && flatFreeDirection p then viol "microlp-flat-free-direction" [.atom solver, .atom "hang", tag]
    else viol "hang" [.atom solver, tag]
  | .panic, _ =>
    -- a panic is no verdict at all
    if solver == "clarabel" && lm.vars.isEmpty then viol "clarabel-panic-no-variables" [.atom solver, tag]
    else viol "panic" [.atom solver, tag]

/-! ### C15 -/

structure MilpOpts where
  gap : Option (Ext Rat)
  limitNs : Option Nat
  deriving Inhabited

def gapInvalid : Option (Ext Rat) → Bool
  | some (.fin g) => g < 0
  | some _ => true
  | none => false

/-- `r` = answer under the options, `r0` = answer of the same entry point without options, `rawStatus` = the status
microlp itself reports for the same problem and options (mirror call: `optimal`, `feasible`, `interrupted`, or
`unknown` when the mirror did not return a solution).

Root-cause signature of the known defect (kind `milp-limit-status-not-read`): a time limit was set, the unlimited
answer of the same entry point is right, (for the clock-independent 0 ns limit:) microlp says the search did NOT
finish (`feasible` / `interrupted`) — yet rooc answered `Ok` + `Optimal` with a wrong point / value. -/
def checkLabel (lm : LinModel (Ext Rat)) (o : MilpOpts) (r r0 : ImplRes (Ext Rat)) (rawStatus : String) : Sexp :=
  match exact lm with
  | .error why => okS [.atom "skipped", .atom why]
  | .ok (p, sol) =>
  if !sol.certified then errS [.atom "cert-failed", .atom (verdictName sol.verdict)] else
  -- is the unlimited answer right?  (then a wrong limited answer is caused by the limit handling)
  let baselineRight : Bool :=
    match r0, sol.verdict with
    | .ok s _, .optimal _ v =>
      if p.sense == .satisfy then (match pointOf lm s with | .ok x => checkPoint p x tol6 | .error _ => false)
      else (match s.value with | .fin g => close g v | _ => false)
    | .err "Infeasible", .infeasible => true
    | .err "Unbounded", .unbounded => true
    | _, _ => false
  let limited := o.limitNs.isSome
  -- the mirror call is evidence only where the clock plays no role (0 ns); for positive limits the two calls may be
  -- hit differently by the clock, so there the signature is "limit set, unlimited answer right, limited answer wrong"
  let mirrorSaysUnfinished := rawStatus == "interrupted" || rawStatus == "feasible"
  let clockFree := match o.limitNs with | some n => n == 0 || n ≥ 1000000000 | none => true   -- 0 ns always fires, ≥ 1 s never does
  let statusIgnored := limited && baselineRight && (!clockFree || mirrorSaysUnfinished)
  let viol (k : String) (d : List Sexp) : Sexp :=
    if statusIgnored then SolveOracle.viol "milp-limit-status-not-read" (.atom k :: .atom rawStatus :: d) else SolveOracle.viol k d
  let cause (k : String) : String := k
  if gapInvalid o.gap then
    match r with
    | .err _ => okS [.atom "invalid-option-rejected"]
    | _ => viol "invalid-option-accepted" []
  else
  match r with
  | .hang => viol "hang" []
  | .panic => viol "panic" []
  -- a wrong verdict that the SAME entry point gives without any option is not caused by a limit or a tolerance: it is
  -- C05's subject (and reported there, e.g. microlp's free-variable defects); C15 only judges what the options changed
  | .err "Infeasible" =>
    if sol.verdict matches .infeasible then okS [.atom "infeasible"]
    else if (match r0 with | .err "Infeasible" => true | _ => false) then okS [.atom "same-wrong-verdict-without-options", .atom "infeasible"]
    else viol (cause "infeasible-reported-for-feasible-model") []
  | .err "Unbounded" =>
    if sol.verdict matches .unbounded then okS [.atom "unbounded"]
    else if (match r0 with | .err "Unbounded" => true | _ => false) then okS [.atom "same-wrong-verdict-without-options", .atom "unbounded"]
    else viol (cause "unbounded-reported-for-bounded-model") []
  | .err v => okS [.atom "error", .atom v]       -- stopping with an error is what the property allows
  | .ok s _ =>
    match pointOf lm s with
    | .error _ => viol (cause "infeasible-point-returned") [.atom "no-point"]
    | .ok x =>
    if !(checkPoint p x tol6) then viol (cause "infeasible-point-returned") [.atom s.status.name, firstFailure p x tol6] else
    match s.status, sol.verdict, s.value with
    | .optimal, .optimal _ v, .fin got =>
      if p.sense == .satisfy then okS [.atom "optimal-label", .atom "feasible"] else
      let g : Rat := match o.gap with | some (.fin g) => g | _ => 0
      -- microlp's relative gap: (incumbent − optimum) / max(|incumbent|, guard), in the direction of optimisation
      let diff := if p.sense == .max then v - got else got - v
      -- the denominator of a RELATIVE gap is not fixed by the property (|incumbent|, |optimum|, with or without the
      -- constant offset — microlp measures on the offset-free objective): accept the label if ANY of them honours it
      let denom := rmax (rmax (rabs got) (rabs v)) (rmax (rabs (got - p.offset)) (rabs (v - p.offset)))
      if diff ≤ g * rmax denom (1 / 10000000000) + tol6 * rmax 1 (rabs v) then okS [.atom "optimal-label", encRat got, encRat v]
      else viol (cause "optimal-label-outside-gap") [encRat got, encRat v]
    | .optimal, _, _ => viol (cause "optimal-label-without-optimum") [.atom (verdictName sol.verdict)]
    | .feasible, _, _ => okS [.atom "feasible-label"]
    | _, _, _ => viol "status-of-a-solution-is-not-a-solution-status" [.atom s.status.name]

/-! ### C20 -/

def perturb (p : Prob Rat) (i : Nat) (δ : Rat) : Prob Rat :=
  { p with rows := (List.range p.rows.length).zip p.rows |>.map fun (k, r) => if k == i then { r with rhs := r.rhs + δ } else r }

def certifiedValue (p : Prob Rat) : Option Rat :=
  let s := solveCont p
  match s.certified, s.verdict with
  | true, .optimal _ v => some v
  | _, _ => none

def eps : Rat := 1 / 64

/-- exact two-sided finite difference of the optimal value in the rhs of row `i` (user's sense);
`none` when a re-solve is not optimal or the two sides differ (a kink within ±eps). -/
def sensitivity (p : Prob Rat) (v0 : Rat) (i : Nat) : Option Rat :=
  match certifiedValue (perturb p i eps), certifiedValue (perturb p i (-eps)) with
  | some vp, some vm =>
    let sp := (vp - v0) / eps
    let sm := (v0 - vm) / eps
    if sp == sm then some sp else none
  | _, _ => none

/-- shadow prices are compared at 5e-6 (relative above 1): the interior-point duals carry up to ~1.5e-6 of noise on
near-degenerate vertices (1 case in 8000), while every effect the check is meant to see is ≥ 1e-5. -/
def closeAbsS (cscale : Rat) (a b : Rat) : Bool := rabs (a - b) ≤ 5 * tol6 * rmax 1 (rabs b) + cscale / 10000000
def closeAbs (a b : Rat) : Bool := closeAbsS 0 a b

def checkShadow (lm : LinModel (Ext Rat)) (r : ImplRes (Ext Rat)) : Sexp :=
  match ofLinModel lm with
  | .error why => okS [.atom "skipped", .atom why]
  | .ok p =>
  if isMip p then okS [.atom "skipped", .atom "not-continuous"] else
  let sol := solveCont p
  if !sol.certified then errS [.atom "cert-failed", .atom (verdictName sol.verdict)] else
  match sol.verdict, r with
  | .optimal x v0, .ok s _ =>
    if !(sol.unique && sol.nondegenerate) then okS [.atom "skipped", .atom "degenerate-or-not-unique"] else
    let names := lm.rows.map (·.name)
    if names.any (fun n => n != "" && count names n > 1) then okS [.atom "skipped", .atom "duplicate-row-name"] else
    if s.shadow.any (fun d => d.1 == "") then viol "shadow-price-for-unnamed-row" [] else
    match s.shadow.find? (fun d => !(names.contains d.1)) with
    | some d => viol "shadow-price-for-unknown-row" [.str d.1]
    | none =>
    let rows := (List.range lm.rows.length).zip (lm.rows.zip p.rows)
    let rec go : List (Nat × LinRow (Ext Rat) × Row Rat) → Nat → Sexp
      | [], k => okS [.atom "checked", .atom (toString k)]
      | (i, lr, row) :: rest, k =>
        if lr.name == "" then go rest k else
        match imGet s.shadow lr.name with
        | none =>
          -- a constant row (`0 ⋈ rhs`) is removed by the compiler: no row, no price (not demanded by the property)
          if row.coeffs.all (· == 0) then go rest k else viol "named-row-without-shadow-price" [.str lr.name]
        | some (.fin got) =>
          match sensitivity p v0 i with
          | none => okS [.atom "skipped", .atom "kink-within-eps"]
          | some want =>
            let active := dot row.coeffs x == row.rhs
            -- duals scale with the objective: the interior-point noise is up to ~4e-8·‖c‖∞ on badly scaled objectives, so 1e-7·‖c‖∞ is added to the tolerance
            let closeAbs := closeAbsS ((p.obj.map rabs).foldl rmax 0)
            if !active && !(closeAbs got 0) then viol "inactive-row-nonzero-shadow-price" [.str lr.name, encRat got]
            else if !(closeAbs got want) then
              (if closeAbs got (-want) then viol "shadow-price-wrong-sign" [.str lr.name, encRat got, encRat want]
               else viol "shadow-price-wrong-value" [.str lr.name, encRat got, encRat want])
            else go rest (k + 1)
        | some _ => viol "non-finite-shadow-price" [.str lr.name]
    go rows 0
  | _, .ok _ _ => okS [.atom "skipped", .atom "no-optimum"]
  | _, _ => okS [.atom "skipped", .atom "no-solution"]

def contBounds (lm : LinModel (Ext Rat)) (name : String) : Option (Ext Rat × Ext Rat) :=
  match lm.domain.find? (·.name == name) with
  | some d =>
    match d.ty with
    | .real lo hi | .nnreal lo hi => some (lo, hi)
    | _ => none
  | none => none

/-- signature of the derived-bound interaction: the compiler tightened the domain of a variable and the tightened
bound is ACTIVE at the (unique) optimum of the source LP, so the solver sees an extra active constraint. -/
def derivedBoundActive (src comp : LinModel (Ext Rat)) : Bool :=
  match ofLinModel src with
  | .error _ => false
  | .ok p =>
    match (solveCont p).verdict with
    | .optimal x _ =>
      (src.vars.zip x).any fun (name, xv) =>
        match contBounds src name, contBounds comp name with
        | some (lo, hi), some (lo', hi') =>
          -- "active" within 1e-6: bound propagation rounds outwards, the derived bound sits ~1e-9 off the vertex
          let near (b : Ext Rat) : Bool := match b with | .fin q => close q xv | _ => false
          (!(Ext.eq lo lo') && near lo') || (!(Ext.eq hi hi') && near hi')
        | _, _ => false
    | _ => false

/-- compile path: `src` is the LP the user wrote, `comp` the LinearModel the solver saw (derived bounds baked into the
domains).  A wrong price with a derived bound active at the optimum is the derived-bound interaction (known finding). -/
def checkShadowCompiled (src comp : LinModel (Ext Rat)) (r : ImplRes (Ext Rat)) : Sexp :=
  let a := checkShadow src r
  match a with
  | .list (.atom "violation" :: .atom kind :: rest) =>
    if (kind == "shadow-price-wrong-value" || kind == "shadow-price-wrong-sign" || kind == "inactive-row-nonzero-shadow-price")
        && derivedBoundActive src comp then viol "derived-bound-active-at-optimum" (.atom kind :: rest)
    else a
  | _ => a

end SolveOracle
end Rooc
