/- Protocol encoding of the shared data types (Appendix B of DESIGN.md). Import-free. -/
import Rooc.Exp
namespace Rooc
open Sexp

def BinOp.name : BinOp → String
  | .add => "add" | .sub => "sub" | .mul => "mul" | .div => "div" | .and => "and"
  | .or => "or" | .xor => "xor" | .implies => "implies" | .iff => "iff"
def BinOp.ofName : String → Option BinOp
  | "add" => some .add | "sub" => some .sub | "mul" => some .mul | "div" => some .div
  | "and" => some .and | "or" => some .or | "xor" => some .xor | "implies" => some .implies
  | "iff" => some .iff | _ => none
def UnOp.name : UnOp → String | .neg => "neg" | .not => "not"
def UnOp.ofName : String → Option UnOp | "neg" => some .neg | "not" => some .not | _ => none

variable {α : Type} [Wire α]

def encNum (v : α) : Sexp := .atom (Wire.enc v)
def decNumS : Sexp → Option α
  | .atom s => decNum s
  | _ => none

partial def Exp.enc : Exp α → Sexp
  | .num v => app "num" [encNum v]
  | .var s => app "var" [.str s]
  | .abs e => app "abs" [e.enc]
  | .min es => app "min" (es.map Exp.enc)
  | .max es => app "max" (es.map Exp.enc)
  | .and es => app "and" (es.map Exp.enc)
  | .or es => app "or" (es.map Exp.enc)
  | .not e => app "not" [e.enc]
  | .xor a b => app "xor" [a.enc, b.enc]
  | .implies a b => app "implies" [a.enc, b.enc]
  | .iff a b => app "iff" [a.enc, b.enc]
  | .bin op a b => app "bin" [.atom op.name, a.enc, b.enc]
  | .un op e => app "un" [.atom op.name, e.enc]

def optAll {β : Type} : List (Option β) → Option (List β)
  | [] => some []
  | none :: _ => none
  | some x :: xs => (optAll xs).map (x :: ·)

partial def Exp.dec : Sexp → Option (Exp α)
  | .list [.atom "num", n] => (decNumS n).map .num
  | .list [.atom "var", .str s] => some (.var s)
  | .list [.atom "abs", e] => (Exp.dec e).map .abs
  | .list (.atom "min" :: es) => (optAll (es.map Exp.dec)).map .min
  | .list (.atom "max" :: es) => (optAll (es.map Exp.dec)).map .max
  | .list (.atom "and" :: es) => (optAll (es.map Exp.dec)).map .and
  | .list (.atom "or" :: es) => (optAll (es.map Exp.dec)).map .or
  | .list [.atom "not", e] => (Exp.dec e).map .not
  | .list [.atom "xor", a, b] => do pure (.xor (← Exp.dec a) (← Exp.dec b))
  | .list [.atom "implies", a, b] => do pure (.implies (← Exp.dec a) (← Exp.dec b))
  | .list [.atom "iff", a, b] => do pure (.iff (← Exp.dec a) (← Exp.dec b))
  | .list [.atom "bin", .atom op, a, b] => do pure (.bin (← BinOp.ofName op) (← Exp.dec a) (← Exp.dec b))
  | .list [.atom "un", .atom op, e] => do pure (.un (← UnOp.ofName op) (← Exp.dec e))
  | _ => none

end Rooc
