/-
M2 — `Exp` (port of packages/rooc/src/parser/model_transformer/model.rs):
AST, `simplify`, `flatten`.  Import-free; polymorphic in the number type.
-/
import Rooc.Num
import Rooc.Sexp
namespace Rooc

inductive BinOp | add | sub | mul | div | and | or | xor | implies | iff
  deriving Repr, DecidableEq, Inhabited
inductive UnOp | neg | not
  deriving Repr, DecidableEq, Inhabited

inductive Exp (α : Type) where
  | num (v : α)
  | var (name : String)
  | abs (e : Exp α)
  | min (es : List (Exp α))
  | max (es : List (Exp α))
  | and (es : List (Exp α))
  | or (es : List (Exp α))
  | not (e : Exp α)
  | xor (a b : Exp α)
  | implies (a b : Exp α)
  | iff (a b : Exp α)
  | bin (op : BinOp) (a b : Exp α)
  | un (op : UnOp) (e : Exp α)
  deriving Repr, Inhabited

namespace Exp
variable {α : Type} [Arith α]
open Arith

/-- Rust `num_truthy` : `value != 0.0` (NaN is truthy). -/
def numTruthy (v : α) : Bool := !(Arith.eq v zero)
/-- Rust `logic_number`. -/
def logicNumber (b : Bool) : α := if b then one else zero

/-- divisor test of `may_be_undefined`: `matches!(rhs, Exp::Number(d) if d != 0.0)` (NaN counts as
non-zero, as in Rust). -/
def isNonzeroLit : Exp α → Bool
  | .num d => Arith.ne d zero
  | _ => false

mutual
/-- Port of `Exp::may_be_undefined` (rooc 9f62afd): the (already simplified) expression contains a
division whose divisor is not a non-zero literal, or an empty min/max. -/
def mayBeUndefined : Exp α → Bool
  | .num _ => false
  | .var _ => false
  | .bin .div l r => !(isNonzeroLit r) || mayBeUndefined l || mayBeUndefined r
  | .bin _ l r => mayBeUndefined l || mayBeUndefined r
  | .xor l r => mayBeUndefined l || mayBeUndefined r
  | .implies l r => mayBeUndefined l || mayBeUndefined r
  | .iff l r => mayBeUndefined l || mayBeUndefined r
  | .un _ e => mayBeUndefined e
  | .abs e => mayBeUndefined e
  | .not e => mayBeUndefined e
  | .min es => es.isEmpty || mayBeUndefinedAny es
  | .max es => es.isEmpty || mayBeUndefinedAny es
  | .and es => mayBeUndefinedAny es
  | .or es => mayBeUndefinedAny es
/-- `exps.iter().any(|e| e.may_be_undefined())` -/
def mayBeUndefinedAny : List (Exp α) → Bool
  | [] => false
  | e :: es => mayBeUndefined e || mayBeUndefinedAny es
end

/-- the two loops of `simplify_logic_nary` applied to children that are already simplified. -/
def naryFlatten (isAnd : Bool) : List (Exp α) → List (Exp α)
  | [] => []
  | e :: es =>
    match isAnd, e with
    | true, .and inner => inner ++ naryFlatten isAnd es
    | false, .or inner => inner ++ naryFlatten isAnd es
    | _, e => e :: naryFlatten isAnd es

/-- second loop when no flattened operand may be undefined: `none` = short-circuit on the absorbing
constant. -/
def naryScan (isAnd : Bool) : List (Exp α) → Option (List (Exp α))
  | [] => some []
  | .num v :: es =>
    let t := numTruthy v
    if isAnd && !t then none
    else if !isAnd && t then none
    else naryScan isAnd es
  | e :: es => (naryScan isAnd es).map (e :: ·)

/-- second loop when some flattened operand may be undefined (`any_undefined`): no short-circuit;
identity constants are dropped, absorbing constants stay in the result. -/
def naryKeep (isAnd : Bool) : List (Exp α) → List (Exp α)
  | [] => []
  | .num v :: es =>
    if numTruthy v == isAnd then naryKeep isAnd es else .num v :: naryKeep isAnd es
  | e :: es => e :: naryKeep isAnd es

/-- the second loop of `simplify_logic_nary` (rooc 9f62afd) on the flattened list. -/
def naryStep (isAnd : Bool) (flattened : List (Exp α)) : Option (List (Exp α)) :=
  if mayBeUndefinedAny flattened then some (naryKeep isAnd flattened) else naryScan isAnd flattened

def naryCore (isAnd : Bool) (simplified : List (Exp α)) : Exp α :=
  match naryStep isAnd (naryFlatten isAnd simplified) with
  | none => .num (if isAnd then zero else one)
  | some [] => .num (logicNumber isAnd)
  | some [e] => e
  | some res => if isAnd then .and res else .or res

def notCore : Exp α → Exp α
  | .num v => .num (logicNumber (!(numTruthy v)))
  | e => .not e

def xorCore : Exp α → Exp α → Exp α
  | .num a, .num b => .num (logicNumber (numTruthy a != numTruthy b))
  | a, b => .xor a b
def impliesCore : Exp α → Exp α → Exp α
  | .num a, .num b => .num (logicNumber (!(numTruthy a) || numTruthy b))
  | a, b => .implies a b
def iffCore : Exp α → Exp α → Exp α
  | .num a, .num b => .num (logicNumber (numTruthy a == numTruthy b))
  | a, b => .iff a b

/-- `collect::<Option<Vec<f64>>>` over simplified children. -/
def allNums : List (Exp α) → Option (List α)
  | [] => some []
  | .num v :: es => (allNums es).map (v :: ·)
  | _ :: _ => none

def addCore : Exp α → Exp α → Exp α
  | .num a, .num b => .num (add a b)
  | .num a, r => if Arith.eq a zero then r else .bin .add (.num a) r
  | l, .num b => if Arith.eq b zero then l else .bin .add l (.num b)
  | l, r => .bin .add l r
def subCore : Exp α → Exp α → Exp α
  | .num a, .num b => .num (sub a b)
  | l, .num b => if Arith.eq b zero then l else .bin .sub l (.num b)
  | l, r => .bin .sub l r
def isNumEq (e : Exp α) (c : α) : Bool := match e with | .num v => Arith.eq v c | _ => false
def mulCore (l r : Exp α) : Exp α :=
  match l, r with
  | .num a, .num b => .num (mul a b)
  | l, r =>
    if (isNumEq l zero && !(mayBeUndefined r)) || (isNumEq r zero && !(mayBeUndefined l)) then .num zero
    else if isNumEq l one then r
    else if isNumEq r one then l
    else .bin .mul l r
def divCore (l r : Exp α) : Exp α :=
  match l, r with
  | .num a, .num b => if Arith.eq b zero then .bin .div (.num a) (.num b) else .num (div a b)
  | l, r => if isNumEq r one then l else .bin .div l r

/-- Port of `Exp::simplify`.  Where the Rust re-enters `simplify` on a node whose children were
just simplified (`BinOp::And => Exp::And(vec![lhs, rhs]).simplify()` etc.) the model applies the
node-level step directly; `Rooc.Props.C10.simplify_idem` is what justifies that shortcut, and the
correspondence run checks it against the real code. -/
def simplify : Exp α → Exp α
  | .bin op l r =>
    let l' := simplify l
    let r' := simplify r
    match op with
    | .add => addCore l' r'
    | .sub => subCore l' r'
    | .mul => mulCore l' r'
    | .div => divCore l' r'
    | .and => naryCore true [l', r']
    | .or => naryCore false [l', r']
    | .xor => xorCore l' r'
    | .implies => impliesCore l' r'
    | .iff => iffCore l' r'
  | .un .neg e =>
    match simplify e with
    | .num v => .num (neg v)
    | e' => .un .neg e'
  | .un .not e => notCore (simplify e)
  | .abs e =>
    match simplify e with
    | .num v => .num (Arith.abs v)
    | e' => .abs e'
  | .and es => naryCore true (es.map simplify)
  | .or es => naryCore false (es.map simplify)
  | .not e => notCore (simplify e)
  | .xor a b => xorCore (simplify a) (simplify b)
  | .implies a b => impliesCore (simplify a) (simplify b)
  | .iff a b => iffCore (simplify a) (simplify b)
  | .max es =>
    if es.isEmpty then .max [] else
    let es' := es.map simplify
    match allNums es' with
    | some ns => .num (ns.foldl fmax negInf)
    | none => .max es'
  | .min es =>
    if es.isEmpty then .min [] else
    let es' := es.map simplify
    match allNums es' with
    | some ns => .num (ns.foldl fmin posInf)
    | none => .min es'
  | e => e

def isAddSub : BinOp → Bool | .add | .sub => true | _ => false

/-- Port of `Exp::flatten` with explicit fuel (the Rust recursion re-enters on a *larger* term
after distributing; see `Rooc.Props.C10.flatten_fuel_suffices`). `none` = fuel exhausted. -/
def flattenF : Nat → Exp α → Option (Exp α)
  | 0, _ => none
  | n+1, .bin .mul (.bin iop l r) c =>
    if isAddSub iop then flattenF n (.bin iop (.bin .mul l c) (.bin .mul r c))
    else flattenMulRest n (.bin iop l r) c
  | n+1, .bin .mul l r => flattenMulRest n l r
  | n+1, .bin .div (.bin iop l r) c =>
    if isAddSub iop then do
      let a ← flattenF n (.bin .div l c)
      let b ← flattenF n (.bin .div r c)
      pure (.bin iop a b)
    else do
      let a ← flattenF n (.bin iop l r)
      let b ← flattenF n c
      pure (.bin .div a b)
  | n+1, .bin op l r => do
      let a ← flattenF n l
      let b ← flattenF n r
      pure (.bin op a b)
  | _+1, e => some e
where
  /-- rules 2,3,4 and the default for a `Mul` whose lhs is not an Add/Sub. -/
  flattenMulRest (n : Nat) (l r : Exp α) : Option (Exp α) :=
    match l, r with
    | c, .bin iop a b =>
      if isAddSub iop then flattenF n (.bin iop (.bin .mul c a) (.bin .mul c b))
      else match c with
        | .un .neg l' => (flattenF n (.bin .mul l' (.bin iop a b))).map (.un .neg ·)
        | _ => do
          let x ← flattenF n c
          let y ← flattenF n (.bin iop a b)
          pure (.bin .mul x y)
    | .un .neg l', c => (flattenF n (.bin .mul l' c)).map (.un .neg ·)
    | c, .un .neg r' => (flattenF n (.bin .mul c r')).map (.un .neg ·)
    | l, r => do
      let x ← flattenF n l
      let y ← flattenF n r
      pure (.bin .mul x y)

end Exp
end Rooc
