/-
Well-formedness hypotheses of the C17 round-trip theorem, as decidable predicates where possible
(so that the driver can count how many generated cases satisfy them).  Import-free.
-/
import Rooc.LpFormat
namespace Rooc.Lp
open Rooc Arith

/-- an unsigned number token: a digit followed by digits and periods (what Rust prints for a
non-negative finite `f64`) -/
def numWord : List Char → Bool
  | [] => false
  | c :: cs => isDig c && cs.all isNumChar

/-- a name of the LP format: starts with a letter or an allowed symbol, continues with name characters -/
def nameWord : List Char → Bool
  | [] => false
  | c :: cs => isNameStart c && cs.all isNameChar

/-- a name that can be exported: a valid LP name that is not a word of the format itself -/
def nameOk (s : String) : Bool := nameWord s.toList && !isReserved s.toList

section
variable {α : Type} [Arith α]

/-- What the theorems assume about the opaque number tokens of one value `v`:
a non-negative value prints as an unsigned number word that the number lexer reads back as `v`;
a negative value prints as `-` followed by the token of its magnitude. -/
structure TokOk (tok : α → List Char) (lexN : List Char → Option α) (v : α) : Prop where
  nonneg : Arith.lt v zero = false → numWord (tok v) = true ∧ lexN (tok v) = some v
  neg : Arith.lt v zero = true → tok v = '-' :: tok (Arith.abs v)

/-- numbers printed as coefficients, right-hand sides and offset (must be finite) -/
def coefNums (lm : LinModel α) : List α :=
  lm.objective ++ [lm.offset] ++ lm.rows.flatMap fun r => r.coeffs ++ [r.rhs]

/-- real-valued domain bounds -/
def boundNums : List (DomVar α) → List α
  | [] => []
  | d :: ds => match d.ty with
    | .nnreal lo hi => lo :: hi :: boundNums ds
    | .real lo hi => lo :: hi :: boundNums ds
    | _ => boundNums ds

/-- integer domain bounds -/
def intBounds : List (DomVar α) → List Int
  | [] => []
  | d :: ds => match d.ty with
    | .int lo hi => lo :: hi :: intBounds ds
    | _ => intBounds ds

/-- The models the round-trip theorem talks about. -/
structure WellFormed (tok : α → List Char) (lexN : List Char → Option α) (lm : LinModel α) : Prop where
  vars_ok : ∀ v ∈ lm.vars, nameOk v = true
  rows_ok : ∀ r ∈ lm.rows, r.name.toList ≠ [] → nameOk r.name = true
  dom_ok : ∀ d ∈ lm.domain, nameOk d.name = true
  finite : ∀ v ∈ coefNums lm, Arith.isFinite v = true
  bounds_not_nan : ∀ v ∈ boundNums lm.domain, Arith.isNaN v = false
  toks : ∀ v ∈ coefNums lm ++ boundNums lm.domain, Arith.isFinite v = true →
    TokOk tok lexN v ∧ TokOk tok lexN (Arith.abs v)
  zero_tok : lexN ['0'] = some zero
  int_toks : ∀ i ∈ intBounds lm.domain, lexN (natChars i.natAbs) = some (ofInt (i.natAbs : Int))

end
end Rooc.Lp
