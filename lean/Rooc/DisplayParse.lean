/-
C12 ⇄ C09: what the rendering of a compiled expression denotes for the parser model.

* `toP tok e` — the `PreExp` tree the text `Display` prints for `e` stands for (numbers are opaque
  tokens: a digit string is an integer literal, anything else a float literal);
* `dToks tok ctx e` — token-level twin of `Display.showE` (same case structure, same parentheses);
* `intoExp numOf p` — port of the arms of `PreExp::into_exp` (parser/il/il_exp.rs) the fragment uses:
  primitives, variables (no constant of that name in scope), `BinaryOperation`, `UnaryOperation`.
Import-free.
-/
import Rooc.Display
import Rooc.Syntax.Parse
import Rooc.Syntax.Render
import Rooc.Syntax.FormatToks
import Rooc.Syntax.ProgramToks
import Rooc.Syntax.Program
namespace Rooc.Display
open Rooc Rooc.Syntax

/-- a non-empty digit string: the lexer's `integer` -/
def isIntText (s : String) : Bool := !s.toList.isEmpty && s.toList.all isDigit

/-- the literal a number token is read as -/
def numP (s : String) : PExp := if isIntText s then .int (digitsToNat s.toList) else .num s
def numTok (s : String) : Tok := if isIntText s then .int s else .float s

section
variable {α : Type}

/-- the `PreExp` the rendering of `e` stands for (`.prim "?"` outside the fragment) -/
def toP (tok : α → String) : Exp α → PExp
  | .num v => numP (tok v)
  | .var n => .var n
  | .bin o l r => .bin o (toP tok l) (toP tok r)
  | .un o e => .un o (toP tok e)
  | .not e => .un .not (toP tok e)
  | .and [a, b] => .bin .and (toP tok a) (toP tok b)
  | .or [a, b] => .bin .or (toP tok a) (toP tok b)
  | .xor a b => .bin .xor (toP tok a) (toP tok b)
  | .implies a b => .bin .implies (toP tok a) (toP tok b)
  | .iff a b => .bin .iff (toP tok a) (toP tok b)
  | _ => .prim "?"

/-- token twin of `logic_operand_to_string` -/
def logicToks (e : Exp α) (ts : List Tok) : List Tok :=
  if isLeaf e then ts
  else match e with
    | .not inner => if isLeaf inner then ts else parenToks ts
    | _ => parenToks ts

/-- token twin of `logicWrap` -/
def logicWrapToks (ctx : Option (BinOp × Bool)) (ts : List Tok) : List Tok :=
  match ctx with
  | none => ts
  | some _ => parenToks ts

/-- token twin of `showE` -/
def dToks (tok : α → String) : Option (BinOp × Bool) → Exp α → List Tok
  | ctx, .bin op l r =>
    let body := dToks tok (some (op, false)) l ++ binKwTok op :: dToks tok (some (op, true)) r
    match ctx with
    | none => body
    | some (parent, isRhs) => if parensRule parent isRhs op then parenToks body else body
  | _, .num v => [numTok (tok v)]
  | _, .var n => [.word n]
  | _, .un op e => unKwTok op :: (if isLeaf e then dToks tok none e else parenToks (dToks tok none e))
  | _, .not e => .word "not" :: (if isLeaf e then dToks tok none e else parenToks (dToks tok none e))
  | ctx, .and [a, b] => logicWrapToks ctx (logicToks a (dToks tok none a) ++ .word "and" :: logicToks b (dToks tok none b))
  | ctx, .or [a, b] => logicWrapToks ctx (logicToks a (dToks tok none a) ++ .word "or" :: logicToks b (dToks tok none b))
  | ctx, .xor a b => logicWrapToks ctx (logicToks a (dToks tok none a) ++ .word "xor" :: logicToks b (dToks tok none b))
  | ctx, .implies a b => logicWrapToks ctx (logicToks a (dToks tok none a) ++ .word "implies" :: logicToks b (dToks tok none b))
  | ctx, .iff a b => logicWrapToks ctx (logicToks a (dToks tok none a) ++ .word "iff" :: logicToks b (dToks tok none b))
  | _, _ => []

/-- the dedicated logic nodes (parenthesised as operands of a `BinOp`) -/
def isLogicNode : Exp α → Bool
  | .and _ | .or _ | .xor _ _ | .implies _ _ | .iff _ _ => true
  | _ => false

def isArith : BinOp → Bool
  | .add | .sub | .mul | .div => true
  | _ => false
end

section
variable {α : Type} [Arith α]

/-- the `BinaryOperation` arm of `into_exp` -/
def mkBinExp (op : BinOp) (l r : Exp α) : Exp α :=
  match op with
  | .and => .and [l, r]
  | .or => .or [l, r]
  | .xor => .xor l r
  | .implies => .implies l r
  | .iff => .iff l r
  | op => .bin op l r

/-- `PreExp::into_exp` on primitives, variables, binary and unary operations (`none`: another arm). -/
def intoExp (numOf : String → α) : PExp → Option (Exp α)
  | .int v => some (.num (Arith.ofInt (v : Int)))             -- `Primitive::Integer(i) => i as f64`
  | .num s => some (.num (numOf s))
  | .bool b => some (.num (if b then Arith.one else Arith.zero))
  | .var n => some (.var n)
  | .bin op l r =>
    match intoExp numOf l, intoExp numOf r with
    | some l', some r' => some (mkBinExp op l' r')
    | _, _ => none
  | .un .not e => (intoExp numOf e).map .not
  | .un .neg e => (intoExp numOf e).map (.un .neg)
  | _ => none
end

end Rooc.Display

namespace Rooc.Display
open Rooc Rooc.Syntax

def cmpOf : Rooc.Cmp → Syntax.Cmp
  | .le => .le | .ge => .ge | .eq => .eq | .lt => .lt | .gt => .gt

section
variable {α : Type}

/-- token twin of `impl Display for Constraint` -/
def constraintDToks (tok : α → String) (c : Constraint α) : List Tok :=
  (if c.name.isEmpty then [] else [.word c.name, .colon])
    ++ dToks tok none c.lhs ++ (if c.isAssert then [] else cmpTok (cmpOf c.cmp) :: dToks tok none c.rhs)

/-- the `PreConstraint` the rendering of a compiled constraint stands for -/
def toPConstraint (tok : α → String) (c : Constraint α) : PConstraint :=
  { name := if c.name.isEmpty then none else some (.plain c.name),
    lhs := toP tok c.lhs,
    cmp := if c.isAssert then .eq else cmpOf c.cmp,
    rhs := if c.isAssert then .bool true else toP tok c.rhs,
    logic := c.isAssert, iterVars := [], iters := [] }
end
end Rooc.Display
