/-
C12 ⇄ C11, run-time half of the whole-model round trip: decidable twins of the hypotheses of
`parse_display_model` / `parse_display_lin` (`Props/C12.lean`), and the check the driver runs on every rendered
model inside them — the lexer model cuts the rendered TEXT into exactly `modelToks` / `linToks`, and the
program-level parser model reads the text back as `modelProgram` / `linProgram`.  (The theorems are about the
tokens; the text ⇄ token link at program level — newlines, indentation, `3x` adjacency — is only checked.)
Import-free.
-/
import Rooc.DisplayProgram
import Rooc.Syntax.Wire
namespace Rooc.Display
open Rooc Rooc.Syntax Arith

/-- a plain identifier: a letter followed by letters and digits -/
def plainName (s : String) : Bool :=
  match s.toList with
  | c :: rest => isLetter c && rest.all (fun d => isLetter d || isDigit d)
  | [] => false

def nameOkB (s : String) : Bool := plainName s && !isKeyword s

/-- a number token of the grammar: digits that fit `i64` (written canonically), or `ddd.ddd` -/
def numTextOk (s : String) : Bool :=
  if isIntText s then decide (digitsToNat s.toList ≤ i64Max) && natDigits (digitsToNat s.toList) == s.toList
  else isFloatText s

section
variable {α : Type} [Arith α]

/-- a printed value: non-negative → one number token; negative → `-` and the token of the magnitude -/
def valOkB (tok : α → String) (v : α) : Bool :=
  if Arith.lt v zero then tok v == "-" ++ tok (Arith.abs v) && numTextOk (tok (Arith.abs v)) else numTextOk (tok v)

def boundOkB (tok : α → String) (v : α) : Bool :=
  Arith.eq v posInf || Arith.eq v negInf || valOkB tok v

def tyOkB (tok : α → String) : VarType α → Bool
  | .bool => true
  | .nnreal lo hi => boundOkB tok lo && boundOkB tok hi
  | .real lo hi => boundOkB tok lo && boundOkB tok hi
  | .int lo hi => decide (lo.natAbs ≤ i64Max) && decide (hi.natAbs ≤ i64Max)

def domOkB (tok : α → String) (dom : List (DomVar α)) : Bool :=
  dom.all fun d => nameOkB d.name && tyOkB tok d.ty

/-- decidable twin of `Frag` (without the value half of `NumOk`) -/
def fragB (tok : α → String) : Exp α → Bool
  | .num v => numTextOk (tok v)
  | .var n => nameOkB n
  | .bin o l r => isArith o && fragB tok l && fragB tok r
  | .un .neg e => fragB tok e
  | .not e => fragB tok e
  | .and [a, b] => fragB tok a && fragB tok b
  | .or [a, b] => fragB tok a && fragB tok b
  | .xor a b => fragB tok a && fragB tok b
  | .implies a b => fragB tok a && fragB tok b
  | .iff a b => fragB tok a && fragB tok b
  | _ => false

def modelFragB (tok : α → String) (m : Model α) : Bool :=
  (m.optType == .satisfy || fragB tok m.objective)
  && !m.constraints.isEmpty
  && m.constraints.all (fun c => (c.name.isEmpty || nameOkB c.name) && fragB tok c.lhs && (c.isAssert || fragB tok c.rhs))
  && domOkB tok m.domain

def coefOkB (tok : α → String) (c : α) : Bool :=
  isZero c || (match (formatVarParts c).2 with | none => true | some m => numTextOk (tok m))

def linFragB (tok : α → String) (lm : LinModel α) : Bool :=
  lm.vars.all nameOkB
  && !lm.rows.isEmpty
  && lm.rows.all (fun r => (r.name.isEmpty || nameOkB r.name) && r.coeffs.all (coefOkB tok) && (isZero r.rhs || valOkB tok r.rhs))
  && (lm.optType == .satisfy ||
      (lm.objective.all (coefOkB tok) &&
        (isZero lm.offset || (if floatLt lm.offset zero then numTextOk (tok (Arith.abs lm.offset)) else numTextOk (tok lm.offset)))))
  && domOkB tok lm.domain

/-- The token rules of grammar.pest that decide how a rendered term `2.5x` / `3x_1` is cut — as the lexer model
(`Syntax/Tok.lean`, digit and word branches of `lexAux`) and the token twins implement them.  Compared with
`Gen.ruleShapes`, which tools/extract.py regenerates from /repo's grammar.pest before every check: a changed
rule (e.g. an exponent part in `float`, which makes `2.5e1` ONE number instead of `2.5` times the variable
`e1`) is reported by the driver on every rendered model of the fragment instead of being silently modelled
the old way. -/
def tokenRulesModelled : List (String × String × String) :=
  [("number", "_", "float | integer"),
   ("integer", "@", "'0'..'9'+"),
   ("float", "@", "'0'..'9'+ ~ \".\" ~ ('0'..'9')+"),
   ("implicit_mul", "", "(number | parenthesis){2,} ~ variable? | (number | parenthesis) ~ variable"),
   ("simple_variable", "@", "\"$\"? ~ \"_\"* ~ LETTER ~ (LETTER | NUMBER)*")]

/-- the first token rule whose extracted shape is not the modelled one -/
def grammarDrift : Option String :=
  (tokenRulesModelled.find? fun r => !(Gen.ruleShapes.contains r)).map (·.1)

/-- `none`: fine (or outside the fragment / the lexer model declines); `some what`: the link is broken -/
def linkCheck (text : String) (toks : List Tok) (pm : PModel) : Option String :=
  match grammarDrift with
  | some rule => some ("grammar-rule-changed-" ++ rule)
  | none =>
  match lex (text.toList ++ ['\n']) with
  | .unsupported => none
  | .ok ts =>
    if ts != toks then some "tokens" else
    match parseProgramText text.toList with
    | .ok pm' => if pm'.enc == pm.enc then none else some "program"
    | .unsupported => none
    | .err _ => some "rejected"

def modelLink (tok : α → String) (m : Model α) : Option String :=
  if modelFragB tok m then linkCheck (displayModel tok m) (modelToks tok m) (modelProgram tok m) else none

def linLink (tok : α → String) (lm : LinModel α) : Option String :=
  if linFragB tok lm then
    match displayLin tok lm, linToks tok lm, linProgram tok lm with
    | some text, some ts, some pm => linkCheck text ts pm
    | none, none, none => none
    | _, _, _ => some "partiality"
  else none

end
end Rooc.Display
