/- S-expressions for the line protocol (one request / one answer per line). Import-free. -/
namespace Rooc

inductive Sexp where
  | atom (s : String)
  | str  (s : String)          -- a quoted string
  | list (xs : List Sexp)
  deriving Repr, Inhabited, BEq

namespace Sexp

def isDelim (c : Char) : Bool := c == '(' || c == ')' || c == ' ' || c == '"' || c == '\n' || c == '\t' || c == '\r'

def readAtom : List Char → List Char → List Char × List Char
  | [], acc => (acc.reverse, [])
  | c :: cs, acc => if isDelim c then (acc.reverse, c :: cs) else readAtom cs (c :: acc)

def readStr : List Char → List Char → Option (List Char × List Char)
  | [], _ => none
  | '\\' :: 'n' :: cs, acc => readStr cs ('\n' :: acc)
  | '\\' :: c :: cs, acc => readStr cs (c :: acc)
  | '"' :: cs, acc => some (acc.reverse, cs)
  | c :: cs, acc => readStr cs (c :: acc)

/-- Parser with an explicit stack of partially-read lists (no nested recursion, total by fuel). -/
def parseAux : Nat → List Char → List (List Sexp) → Option Sexp
  | 0, _, _ => none
  | fuel+1, cs, stack =>
    match cs with
    | [] => match stack with
      | [[x]] => some x
      | _ => none
    | c :: rest =>
      if c == ' ' || c == '\n' || c == '\t' || c == '\r' then parseAux fuel rest stack
      else if c == '(' then parseAux fuel rest ([] :: stack)
      else if c == ')' then
        match stack with
        | top :: next :: more => parseAux fuel rest ((Sexp.list top.reverse :: next) :: more)
        | _ => none
      else if c == '"' then
        match readStr rest [] with
        | none => none
        | some (s, rest') =>
          match stack with
          | top :: more => parseAux fuel rest' ((Sexp.str (String.ofList s) :: top) :: more)
          | [] => none
      else
        let (a, rest') := readAtom (c :: rest) []
        match stack with
        | top :: more => parseAux fuel rest' ((Sexp.atom (String.ofList a) :: top) :: more)
        | [] => none

def parse (s : String) : Option Sexp :=
  let cs := s.toList
  parseAux (cs.length + 2) cs [[]]

def escape (s : String) : String :=
  String.ofList (s.toList.flatMap fun c =>
    if c == '"' then ['\\', '"'] else if c == '\\' then ['\\', '\\'] else if c == '\n' then ['\\', 'n'] else [c])

partial def render : Sexp → String
  | atom s => s
  | str s => "\"" ++ escape s ++ "\""
  | list xs => "(" ++ " ".intercalate (xs.map render) ++ ")"

instance : ToString Sexp := ⟨render⟩

def sym (s : String) : Sexp := atom s
def app (h : String) (xs : List Sexp) : Sexp := list (atom h :: xs)

end Sexp
end Rooc
