#!/usr/bin/env python3
"""Resolves the routine conflicts of merging an agent branch: known_findings.json (union by key), lean/Rooc.lean
(regenerated), MANIFEST.json (regenerated), evidence/*.json (ours), tools/props/*.json (theirs + our extra keys)."""
import json, subprocess, os, sys
ROOT = os.path.dirname(os.path.dirname(os.path.abspath(__file__)))
def show(stage, path): return subprocess.run(["git", "show", f":{stage}:{path}"], capture_output=True, text=True, cwd=ROOT).stdout
conf = subprocess.run(["git", "diff", "--name-only", "--diff-filter=U"], capture_output=True, text=True, cwd=ROOT).stdout.split()
left = []
for f in conf:
    if f == "known_findings.json":
        ours, theirs = json.loads(show(2, f)), json.loads(show(3, f))
        keys = {x["key"] for x in ours["findings"]}
        try: base = {x["key"]: x for x in json.loads(show(1, f))["findings"]}
        except Exception: base = {}
        for x in theirs["findings"]:
            if x["key"] not in keys:
                ours["findings"].append(x); print("finding added:", x["key"])
            else:
                i = next(i for i, y in enumerate(ours["findings"]) if y["key"] == x["key"])
                # changed on their side only -> take theirs
                if ours["findings"][i] != x and base.get(x["key"]) == ours["findings"][i]:
                    ours["findings"][i] = x; print("finding updated:", x["key"])
        json.dump(ours, open(os.path.join(ROOT, f), "w"), indent=1)
    elif f == "lean/Rooc.lean" or f == "MANIFEST.json":
        subprocess.run(["git", "checkout", "--ours", f], cwd=ROOT)
    elif f.startswith("evidence/"):
        subprocess.run(["git", "checkout", "--ours", f], cwd=ROOT)
    elif f.startswith("tools/props/"):
        o, t = json.loads(show(2, f)), json.loads(show(3, f))
        for k, v in o.items():
            if k not in t: t[k] = v
        json.dump(t, open(os.path.join(ROOT, f), "w"), indent=1)
    else:
        left.append(f)
print("still conflicted:", left)
