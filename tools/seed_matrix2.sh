#!/bin/bash
# own property + related checks per seeded change
declare -A REL=( [C04]="C04,C05,C13,C14" [C05]="C05,C04,C13,C14,C15" [C07]="C07,C01,C08,C03" [C09]="C09,C11,C03" [C11]="C11,C09" [C12]="C12,C17,C11" [C13]="C13,C14,C05" [C14]="C14,C13,C05" [C15]="C15,C05,C04" [C17]="C17,C12" [C20]="C20,C04" )
for p in "${!REL[@]}"; do for k in 1 2 3; do [ -d /verif/seeded/$p-$k ] && python3 /verif/tools/seed_matrix.py ${REL[$p]} $p-$k; done; done
