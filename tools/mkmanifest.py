#!/usr/bin/env python3
"""Regenerates /verif/MANIFEST.json from tools/props/*.json (run after editing any of them)."""
import json, os, sys
ROOT = os.path.dirname(os.path.dirname(os.path.abspath(__file__)))
sys.path.insert(0, os.path.join(ROOT, "tools"))
import propcfg
checks, na = [], []
for pid, c in sorted(propcfg.PROPS.items()):
    if not c.get("claimed"):
        na.append({"property_id": pid, "reason": c["not_applicable_reason"]})
        continue
    checks.append({
        "property_id": pid,
        "quick_cmd": f"./check {pid} --tier quick",
        "thorough_cmd": f"./check {pid} --tier thorough",
        "evidence_file": f"/verif/evidence/{pid}.json",
        "replay_cmd_template": f"./check {pid} --replay {{path}}",
        "engine": "lean-model+harness",
        "level_claimed": {"category": c["level"], "text": c["level_text"], "design_ref": c["design_ref"]},
        "level_note": c["level_note"],
        "technique": c["technique"],
    })
m = {
    "version": 1,
    "setup_cmd": "./setup.sh",
    "hooks": {
        "guard": "verif_hooks",
        "enable": "cargo feature: the harness depends on rooc with features=[\"verif_hooks\"] (harness/Cargo.toml)",
        "baseline_off_cmd": "cd /repo/packages/rooc && cargo test --workspace --no-fail-fast --offline",
        "source_commits": json.load(open(os.path.join(ROOT, "tools", "hook_commits.json"))),
        "add_only": True,
    },
    "engines": [
        {"name": "lean-model+harness", "path": "/verif/lean, /verif/harness, /verif/check",
         "serves_properties": [c["property_id"] for c in checks],
         "kind_free_text": "Lean 4 model + theorems (lake project, no Mathlib require), compiled line-protocol driver roocdrv, Rust harness linking /repo's working tree, Python orchestrator"}
    ],
    "checks": checks,
    "not_applicable": na,
    "notes": "Every check: tools/extract.py regenerates lean/Rooc/Gen from /repo; lake build of the property's theorem module; axiom audit; cargo build of the harness against /repo's working tree; correspondence diff model vs implementation; exact-oracle search; evidence. Known genuine defects are listed in known_findings.json.",
}
json.dump(m, open(os.path.join(ROOT, "MANIFEST.json"), "w"), indent=1)
print(f"MANIFEST.json: {len(checks)} checks, {len(na)} not yet claimed")
