/-- **The fuel of `parseToks` is always enough.** -/
theorem parseToksRaw_no_fuel (toks : List Tok) : parseToksRaw toks ≠ .error .fuel := by
  unfold parseToksRaw
  have := (no_fuel (parseFuel toks)).1 toks (by simp [parseFuel])
  cases hp : parseExp (parseFuel toks) toks with
  | error e => simp only; intro h; injection h with h; exact fuel_of_eq hp this h
  | ok p =>
    obtain ⟨t, rest⟩ := p
    cases rest <;> simp

theorem parseToks_no_fuel (toks : List Tok) : parseToks toks ≠ .error .fuel := by
  unfold parseToks
  have := parseToksRaw_no_fuel toks
  cases hp : parseToksRaw toks with
  | error e => simp only; intro h; injection h with h; exact this (by rw [hp, h])
  | ok t => simp only; split <;> simp

/-- **Totality of the parser model**: every token sequence is answered with a tree or with `reject`. -/
theorem parseToks_total (toks : List Tok) : (∃ t, parseToks toks = .ok t) ∨ parseToks toks = .error .reject := by
  have h1 := parseToks_no_panic toks
  have h2 := parseToks_no_fuel toks
  cases h : parseToks toks with
  | ok t => exact Or.inl ⟨t, rfl⟩
  | error e =>
    cases e with
    | reject => exact Or.inr rfl
    | panic => exact absurd h h1
    | fuel => exact absurd h h2

end Rooc.Syntax.Proofs
