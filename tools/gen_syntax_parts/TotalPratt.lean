theorem pratt_consumes : ∀ f : Nat,
    (∀ r items t rest, expr f r items = .ok (t, rest) → rest.length < items.length)
    ∧ (∀ items t rest, nud f items = .ok (t, rest) → rest.length < items.length)
    ∧ (∀ r lhs items t rest, loop f r lhs items = .ok (t, rest) → rest.length ≤ items.length) := by
  intro f
  induction f with
  | zero => refine ⟨?_, ?_, ?_⟩ <;> intros <;> simp_all [expr, nud, loop]
  | succ f ih =>
    obtain ⟨ihE, ihN, ihL⟩ := ih
    refine ⟨?_, ?_, ?_⟩
    · intro r items t rest h
      simp only [expr] at h
      cases hn : nud f items with
      | error e => simp only [hn] at h; cases h
      | ok p =>
        obtain ⟨lhs, rest'⟩ := p
        simp only [hn] at h
        have := ihN _ _ _ hn
        have := ihL _ _ _ _ _ h
        omega
    · intro items t rest h
      cases items with
      | nil => simp [nud] at h
      | cons x tl =>
        cases x with
        | leaf t' => simp [nud] at h; simp [← h.2]
        | op rule =>
          simp only [nud] at h
          split at h
          · rename_i prec heq
            cases he : expr f (prec - 1) tl with
            | error e => simp only [he] at h; cases h
            | ok p =>
              obtain ⟨rhs, rest'⟩ := p
              simp only [he] at h
              have := ihE _ _ _ _ he
              cases hp : prefixArm rule with
              | none => simp only [hp] at h; cases h
              | some u => simp only [hp] at h; injection h with h; injection h with _ h; subst h; simp; omega
          · cases h
          · cases h
    · intro r lhs items t rest h
      simp only [loop] at h
      cases hl : lbp items with
      | error e => simp only [hl] at h; cases h
      | ok p =>
        simp only [hl] at h
        split at h
        · split at h
          · rename_i rule tl
            split at h
            · rename_i prec heq
              cases he : expr f prec tl with
              | error e => simp only [he] at h; cases h
              | ok q =>
                obtain ⟨rhs, rest'⟩ := q
                simp only [he] at h
                have := ihE _ _ _ _ he
                cases ha : infixArm rule with
                | none => simp only [ha] at h; cases h
                | some o => simp only [ha] at h; have := ihL _ _ _ _ _ h; simp; omega
            · rename_i prec heq
              cases he : expr f (prec - 1) tl with
              | error e => simp only [he] at h; cases h
              | ok q =>
                obtain ⟨rhs, rest'⟩ := q
                simp only [he] at h
                have := ihE _ _ _ _ he
                cases ha : infixArm rule with
                | none => simp only [ha] at h; cases h
                | some o => simp only [ha] at h; have := ihL _ _ _ _ _ h; simp; omega
            · cases h
          · cases h
        · injection h with h; injection h with _ h; subst h; simp

theorem shaped_of_good {res : PRes (PExp × List Item)} {t : PExp} {rest : List Item} (hg : GoodRes res)
    (h : res = .ok (t, rest)) : Shaped 2 rest := by
  subst h; exact hg

theorem pratt_fuel : ∀ f : Nat,
    (∀ r items, Shaped 0 items → 2 * items.length + 2 ≤ f → expr f r items ≠ .error .fuel)
    ∧ (∀ items, Shaped 0 items → 2 * items.length + 1 ≤ f → nud f items ≠ .error .fuel)
    ∧ (∀ r lhs items, Shaped 2 items → 2 * items.length + 1 ≤ f → loop f r lhs items ≠ .error .fuel) := by
  intro f
  induction f with
  | zero => refine ⟨?_, ?_, ?_⟩ <;> intros <;> omega
  | succ f ih =>
    obtain ⟨ihE, ihN, ihL⟩ := ih
    refine ⟨?_, ?_, ?_⟩
    · intro r items hs hf
      simp only [expr]
      cases hn : nud f items with
      | error e =>
        simp only; intro h; injection h with h; subst h
        exact ihN items hs (by omega) hn
      | ok p =>
        obtain ⟨lhs, rest⟩ := p
        simp only
        have hr := shaped_of_good ((pratt_good f).2.1 items hs) hn
        have := (pratt_consumes f).2.1 _ _ _ hn
        exact ihL r lhs rest hr (by omega)
    · intro items hs hf
      cases items with
      | nil => simp [Shaped, run] at hs
      | cons x tl =>
        cases x with
        | leaf t => simp [nud]
        | op rule =>
          have hp : isPrefixRule rule = true ∧ Shaped 1 tl := by
            by_cases h : isPrefixRule rule = true
            · exact ⟨h, by simpa [Shaped, run, h] using hs⟩
            · simp [Shaped, run, h] at hs
          simp only [nud]
          split
          · rename_i prec heq
            cases he : expr f (prec - 1) tl with
            | error e =>
              simp only; intro h; injection h with h; subst h
              exact ihE _ tl (shaped1_0 hp.2) (by simp at hf; omega) he
            | ok q =>
              obtain ⟨rhs, rest'⟩ := q
              simp only
              cases prefixArm rule <;> simp
          · simp
          · simp
    · intro r lhs items hs hf
      simp only [loop]
      cases hl : lbp items with
      | error e =>
        simp only
        cases items with
        | nil => simp [lbp] at hl
        | cons x tl =>
          cases x with
          | leaf t => simp [Shaped, run] at hs
          | op rule =>
            simp only [lbp] at hl
            split at hl
            · cases hl
            · injection hl with hl; subst hl; simp
      | ok p =>
        simp only
        split
        · split
          · rename_i rule tl
            have hp : isInfixRule rule = true ∧ Shaped 0 tl := by
              by_cases h : isInfixRule rule = true
              · exact ⟨h, by simpa [Shaped, run, h] using hs⟩
              · simp [Shaped, run, h] at hs
            split
            · rename_i prec heq
              cases he : expr f prec tl with
              | error e =>
                simp only; intro h; injection h with h; subst h
                exact ihE _ tl hp.2 (by simp at hf; omega) he
              | ok q =>
                obtain ⟨rhs, rest'⟩ := q
                simp only
                cases infixArm rule with
                | none => simp
                | some o =>
                  simp only
                  have hr := shaped_of_good ((pratt_good f).1 prec tl hp.2) he
                  have := (pratt_consumes f).1 _ _ _ _ he
                  exact ihL r _ rest' hr (by simp at hf; omega)
            · rename_i prec heq
              cases he : expr f (prec - 1) tl with
              | error e =>
                simp only; intro h; injection h with h; subst h
                exact ihE _ tl hp.2 (by simp at hf; omega) he
              | ok q =>
                obtain ⟨rhs, rest'⟩ := q
                simp only
                cases infixArm rule with
                | none => simp
                | some o =>
                  simp only
                  have hr := shaped_of_good ((pratt_good f).1 (prec - 1) tl hp.2) he
                  have := (pratt_consumes f).1 _ _ _ _ he
                  exact ihL r _ rest' hr (by simp at hf; omega)
            · simp
          · simp
        · simp

theorem prattParse_no_fuel {items : List Item} (h : Shaped 0 items) : prattParse items ≠ .error .fuel := by
  have := (pratt_fuel (2 * items.length + 2)).1 0 items h (by omega)
  unfold prattParse
  cases he : expr (2 * items.length + 2) 0 items with
  | error e => simp only; intro h'; injection h' with h'; subst h'; exact this he
  | ok p => simp

