/-
Fuel totality of the parser model: with the fuel `parseFuel toks = 6·|toks| + 10` that `parseToks` passes, no
function of the model runs out of fuel — every answer of the model is a real answer (a tree or a rejection).
Together with `parseToks_no_panic`: `parseToks` is total.  (This file is written by a generator script: one
lemma per function of the model and per property, each closed by case splitting and `grind`.)
-/
import Rooc.Proofs.NoPanic
namespace Rooc.Syntax.Proofs
open Rooc Rooc.Syntax

theorem optUnary_len (toks : List Tok) : (optUnary toks).2.length ≤ toks.length := by
  unfold optUnary
  split
  · simp
  · rename_i t r _
    cases unRule t <;> simp
  · simp

theorem skipNl_len (toks : List Tok) : (skipNl toks).length ≤ toks.length := by
  induction toks with
  | nil => simp [skipNl]
  | cons t r ih =>
    cases t <;> simp [skipNl]
    omega

theorem wordLeaf_len {w : String} {r rest : List Tok} {t : PExp} (h : wordLeaf w r = .ok (t, rest)) : rest.length ≤ r.length := by
  unfold wordLeaf at h
  repeat' split at h
  all_goals first | (cases h; done) | (injection h with h; injection h with _ h; subst h; simp)

theorem fnNameTail_len (toks : List Tok) (acc : String) : (fnNameTail toks acc).2.length ≤ toks.length := by
  fun_induction fnNameTail toks acc <;> simp <;> omega

theorem tupleNames_len (toks : List Tok) (b : Bool) (acc ns : List String) (rest : List Tok)
    (h : tupleNames toks b acc = some (ns, rest)) : rest.length < toks.length := by
  fun_induction tupleNames toks b acc <;> simp_all <;> omega

theorem arrayEntries_len (f : Nat) (toks : List Tok) (acc es : List ArrEntry) (rest : List Tok)
    (h : arrayEntries f toks acc = some (es, rest)) : rest.length < toks.length := by
  induction f generalizing toks acc es rest with
  | zero => simp [arrayEntries] at h
  | succ f ih =>
    simp only [arrayEntries] at h
    have := skipNl_len
    repeat' split at h
    all_goals first | (cases h; done) | skip
    all_goals grind

theorem arrayLeaf_len {r rest : List Tok} {t : PExp} (h : arrayLeaf r = .ok (t, rest)) : rest.length < r.length := by
  simp only [arrayLeaf] at h
  have := skipNl_len
  have := arrayEntries_len
  repeat' split at h
  all_goals first | (cases h; done) | skip
  all_goals grind

theorem graphEdges_len (f : Nat) (toks : List Tok) (acc es : List GEdge) (rest : List Tok)
    (h : graphEdges f toks acc = some (es, rest)) : rest.length < toks.length := by
  induction f generalizing toks acc es rest with
  | zero => simp [graphEdges] at h
  | succ f ih =>
    simp only [graphEdges] at h
    have := skipNl_len
    repeat' split at h
    all_goals first | (cases h; done) | skip
    all_goals grind

theorem graphNode_len {toks rest : List Tok} {n : GNode} (h : graphNode toks = some (n, rest)) : rest.length < toks.length := by
  simp only [graphNode] at h
  have := graphEdges_len
  repeat' split at h
  all_goals first | (cases h; done) | skip
  all_goals grind

theorem graphTail_len (f : Nat) (toks : List Tok) (acc ns : List GNode) (rest : List Tok)
    (h : graphTail f toks acc = some (ns, rest)) : rest.length < toks.length := by
  induction f generalizing toks acc ns rest with
  | zero => simp [graphTail] at h
  | succ f ih =>
    simp only [graphTail] at h
    have := skipNl_len
    have := @graphNode_len
    repeat' split at h
    all_goals first | (cases h; done) | skip
    all_goals grind

theorem graphLeaf_len {r rest : List Tok} {t : PExp} (h : graphLeaf r = some (t, rest)) : rest.length < r.length := by
  simp only [graphLeaf, graphNodes] at h
  have := skipNl_len
  have := graphTail_len
  have := @graphNode_len
  repeat' split at h
  all_goals first | (cases h; done) | skip
  all_goals grind

