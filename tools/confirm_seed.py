#!/usr/bin/env python3
"""tools/confirm_seed.py <seed-out-dir> <prop> <k> : independently confirms a seeded change in a scratch worktree
of /repo: (1) patch applies and the crate's own suite passes with it, (2) the demo fails with it, (3) the demo passes
without it. Writes /verif/seeded/<prop>-<k>/{patch.diff,demo.rs,meta.json}."""
import subprocess, sys, os, json, shutil
out, prop, k = sys.argv[1], sys.argv[2], sys.argv[3]
LANE = os.environ.get("CONFIRM_LANE", "")
WT = "/root/scratch/confirm%s/repo" % LANE
def sh(cmd, cwd=None): return subprocess.run(cmd, capture_output=True, text=True, cwd=cwd)
os.makedirs(os.path.dirname(WT), exist_ok=True)
if not os.path.exists(WT):
    sh(["git", "-C", "/repo", "worktree", "add", "-q", WT, "HEAD"])
crate = WT + "/packages/rooc"
def clean():
    sh(["git", "checkout", "--", "."], cwd=WT); sh(["git", "clean", "-fdq", "packages/rooc/tests", "packages/rooc/src"], cwd=WT)
clean()
sh(["git", "checkout", "-q", "--detach", sh(["git", "-C", "/repo", "rev-parse", "HEAD"]).stdout.strip()], cwd=WT)
patch = os.path.join(out, "patch.diff")
demo_src = os.path.join(out, "demo.rs")
name = f"seed_demo_{prop.lower()}_{k}"
res = {"property": prop, "k": k}
a = sh(["git", "apply", "--3way", patch], cwd=WT)
if a.returncode != 0:
    a = sh(["git", "apply", patch], cwd=WT)
res["applies"] = a.returncode == 0
if not res["applies"]:
    print(json.dumps(res), a.stderr[-300:]); clean(); sys.exit(1)
sh(["git", "reset", "-q"], cwd=WT)
t = sh(["cargo", "test", "--workspace", "--no-fail-fast", "--offline"], cwd=crate)
res["suite_passes_with_change"] = t.returncode == 0
shutil.copy(demo_src, f"{crate}/tests/{name}.rs")
d = sh(["cargo", "test", "--offline", "--test", name], cwd=crate)
res["demo_fails_with_change"] = d.returncode != 0 and "test result: FAILED" in d.stdout
clean()
shutil.copy(demo_src, f"{crate}/tests/{name}.rs")
d2 = sh(["cargo", "test", "--offline", "--test", name], cwd=crate)
res["demo_passes_without"] = d2.returncode == 0
clean()
ok = all(res[x] for x in ("applies", "suite_passes_with_change", "demo_fails_with_change", "demo_passes_without"))
res["confirmed"] = ok
if ok:
    dst = f"/verif/seeded/{prop}-{k}"
    os.makedirs(dst, exist_ok=True)
    shutil.copy(patch, dst + "/patch.diff"); shutil.copy(demo_src, dst + "/demo.rs")
    meta = json.load(open(os.path.join(out, "meta.json"))) if os.path.exists(os.path.join(out, "meta.json")) else {}
    meta["confirmed_by_integrator"] = {x: res[x] for x in res if x not in ("property", "k")}
    meta["confirm_commands"] = ["git apply patch.diff (scratch worktree of /repo)", "cargo test --workspace --no-fail-fast --offline", f"cargo test --offline --test {name} (with and without the change)"]
    json.dump(meta, open(dst + "/meta.json", "w"), indent=1)
print(json.dumps(res))
