#!/usr/bin/env python3-vt
"""
Failing-input search for C01 / C02 on the IMPLEMENTATION's compiled linear model (z3, exact rationals).

  oracle_lin.py <cases.jsonl> <out.jsonl> [--only i,j,k] [--jobs N]

For every case whose `oracle` field is `c01|c02 <model-sexp> <linmodel-sexp>` answers one line
`{"i": idx, "answer": "(ok …)" | "(violation <kind> …)"}`.

C01:  (a) exists (x, aux): LinFeasible(x, aux) and not SrcFeasible(x)          -> infeasible-let-in
      (b) exists x: SrcFeasible(x) and forall aux: not LinFeasible(x, aux)     -> feasible-cut-off
C02:  (a) exists (x, aux): Src(x), Lin(x,aux), lin objective strictly better than the source objective at x
      (b) exists x: Src(x) and no aux extension attains the source objective

This is a search, not a proof: it only supports the theorems (DESIGN.md §3). Cases whose numbers are not
small dyadic rationals are skipped (float rounding of folded constants is outside the exact statement).
"""
import json, struct, sys, os
from fractions import Fraction
from multiprocessing import Pool
import z3

# ---------------------------------------------------------------- s-expressions
def parse_sexps(s):
    """parses a sequence of s-expressions; atoms -> str, strings -> ('str', s), lists -> list"""
    out, stack, i, n = [], [], 0, len(s)
    cur = out
    while i < n:
        c = s[i]
        if c in " \t\r\n":
            i += 1
        elif c == "(":
            new = []
            cur.append(new)
            stack.append(cur)
            cur = new
            i += 1
        elif c == ")":
            cur = stack.pop()
            i += 1
        elif c == '"':
            j, buf = i + 1, []
            while s[j] != '"':
                if s[j] == "\\":
                    j += 1
                    buf.append("\n" if s[j] == "n" else s[j])
                else:
                    buf.append(s[j])
                j += 1
            cur.append(("str", "".join(buf)))
            i = j + 1
        else:
            j = i
            while j < n and s[j] not in ' \t\r\n()"':
                j += 1
            cur.append(s[i:j])
            i = j
    return out

def num(a):
    """#x<bits> -> Fraction | 'inf' | '-inf' | 'nan'"""
    bits = int(a[2:], 16)
    f = struct.unpack(">d", struct.pack(">Q", bits))[0]
    if f != f:
        return "nan"
    if f == float("inf"):
        return "inf"
    if f == float("-inf"):
        return "-inf"
    return Fraction(f)

def small_dyadic(q):
    if isinstance(q, str):
        return True  # infinities in domains are fine
    d = q.denominator
    # dyadic with at most 30 fractional bits and magnitude below 2^20 (or an integer below 2^21): sums and products
    # of a few such numbers are exact in f64, so the float folding of the compiler agrees with the exact statement
    return d & (d - 1) == 0 and d <= 2 ** 30 and abs(q) <= 2 ** 21

# ---------------------------------------------------------------- encoding
class Enc:
    def __init__(self):
        self.vars = {}
        self.inexact = False

    def var(self, name, is_int=False):
        if name not in self.vars:
            self.vars[name] = z3.Int("v_" + name) if is_int else z3.Real("v_" + name)
        return self.vars[name]

    def q(self, a):
        v = num(a)
        if isinstance(v, str):
            raise ValueError("non-finite literal")
        if not small_dyadic(v):
            self.inexact = True
        return z3.RealVal(str(v.numerator) + "/" + str(v.denominator))

def truthy(e):
    return e != 0

def b01(c):
    return z3.If(c, z3.RealVal(1), z3.RealVal(0))

def exp(E, e):
    h = e[0]
    if h == "num":
        return E.q(e[1])
    if h == "var":
        return z3.ToReal(E.vars[e[1][1]]) if z3.is_int(E.vars[e[1][1]]) else E.vars[e[1][1]]
    if h == "abs":
        x = exp(E, e[1])
        return z3.If(x >= 0, x, -x)
    if h in ("min", "max"):
        xs = [exp(E, x) for x in e[1:]]
        if not xs:
            raise ValueError("empty aggregation")
        r = xs[0]
        for x in xs[1:]:
            r = z3.If(x < r, x, r) if h == "min" else z3.If(x > r, x, r)
        return r
    if h == "and":
        return b01(z3.And([truthy(exp(E, x)) for x in e[1:]])) if len(e) > 1 else z3.RealVal(1)
    if h == "or":
        return b01(z3.Or([truthy(exp(E, x)) for x in e[1:]])) if len(e) > 1 else z3.RealVal(0)
    if h == "not":
        return b01(z3.Not(truthy(exp(E, e[1]))))
    if h in ("xor", "implies", "iff"):
        return logic2(h, exp(E, e[1]), exp(E, e[2]))
    if h == "un":
        x = exp(E, e[2])
        return -x if e[1] == "neg" else b01(z3.Not(truthy(x)))
    if h == "bin":
        op, a, b = e[1], exp(E, e[2]), exp(E, e[3])
        if op == "add":
            return a + b
        if op == "sub":
            return a - b
        if op == "mul":
            return a * b
        if op == "div":
            return a / b
        return logic2(op, a, b)
    raise ValueError("unknown exp " + str(h))

def logic2(op, a, b):
    ta, tb = truthy(a), truthy(b)
    if op == "and":
        return b01(z3.And(ta, tb))
    if op == "or":
        return b01(z3.Or(ta, tb))
    if op == "xor":
        return b01(z3.Xor(ta, tb))
    if op == "implies":
        return b01(z3.Implies(ta, tb))
    if op == "iff":
        return b01(ta == tb)
    raise ValueError(op)

def cmp(op, a, b):
    return {"le": a <= b, "ge": a >= b, "eq": a == b, "lt": a < b, "gt": a > b}[op]

def dom_constraint(E, v, ty):
    """membership of z3 term v in a VariableType"""
    if ty == "bool":
        return z3.Or(v == 0, v == 1)
    kind = ty[0]
    if kind == "int":
        lo, hi = int(ty[1]), int(ty[2])
        return z3.And(v >= lo, v <= hi)
    lo, hi = num(ty[1]), num(ty[2])
    cs = []
    if lo == "nan" or hi == "nan":
        raise ValueError("nan bound")
    if lo == "inf" or hi == "-inf":
        return z3.BoolVal(False)
    if lo != "-inf":
        if not small_dyadic(lo):
            E.inexact = True
        cs.append(v >= z3.RealVal(str(lo.numerator) + "/" + str(lo.denominator)))
    if hi != "inf":
        if not small_dyadic(hi):
            E.inexact = True
        cs.append(v <= z3.RealVal(str(hi.numerator) + "/" + str(hi.denominator)))
    return z3.And(cs) if cs else z3.BoolVal(True)

def is_int_type(ty):
    return ty == "bool" or ty[0] == "int"

def analyse(prop, model, lin, timeout_ms=4000):
    E = Enc()
    (_, (opt, obj), cons, dom) = model
    cons, dom = cons[1:], dom[1:]
    src_types = {d[0][1]: (d[1], int(d[2])) for d in dom}
    # linear model
    (_, lopt, lobj, loff, lvars, ldom, lrows) = lin
    lvars = [v[1] for v in lvars[1:]]
    ldom = {d[0][1]: d[1] for d in ldom[1:]}
    lrows = lrows[1:]
    # variables: every used source variable + every linear-model variable
    used_src = [n for n, (ty, use) in src_types.items() if use > 0]
    for n in used_src:
        E.var(n, is_int_type(src_types[n][0]))
    aux = [v for v in lvars if v not in src_types]
    for v in lvars:
        ty = ldom.get(v)
        E.var(v, ty is not None and is_int_type(ty))
    real = lambda t: z3.ToReal(t) if z3.is_int(t) else t
    # source feasibility
    src = []
    for n in used_src:
        src.append(dom_constraint(E, real(E.vars[n]), src_types[n][0]))
    for c in cons:
        if c[0] == "assert":
            src.append(exp(E, c[2]) == 1)
        else:
            src.append(cmp(c[2], exp(E, c[3]), exp(E, c[4])))
    src = z3.And(src) if src else z3.BoolVal(True)
    # linear feasibility
    linc = []
    for v in lvars:
        if v in ldom:
            linc.append(dom_constraint(E, real(E.vars[v]), ldom[v]))
    for r in lrows:
        (_, name, op, coeffs, rhs) = r
        lhs = z3.Sum([E.q(c) * real(E.vars[v]) for c, v in zip(coeffs, lvars)]) if coeffs else z3.RealVal(0)
        linc.append(cmp(op, lhs, E.q(rhs)))
    linf = z3.And(linc) if linc else z3.BoolVal(True)
    lin_obj = z3.Sum([E.q(c) * real(E.vars[v]) for c, v in zip(lobj[1:], lvars)] + [E.q(loff)])
    src_obj = exp(E, obj)
    if E.inexact:
        return "(ok skipped-inexact-data)"
    auxv = [E.vars[v] for v in aux]

    def solve(f):
        s = z3.Solver()
        s.set("timeout", timeout_ms)
        s.add(f)
        r = s.check()
        if r == z3.sat:
            m = s.model()
            return "sat", {n: str(m.eval(v, model_completion=True)) for n, v in E.vars.items()}
        return ("unsat" if r == z3.unsat else "unknown"), None

    def ex_forall(body_exists, body_forall_neg):
        """exists x: body_exists(x) and forall aux: not body(x,aux)"""
        if not auxv:
            return solve(z3.And(body_exists, z3.Not(body_forall_neg)))
        return solve(z3.And(body_exists, z3.ForAll(auxv, z3.Not(body_forall_neg))))

    unknown = []
    if prop == "c01":
        r, m = solve(z3.And(linf, z3.Not(src)))
        if r == "sat":
            return "(violation infeasible-let-in %s)" % json.dumps(m)
        if r == "unknown":
            unknown.append("a")
        r, m = ex_forall(src, linf)
        if r == "sat":
            return "(violation feasible-cut-off %s)" % json.dumps({k: v for k, v in m.items() if k in used_src})
        if r == "unknown":
            unknown.append("b")
    else:
        if opt == "solve":
            return "(ok satisfy-objective)"
        better = (lin_obj < src_obj) if opt == "min" else (lin_obj > src_obj)
        r, m = solve(z3.And(src, linf, better))
        if r == "sat":
            return "(violation objective-better-than-source %s)" % json.dumps(m)
        if r == "unknown":
            unknown.append("a")
        r, m = ex_forall(src, z3.And(linf, lin_obj == src_obj))
        if r == "sat":
            # a source-feasible point none of whose extensions attains the source objective: either the objective
            # is wrong there or the point has no extension at all (then C01 fails too) - both change what the
            # compiled model can attain, so both are reported here, told apart by the kind
            r2, _ = ex_forall(src, linf)
            kind = "objective-not-attained" if r2 != "sat" else "objective-not-attained-point-cut-off"
            return "(violation %s %s)" % (kind, json.dumps({k: v for k, v in m.items() if k in used_src}))
        if r == "unknown":
            unknown.append("b")
    return "(ok%s)" % (" unknown-" + "".join(unknown) if unknown else "")

def work(args):
    i, oracle = args
    try:
        parts = parse_sexps(oracle[3:] if oracle.startswith("py:") else oracle)
        prop, model, lin = parts[0], parts[1], parts[2]
        return i, analyse(prop, model, lin)
    except ValueError as e:
        return i, "(ok skipped %s)" % str(e).replace(" ", "-")
    except Exception as e:  # noqa
        return i, "(err %s)" % repr(e).replace(" ", "-")[:200]

def main():
    a = sys.argv[1:]
    cases = [json.loads(l) for l in open(a[0])]
    only = None
    if "--only" in a:
        only = set(int(x) for x in a[a.index("--only") + 1].split(",") if x)
    if "--only-file" in a:
        only = set(int(x) for x in open(a[a.index("--only-file") + 1]).read().split(",") if x)
    jobs = int(a[a.index("--jobs") + 1]) if "--jobs" in a else 8
    todo = [(i, c["oracle"]) for i, c in enumerate(cases) if c.get("oracle") and (only is None or i in only)]
    with Pool(jobs) as p:
        res = p.map(work, todo, chunksize=8)
    with open(a[1], "w") as f:
        for i, ans in res:
            f.write(json.dumps({"i": i, "answer": ans}) + "\n")

if __name__ == "__main__":
    main()
