import os
# generates Proofs/Total.lean (consumes / no_fuel) for the 17 functions of the parser model
fns=[("parseExp","toks","t"),("collect","toks","items"),("collectLoop","toks acc","items"),("leaf","toks","t"),("wordRest","w toks","t"),
     ("scopedFn","n toks","t"),("iterList","toks vs its","p"),("iterDecl","toks","p"),("iterator","toks","t"),("expList","toks acc","as"),
     ("accessLoop","toks acc","as"),("indexLoop","toks acc","as"),("args","toks","as"),("argsTail","toks acc","as"),("atoms","toks acc","as"),
     ("optVariable","toks","t"),("imulOrSingle","toks","t")]
strict={"parseExp","collect","leaf","scopedFn","iterList","iterDecl","iterator","expList","args","argsTail","imulOrSingle"}
off={"parseExp":10,"collect":9,"collectLoop":9,"leaf":8,"wordRest":7,"scopedFn":8,"iterList":7,"iterDecl":6,"iterator":11,"expList":11,
     "accessLoop":6,"indexLoop":6,"args":11,"argsTail":10,"atoms":6,"optVariable":6,"imulOrSingle":7}
cn={"parseExp":"cPE","collect":"cC","collectLoop":"cCL","leaf":"cL","wordRest":"cWR","scopedFn":"cS","iterList":"cIL","iterDecl":"cID","iterator":"cIt",
    "expList":"cEL","accessLoop":"cAL","indexLoop":"cIx","args":"cA","argsTail":"cAT","atoms":"cAt","optVariable":"cOV","imulOrSingle":"cI"}
def cstmt(n,a,x,f):
    if n=="atoms":
        return f"(∀ toks acc as rest, atoms {f} toks acc = .ok (as, rest) → rest.length ≤ toks.length\n        ∧ (acc.length < as.length → rest.length < toks.length) ∧ acc.length ≤ as.length)"
    rel="<" if n in strict else "≤"
    return f"(∀ {a} {x} rest, {n} {f} {a} = .ok ({x}, rest) → rest.length {rel} toks.length)"
def fstmt(n,a,f):
    return f"(∀ {a}, 6 * toks.length + {off[n]} ≤ {f} → {n} {f} {a} ≠ .error .fuel)"
names=", ".join(cn[n] for n,_,_ in fns)
hnames=", ".join("h"+cn[n][1:] for n,_,_ in fns)
out=open(''+os.path.dirname(os.path.abspath(__file__))+'/gen_syntax_parts/TotalHead2.lean').read()
out+="/-- every successful step consumes: strictly for an expression / leaf / list, weakly for the repetitions -/\ndef ConsumesAt (f : Nat) : Prop :=\n    "+"\n    ∧ ".join(cstmt(n,a,x,"f") for n,a,x in fns)+"\n\n"
helpers='''  have hSk := skipNl_len
  have hOU := optUnary_len
  have hFN := fnNameTail_len
  have hTN := tupleNames_len
  have hWLl := @wordLeaf_len
  have hArl := @arrayLeaf_len
  have hGrl := @graphLeaf_len
'''
for n,a,x in fns:
    out+=f"theorem cons_{n} (f : Nat) (ih : ConsumesAt f) : {cstmt(n,a,x,'(f+1)')[1:-1]} := by\n  obtain ⟨{names}⟩ := ih\n{helpers}  intro {a} {x} rest h\n  simp only [{n}] at h\n  repeat' split at h\n  all_goals first | (cases h; done) | skip\n  all_goals grind\n\n"
out+="theorem consumes : ∀ f : Nat, ConsumesAt f := by\n  intro f\n  induction f with\n  | zero =>\n    refine ⟨"+", ".join("?_" for _ in fns)+"⟩ <;> intros <;>\n      simp_all [parseExp, collect, collectLoop, leaf, wordRest, scopedFn, iterList, iterDecl, iterator, expList, accessLoop,\n        indexLoop, args, argsTail, atoms, optVariable, imulOrSingle]\n  | succ f ih => exact ⟨"+", ".join(f"cons_{n} f ih" for n,_,_ in fns)+"⟩\n\n"
out+=open(''+os.path.dirname(os.path.abspath(__file__))+'/gen_syntax_parts/TotalPratt.lean').read()
out+='''/-! ### the whole model -/

theorem wordLeaf_ne_fuel (w : String) (r : List Tok) : wordLeaf w r ≠ .error .fuel := by
  unfold wordLeaf
  repeat' split
  all_goals simp

theorem arrayLeaf_ne_fuel (r : List Tok) : arrayLeaf r ≠ .error .fuel := by
  intro h
  simp only [arrayLeaf] at h
  repeat' split at h
  all_goals first | (cases h; done) | skip

theorem fuel_of_eq {α : Type} {x : PRes α} {e : PErr} (h : x = .error e) (hx : x ≠ .error .fuel) : e ≠ .fuel := by
  intro he; subst he; exact hx h

'''
out+="/-- with fuel `6·|toks| + offset` no function of the model answers `fuel` -/\ndef FuelAt (f : Nat) : Prop :=\n    "+"\n    ∧ ".join(fstmt(n,a,"f") for n,a,_ in fns)+"\n\n"
for n,a,x in fns:
    if n=="parseExp":
        out+=f'''theorem fuel_parseExp (f : Nat) (ih : FuelAt f) : {fstmt(n,a,'(f+1)')[1:-1]} := by
  obtain ⟨{hnames}⟩ := ih
  intro toks hf
  simp only [parseExp]
  cases hc : collect f toks with
  | error e => simp only; intro h; injection h with h; exact fuel_of_eq hc (hC toks (by omega)) h
  | ok p =>
    obtain ⟨items, rest⟩ := p
    simp only
    have hp := prattParse_no_fuel (collect_shaped f toks items rest hc)
    cases hpp : prattParse items with
    | error e => simp only; intro h; injection h with h; subst h; exact hp hpp
    | ok t => simp

'''
    else:
        out+=f"theorem fuel_{n} (f : Nat) (ih : FuelAt f) : {fstmt(n,a,'(f+1)')[1:-1]} := by\n  obtain ⟨{hnames}⟩ := ih\n  obtain ⟨{names}⟩ := consumes f\n{helpers}  have hWLf := wordLeaf_ne_fuel\n  have hArf := arrayLeaf_ne_fuel\n  intro {a} hf hres\n  simp only [{n}] at hres\n  repeat' split at hres\n  all_goals first | (cases hres; done) | skip\n  all_goals grind\n\n"
out+="theorem no_fuel : ∀ f : Nat, FuelAt f := by\n  intro f\n  induction f with\n  | zero => refine ⟨"+", ".join("?_" for _ in fns)+"⟩ <;> intros <;> omega\n  | succ f ih => exact ⟨"+", ".join(f"fuel_{n} f ih" for n,_,_ in fns)+"⟩\n\n"
out+=open(''+os.path.dirname(os.path.abspath(__file__))+'/gen_syntax_parts/TotalTail.lean').read()
open(''+os.path.dirname(os.path.abspath(__file__))+'/../lean/Rooc/Proofs/Total.lean','w').write(out)
