import os
fns=[("parseExp","toks","t"),("collect","toks","items"),("collectLoop","toks acc","items"),("leaf","toks","t"),("wordRest","w toks","t"),
     ("scopedFn","n toks","t"),("iterList","toks vs its","p"),("iterDecl","toks","p"),("iterator","toks","t"),("expList","toks acc","as"),
     ("accessLoop","toks acc","as"),("indexLoop","toks acc","as"),("args","toks","as"),("argsTail","toks acc","as"),("atoms","toks acc","as"),
     ("optVariable","toks","t"),("imulOrSingle","toks","t")]
cn={"parseExp":"bPE","collect":"bC","collectLoop":"bCL","leaf":"bL","wordRest":"bWR","scopedFn":"bS","iterList":"bIL","iterDecl":"bID","iterator":"bIt",
    "expList":"bEL","accessLoop":"bAL","indexLoop":"bIx","args":"bA","argsTail":"bAT","atoms":"bAt","optVariable":"bOV","imulOrSingle":"bI"}
def stmt(n,a,x,f):
    if n in ("args","argsTail","scopedFn"):
        # the closing parenthesis of the call / of the iteration list is consumed
        return f"(∀ {a} {x} rest, {n} {f} {a} = .ok ({x}, rest) → shiftUp (closeFn toks) = closeFn rest)"
    return f"(∀ {a} {x} rest, {n} {f} {a} = .ok ({x}, rest) → closeFn toks = closeFn rest)"
names=", ".join(cn[n] for n,_,_ in fns)
out=r'''/-
Parentheses are consumed in matching pairs by every function of the parser model: `closeOf d toks` is the text
behind the first `)` that is not matched within `toks` (at nesting depth `d`), and a successful step of the model
does not change it.  Used to show that a function call `f(a, b)` is not mistaken for a scoped block
`f(i in S) { … }`: a scoped block ends its parenthesis right before a `{`.  (Written by a generator script: one lemma
per function of the model, each closed by case splitting and `grind`.)
-/
import Rooc.Proofs.Total
namespace Rooc.Syntax.Proofs
open Rooc Rooc.Syntax

/-- the text behind the first `)` that has no `(` before it at depth `d` -/
def closeOf : Nat → List Tok → Option (List Tok)
  | _, [] => none
  | d, .lpar :: r => closeOf (d+1) r
  | 0, .rpar :: r => some r
  | d+1, .rpar :: r => closeOf d r
  | d, _ :: r => closeOf d r

@[simp] theorem closeOf_nil (d : Nat) : closeOf d [] = none := by cases d <;> rfl
@[simp] theorem closeOf_lpar (d : Nat) (r : List Tok) : closeOf d (.lpar :: r) = closeOf (d+1) r := by cases d <;> rfl
@[simp] theorem closeOf_rpar_zero (r : List Tok) : closeOf 0 (.rpar :: r) = some r := rfl
@[simp] theorem closeOf_rpar_succ (d : Nat) (r : List Tok) : closeOf (d+1) (.rpar :: r) = closeOf d r := rfl

theorem closeOf_other {t : Tok} (h1 : t ≠ .lpar) (h2 : t ≠ .rpar) (d : Nat) (r : List Tok) : closeOf d (t :: r) = closeOf d r := by
  cases t <;> first | (exact absurd rfl h1) | (exact absurd rfl h2) | (cases d <;> rfl)

/-- `closeOf` as a function of the depth -/
def closeFn (toks : List Tok) : Nat → Option (List Tok) := fun d => closeOf d toks
/-- one level deeper -/
def shiftUp (g : Nat → Option (List Tok)) : Nat → Option (List Tok) := fun d => g (d+1)

@[simp, grind =] theorem closeFn_lpar (r : List Tok) : closeFn (.lpar :: r) = shiftUp (closeFn r) := by
  funext d; simp [closeFn, shiftUp]
@[simp, grind =] theorem shiftUp_rpar (r : List Tok) : shiftUp (closeFn (.rpar :: r)) = closeFn r := by
  funext d; simp [closeFn, shiftUp]
theorem closeFn_other {t : Tok} (h1 : t ≠ .lpar) (h2 : t ≠ .rpar) (r : List Tok) : closeFn (t :: r) = closeFn r := by
  funext d; exact closeOf_other h1 h2 d r

'''
for tok in ["int s","float s","word s","comma","plus","minus","star","slash","ampamp","barbar","bang","arrow","darrow","nl","colon","le","ge","eq","lt","gt","st","lbrace","rbrace","lbrack","rbrack","dotdot","dotdoteq","us","str s"]:
    nm=tok.split()[0]
    bind="(s : String) " if " s" in tok else ""
    out+=f"@[simp, grind =] theorem closeFn_{nm} {bind}(r : List Tok) : closeFn (.{tok} :: r) = closeFn r :=\n  closeFn_other (by simp) (by simp) r\n"
    out+=f"@[simp] theorem closeOf_{nm} {bind}(d : Nat) (r : List Tok) : closeOf d (.{tok} :: r) = closeOf d r :=\n  closeOf_other (by simp) (by simp) d r\n"
out+=r'''
@[simp, grind =] theorem closeFn_skipNl (r : List Tok) : closeFn (skipNl r) = closeFn r := by
  induction r with
  | nil => simp [skipNl]
  | cons t r ih => cases t <;> simp [skipNl, ih]

theorem closeFn_skipNl' (r : List Tok) : closeFn (skipNl r) = closeFn r := closeFn_skipNl r
grind_pattern closeFn_skipNl' => skipNl r

theorem unRule_not_paren {t : Tok} {rule : String} (h : unRule t = some rule) : t ≠ .lpar ∧ t ≠ .rpar := by
  constructor <;> (intro e; subst e; simp [unRule, ruleOfTok, Tok.opSpelling] at h)
theorem binRule_not_paren {t : Tok} {rule : String} (h : binRule t = some rule) : t ≠ .lpar ∧ t ≠ .rpar := by
  constructor <;> (intro e; subst e; simp [binRule, ruleOfTok, Tok.opSpelling] at h)

theorem closeFn_optUnary (toks : List Tok) : closeFn (optUnary toks).2 = closeFn toks := by
  unfold optUnary
  split
  · rfl
  · rename_i t r _
    cases h : unRule t with
    | none => rfl
    | some rule => simp only; exact (closeFn_other (unRule_not_paren h).1 (unRule_not_paren h).2 r).symm
  · rfl

theorem closeFn_binTok {t : Tok} {rule : String} (h : binRule t = some rule) (r : List Tok) :
    closeFn (t :: r) = closeFn r := closeFn_other (binRule_not_paren h).1 (binRule_not_paren h).2 r

theorem closeFn_fnNameTail' (toks : List Tok) (acc : String) : closeFn (fnNameTail toks acc).2 = closeFn toks := by
  fun_induction fnNameTail toks acc <;> simp_all
theorem closeFn_fnNameTail (toks : List Tok) (acc name : String) (r : List Tok) (h : fnNameTail toks acc = (name, r)) :
    closeFn r = closeFn toks := by
  have := closeFn_fnNameTail' toks acc
  rw [h] at this; exact this

theorem closeFn_tupleNames (toks : List Tok) (b : Bool) (acc ns : List String) (rest : List Tok)
    (h : tupleNames toks b acc = some (ns, rest)) : shiftUp (closeFn toks) = closeFn rest := by
  fun_induction tupleNames toks b acc <;> simp_all

theorem rest_wordLeaf {w : String} {r rest : List Tok} {t : PExp} (h : wordLeaf w r = .ok (t, rest)) : rest = r := by
  unfold wordLeaf at h
  repeat' split at h
  all_goals first | (cases h; done) | (injection h with h; injection h with _ h; exact h.symm)

theorem closeFn_arrayEntries (f : Nat) (toks : List Tok) (acc es : List ArrEntry) (rest : List Tok)
    (h : arrayEntries f toks acc = some (es, rest)) : closeFn toks = closeFn rest := by
  induction f generalizing toks acc es rest with
  | zero => simp [arrayEntries] at h
  | succ f ih =>
    simp only [arrayEntries] at h
    split at h
    · cases h
    · rename_i e r heq
      have hr : closeFn toks = closeFn r := by
        repeat' split at heq
        all_goals first | (cases heq; done) | skip
        all_goals grind
      rw [hr]
      repeat' split at h
      all_goals first | (cases h; done) | skip
      all_goals grind

theorem closeFn_arrayLeaf {r rest : List Tok} {t : PExp} (h : arrayLeaf r = .ok (t, rest)) : closeFn r = closeFn rest := by
  simp only [arrayLeaf] at h
  have := closeFn_arrayEntries
  rw [← closeFn_skipNl r]
  repeat' split at h
  all_goals first | (cases h; done) | skip
  all_goals grind

theorem closeFn_graphEdges (f : Nat) (toks : List Tok) (acc es : List GEdge) (rest : List Tok)
    (h : graphEdges f toks acc = some (es, rest)) : closeFn toks = closeFn rest := by
  induction f generalizing toks acc es rest with
  | zero => simp [graphEdges] at h
  | succ f ih =>
    simp only [graphEdges] at h
    repeat' split at h
    all_goals first | (cases h; done) | skip
    all_goals grind

theorem closeFn_graphNode {toks rest : List Tok} {n : GNode} (h : graphNode toks = some (n, rest)) : closeFn toks = closeFn rest := by
  simp only [graphNode] at h
  have := closeFn_graphEdges
  repeat' split at h
  all_goals first | (cases h; done) | skip
  all_goals grind

theorem closeFn_graphTail (f : Nat) (toks : List Tok) (acc ns : List GNode) (rest : List Tok)
    (h : graphTail f toks acc = some (ns, rest)) : closeFn toks = closeFn rest := by
  induction f generalizing toks acc ns rest with
  | zero => simp [graphTail] at h
  | succ f ih =>
    simp only [graphTail] at h
    have := @closeFn_graphNode
    repeat' split at h
    all_goals first | (cases h; done) | skip
    all_goals grind

theorem closeFn_graphLeaf {r rest : List Tok} {t : PExp} (h : graphLeaf r = some (t, rest)) : closeFn r = closeFn rest := by
  simp only [graphLeaf, graphNodes] at h
  have := closeFn_graphTail
  have := @closeFn_graphNode
  rw [← closeFn_skipNl r]
  repeat' split at h
  all_goals first | (cases h; done) | skip
  all_goals grind

'''
out+="/-- a successful step does not change `closeFn` -/\ndef BalAt (f : Nat) : Prop :=\n    "+"\n    ∧ ".join(stmt(n,a,x,"f") for n,a,x in fns)+"\n\n"
helpers='''  have hOU := closeFn_optUnary
  have hBT := @closeFn_binTok
  have hFN := closeFn_fnNameTail
  have hTN := closeFn_tupleNames
  have hWL := @rest_wordLeaf
  have hAr := @closeFn_arrayLeaf
  have hGr := @closeFn_graphLeaf
'''
for n,a,x in fns:
    out+=f"theorem bal_{n} (f : Nat) (ih : BalAt f) : {stmt(n,a,x,'(f+1)')[1:-1]} := by\n  obtain ⟨{names}⟩ := ih\n{helpers}  intro {a} {x} rest h\n  simp only [{n}] at h\n  repeat' split at h\n  all_goals first | (cases h; done) | skip\n  all_goals grind\n\n"
out+="theorem balanced : ∀ f : Nat, BalAt f := by\n  intro f\n  induction f with\n  | zero =>\n    refine ⟨"+", ".join("?_" for _ in fns)+"⟩ <;> intros <;>\n      simp_all [parseExp, collect, collectLoop, leaf, wordRest, scopedFn, iterList, iterDecl, iterator, expList, accessLoop,\n        indexLoop, args, argsTail, atoms, optVariable, imulOrSingle]\n  | succ f ih => exact ⟨"+", ".join(f"bal_{n} f ih" for n,_,_ in fns)+"⟩\n\n"
out+=r'''/-- a scoped block closes its parenthesis right before a `{` -/
theorem scopedFn_close {f : Nat} {n : String} {toks rest : List Tok} {t : PExp} (h : scopedFn f n toks = .ok (t, rest)) :
    ∃ r1, closeOf 0 toks = some (.lbrace :: r1) := by
  cases f with
  | zero => simp [scopedFn] at h
  | succ f =>
    have bIL := (balanced f).2.2.2.2.2.2.1
    simp only [scopedFn] at h
    split at h
    · cases h
    · rename_i vs its r hil
      have h1 := bIL _ _ _ _ _ hil
      split at h
      · rename_i r1 hs
        refine ⟨r1, ?_⟩
        have h2 : closeFn toks = closeFn (skipNl r) := by rw [closeFn_skipNl]; exact h1
        have := congrFun h2 0
        simp only [closeFn] at this
        rw [this, hs]; rfl
      · cases h

end Rooc.Syntax.Proofs
'''
open(''+os.path.dirname(os.path.abspath(__file__))+'/../lean/Rooc/Proofs/Bal.lean','w').write(out)
