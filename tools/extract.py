#!/usr/bin/env python3
"""Translator for table-shaped code: re-reads /repo on every run and rewrites lean/Rooc/Gen/*.lean.
Fails loudly (exit 1) when a table's shape is no longer what the anchored patterns expect."""
import os, re, sys
ROOT = os.path.dirname(os.path.dirname(os.path.abspath(__file__)))
SRC = os.path.join(os.environ.get("VERIF_REPO", "/repo"), "packages/rooc/src")
GEN = os.path.join(ROOT, "lean", "Rooc", "Gen")

def write_if_changed(path, text):
    if os.path.exists(path) and open(path).read() == text:
        return
    os.makedirs(os.path.dirname(path), exist_ok=True)
    open(path, "w").write(text)


# ---------------------------------------------------------------------------------------------
# C09 / C11: Pratt table (exp_parser.rs), pest's PREC_STEP, keyword / alias lists (grammar.pest)
# ---------------------------------------------------------------------------------------------
def lstr(s):
    return '"' + s.replace("\\", "\\\\").replace('"', '\\"') + '"'

def pest_rule(grammar, name):
    """body of `name = <modifier>{ ... }` with balanced braces, `//` comments dropped, whitespace-normalised."""
    m = re.search(r"^" + re.escape(name) + r"\s*=\s*([_@$!]?)\{", grammar, re.M)
    if not m:
        return None, None
    i, depth, body = m.end(), 1, ""
    while i < len(grammar):
        c = grammar[i]
        if c == '"':
            j = i + 1
            while grammar[j] != '"':
                j += 2 if grammar[j] == "\\" else 1
            body += grammar[i:j + 1]
            i = j + 1
            continue
        if c == "/" and grammar[i + 1] == "/":
            while grammar[i] != "\n":
                i += 1
            continue
        if c == "{":
            depth += 1
        elif c == "}":
            depth -= 1
            if depth == 0:
                break
        body += c
        i += 1
    return m.group(1), " ".join(body.split())

def top_alternatives(body):
    """split a pest rule body at its top-level `|` (outside parentheses and string literals)."""
    out, cur, depth, i = [], "", 0, 0
    while i < len(body):
        c = body[i]
        if c == '"':
            j = i + 1
            while body[j] != '"':
                j += 2 if body[j] == "\\" else 1
            cur += body[i:j + 1]
            i = j + 1
            continue
        if c == "(":
            depth += 1
        elif c == ")":
            depth -= 1
        if c == "|" and depth == 0:
            out.append(cur.strip())
            cur = ""
        else:
            cur += c
        i += 1
    out.append(cur.strip())
    return out

def extract_syntax():
    errs = []
    ep = open(os.path.join(SRC, "parser/rules_parser/exp_parser.rs")).read()
    # --- the `.op(...)` chain
    m = re.search(r"PrattParser::new\(\)(.*?)\n\s*\};", ep, re.S)
    chain = []
    if not m:
        errs.append("PRATT_PARSER: PrattParser::new() ... }; block")
    else:
        body = "\n".join(l for l in m.group(1).split("\n") if not l.strip().startswith("//"))
        chunks = body.split(".op(")
        if chunks[0].strip():
            errs.append("PRATT_PARSER: unexpected text before the first .op(: " + chunks[0].strip()[:60])
        for ch in chunks[1:]:
            ops = re.findall(r"Op::(infix|prefix|postfix)\(\s*Rule::(\w+)\s*(?:,\s*(?:Assoc::)?(Left|Right)\s*)?\)", ch)
            rest = re.sub(r"Op::(infix|prefix|postfix)\(\s*Rule::(\w+)\s*(?:,\s*(?:Assoc::)?(Left|Right)\s*)?\)", "", ch)
            if rest.replace("|", "").strip() != ")" or not ops:
                errs.append("PRATT_PARSER: unrecognised .op( argument: " + " ".join(ch.split())[:80])
                continue
            lvl = []
            for kind, rule, assoc in ops:
                if kind == "infix" and assoc not in ("Left", "Right"):
                    errs.append("PRATT_PARSER: infix without Left/Right: " + rule)
                if kind == "postfix":
                    errs.append("PRATT_PARSER: postfix operator (not modelled): " + rule)
                aff = {"prefix": "prefix", "postfix": "postfix", "infix": "infixR" if assoc == "Right" else "infixL"}[kind]
                lvl.append((rule, aff))
            chain.append(lvl)
        if not chain:
            errs.append("PRATT_PARSER: empty .op( chain")
    # --- map_infix / map_prefix arms
    inf = re.findall(r"Rule::(\w+)\s*=>\s*BinOp::(\w+)", ep)
    pre = re.findall(r"Rule::(\w+)\s*=>\s*UnOp::(\w+)", ep)
    if len(inf) != 9 or sorted(b for _, b in inf) != sorted(["Add", "Sub", "Mul", "Div", "And", "Or", "Xor", "Implies", "Iff"]):
        errs.append("parse_exp map_infix arms: " + str(inf))
    if sorted(b for _, b in pre) != ["Neg", "Not"]:
        errs.append("parse_exp map_prefix arms: " + str(pre))
    # implicit multiplication fold (left fold with BinOp::Mul)
    imul = re.search(r"Rule::implicit_mul\s*=>\s*\{(.*?)\n        \}", ep, re.S)
    if not imul or imul.group(1).count("BinOp::Mul") != 2 or "res.to_boxed()" not in imul.group(1):
        errs.append("parse_exp_leaf Rule::implicit_mul left fold")
    # --- pest PREC_STEP (version pinned by /repo's Cargo.lock)
    step = None
    try:
        lock = open("/repo/Cargo.lock").read() if os.path.exists("/repo/Cargo.lock") else open("/repo/packages/rooc/Cargo.lock").read()
        ver = re.search(r'name = "pest"\nversion = "([^"]+)"', lock).group(1)
        import glob
        cands = glob.glob(os.path.expanduser(f"~/.cargo/registry/src/*/pest-{ver}/src/pratt_parser.rs"))
        pp = open(cands[0]).read()
        step = int(re.search(r"const PREC_STEP: Prec = (\d+);", pp).group(1))
        # the three places where binding powers are used
        for pat in [r"let mut lhs = self\.nud\(pairs\);\s*while rbp < self\.lbp\(pairs\) \{\s*lhs = self\.led\(pairs, lhs\);",
                    r"Some\(\(Affix::Prefix, prec\)\) => \{\s*let rhs = self\.expr\(pairs, prec - 1\);",
                    r"Assoc::Left => self\.expr\(pairs, prec\),\s*Assoc::Right => self\.expr\(pairs, prec - 1\),",
                    r"prec: PREC_STEP,", r"self\.prec \+= PREC_STEP;"]:
            if not re.search(pat, pp):
                errs.append("pest pratt_parser.rs: loop shape changed (" + pat[:40] + ")")
    except Exception as e:  # noqa
        errs.append("pest pratt_parser.rs / PREC_STEP: " + repr(e)[:100])
    # --- grammar.pest
    g = open(os.path.join(SRC, "parser/grammar.pest")).read()
    shapes = {}
    for name in ["exp", "exp_leaf", "implicit_mul", "parenthesis", "function", "function_pars", "binary_op", "unary_op",
                 "variable", "simple_variable", "number", "integer", "float", "boolean", "function_name", "WHITESPACE",
                 "COMMENT", "keyword", "mul", "add", "sub", "div", "neg", "and_op", "or_op", "xor_op", "implies_op",
                 "iff_op", "not_op", "comma", "tagged_exp"]:
        mod, body = pest_rule(g, name)
        if body is None:
            errs.append("grammar.pest rule " + name)
        else:
            shapes[name] = (mod, body)
    kws, spell = [], {}
    if "keyword" in shapes:
        m = re.fullmatch(r'\((.*?)\) ~ !\(LETTER \| NUMBER \| "_"\)', shapes["keyword"][1])
        if not m:
            errs.append("grammar.pest keyword shape")
        else:
            kws = re.findall(r'"([^"]+)"', m.group(1))
    for r in ["mul", "add", "sub", "div", "neg", "and_op", "or_op", "xor_op", "implies_op", "iff_op", "not_op"]:
        if r not in shapes:
            continue
        alts = []
        for alt in top_alternatives(shapes[r][1]):
            mk = re.fullmatch(r'\(?"([A-Za-z]+)" ~ !\(LETTER \| NUMBER \| "_"\)\)?', alt)
            ms = re.fullmatch(r'"([^"A-Za-z]+)"', alt)
            if mk:
                alts.append(("word", mk.group(1)))
            elif ms:
                alts.append(("sym", ms.group(1)))
            else:
                errs.append(f"grammar.pest {r}: unrecognised alternative {alt!r}")
        spell[r] = alts
    # boolean literal rule: case-sensitive words with the keyword boundary look-ahead
    bool_words = []
    if "boolean" in shapes:
        m = re.fullmatch(r'\((.*?)\) ~ !\(LETTER \| NUMBER \| "_"\)', shapes["boolean"][1])
        if not m or shapes["boolean"][0] != "@" or "^" in m.group(1):
            errs.append("grammar.pest boolean: expected @{ (\"true\" | \"false\") ~ !(LETTER | NUMBER | \"_\") }, found " + shapes["boolean"][1])
        else:
            bool_words = re.findall(r'"([^"]+)"', m.group(1))
            if sorted(bool_words) != ["false", "true"]:
                errs.append("grammar.pest boolean words: " + str(bool_words))
    # --- program-level rules the token-level parser model depends on (shape recorded, compared by Props/C09)
    prog_rules = ["problem", "objective", "solve", "constraint_list", "constraint", "constraint_name", "consts_declaration",
                  "const_declaration", "domains_declaration", "domain_declaration", "domain_variables", "as_assertion",
                  "as_value", "as_type", "for_iteration", "iteration_declaration_list", "iteration_declaration", "tuple",
                  "iterator", "range_iterator", "block_function", "block_scoped_function", "array_access",
                  "pointer_access_list", "pointer_access", "array", "comma_separated_exp", "compound_variable",
                  "compound_variable_body", "underscore_literal", "escaped_compound_variable", "objective_type",
                  "comparison", "range_type", "no_par", "string", "nl"]
    for name in prog_rules:
        mod, body = pest_rule(g, name)
        if body is None:
            errs.append("grammar.pest rule " + name)
        else:
            shapes[name] = (mod, body)
    # --- `FromStr` / `Display` / `exact_arity` of the block function kinds, the variable types, the objective kinds
    def from_str_arms(text, ty):
        m = re.search(r"impl FromStr for " + ty + r" \{.*?match s \{(.*?)\n\s*_ => Err", text, re.S)
        if not m:
            errs.append("FromStr for " + ty)
            return []
        arms = []
        for spellings, variant in re.findall(r'((?:"[^"]+"\s*\|?\s*)+)=>\s*Ok\(\s*(?:Self|' + ty + r')::(\w+)', m.group(1)):
            for sp in re.findall(r'"([^"]+)"', spellings):
                arms.append((sp, variant))
        if not arms:
            errs.append("FromStr arms of " + ty)
        return arms
    def display_arms(text, ty):
        m = re.search(r"impl fmt::Display for " + ty + r" \{(.*?)\n\}", text, re.S)
        if not m:
            errs.append("Display for " + ty)
            return {}
        return dict(re.findall(r'Self::(\w+)\s*=>\s*"([^"]+)"', m.group(1)))
    bf = open(os.path.join(SRC, "parser/il/block_functions.rs")).read()
    kinds = {}
    for ty in ["BlockFunctionKind", "BlockScopedFunctionKind"]:
        arms, disp = from_str_arms(bf, ty), display_arms(bf, ty)
        rows = []
        for sp, variant in arms:
            if variant not in disp:
                errs.append(f"Display arm of {ty}::{variant}")
            else:
                rows.append((sp, disp[variant]))
        kinds[ty] = rows
    arity = []
    m = re.search(r"pub fn exact_arity\(&self\) -> Option<usize> \{\s*match self \{(.*?)\n\s*\}\s*\}", bf, re.S)
    if not m:
        errs.append("BlockFunctionKind::exact_arity")
    else:
        disp = display_arms(bf, "BlockFunctionKind")
        for variants, val in re.findall(r"((?:Self::\w+\s*\|?\s*)+)=>\s*(Some\(\d+\)|None)", m.group(1)):
            for v in re.findall(r"Self::(\w+)", variants):
                if val != "None":
                    arity.append((disp.get(v, v), int(re.search(r"\d+", val).group(0))))
        if set(v for vs, _ in re.findall(r"((?:Self::\w+\s*\|?\s*)+)=>\s*(Some\(\d+\)|None)", m.group(1))
               for v in re.findall(r"Self::(\w+)", vs)) != set(disp):
            errs.append("BlockFunctionKind::exact_arity does not cover every kind")
    me = open(os.path.join(SRC, "math/math_enums.rs")).read()
    type_names = [sp for sp, _ in from_str_arms(me, "PreVariableType")]
    obj_kinds = from_str_arms(me, "OptimizationType")
    cmp_arms = from_str_arms(me, "Comparison")
    op = open(os.path.join(SRC, "parser/rules_parser/other_parser.rs")).read()
    arg_types = re.findall(r'^\s*"(\w+)" => (?:\{|return Ok\(PreVariableType::)', op[op.index("pub fn parse_as_assertion_type"):op.index("pub fn parse_variable(")], re.M)
    if sorted(arg_types) != ["IntegerRange", "NonNegativeReal", "Real"]:
        errs.append("parse_as_assertion_type: type names with arguments " + str(arg_types))
    if errs:
        print("extractor could not re-read: " + "; ".join(errs))
        return 1
    t = "/- GENERATED by tools/extract.py from parser/rules_parser/exp_parser.rs and pest's pratt_parser.rs — do not edit. -/\n"
    t += "namespace Rooc.Gen\n"
    t += f"/-- pest `PREC_STEP` -/\ndef precStep : Nat := {step}\n"
    t += "/-- the `.op(…)` chain of PRATT_PARSER in source order: one list per precedence level of (pest rule, affix) -/\n"
    t += "def prattChain : List (List (String × String)) :=\n  [" + ",\n   ".join(
        "[" + ", ".join(f"({lstr(r)}, {lstr(a)})" for r, a in lvl) + "]" for lvl in chain) + "]\n"
    t += "/-- arms of `map_infix`: pest rule ↦ BinOp variant -/\n"
    t += "def infixArms : List (String × String) :=\n  [" + ", ".join(f"({lstr(r)}, {lstr(b)})" for r, b in inf) + "]\n"
    t += "/-- arms of `map_prefix`: pest rule ↦ UnOp variant -/\n"
    t += "def prefixArms : List (String × String) :=\n  [" + ", ".join(f"({lstr(r)}, {lstr(b)})" for r, b in pre) + "]\n"
    t += "end Rooc.Gen\n"
    write_if_changed(os.path.join(GEN, "Pratt.lean"), t)
    t = "/- GENERATED by tools/extract.py from parser/grammar.pest — do not edit. -/\n"
    t += "namespace Rooc.Gen\n"
    t += "/-- alternatives of the `keyword` rule (each followed by the boundary look-ahead `!(LETTER | NUMBER | \"_\")`) -/\n"
    t += "def keywords : List String := [" + ", ".join(lstr(k) for k in kws) + "]\n"
    t += "/-- spellings of the operator rules: (rule, kind, text); kind `word` carries the boundary look-ahead -/\n"
    t += "def opSpellings : List (String × String × String) :=\n  [" + ",\n   ".join(
        f"({lstr(r)}, {lstr(k)}, {lstr(s)})" for r in spell for k, s in spell[r]) + "]\n"
    t += "/-- words of the `boolean` rule (case-sensitive, followed by the boundary look-ahead `!(LETTER | NUMBER | \"_\")`) -/\n"
    t += "def booleanWords : List String := [" + ", ".join(lstr(k) for k in bool_words) + "]\n"
    for nm, rule in [("binaryOpAlts", "binary_op"), ("unaryOpAlts", "unary_op"), ("expLeafAlts", "exp_leaf")]:
        t += f"/-- ordered alternatives of `{rule}` -/\n"
        t += f"def {nm} : List String := [" + ", ".join(lstr(a) for a in top_alternatives(shapes[rule][1])) + "]\n"
    t += "/-- rule bodies whose shape the token-level model depends on: (rule, modifier, whitespace-normalised body) -/\n"
    t += "def ruleShapes : List (String × String × String) :=\n  [" + ",\n   ".join(
        f"({lstr(n)}, {lstr(shapes[n][0])}, {lstr(shapes[n][1])})" for n in shapes) + "]\n"
    t += "/-- `FromStr for BlockFunctionKind`: (spelling, `Display` of the kind) -/\n"
    t += "def blockKinds : List (String × String) := [" + ", ".join(f"({lstr(a)}, {lstr(b)})" for a, b in kinds["BlockFunctionKind"]) + "]\n"
    t += "/-- `FromStr for BlockScopedFunctionKind`: (spelling, `Display` of the kind) -/\n"
    t += "def scopedKinds : List (String × String) := [" + ", ".join(f"({lstr(a)}, {lstr(b)})" for a, b in kinds["BlockScopedFunctionKind"]) + "]\n"
    t += "/-- `BlockFunctionKind::exact_arity` where it is `Some`: (`Display` of the kind, arity) -/\n"
    t += "def blockArity : List (String × Nat) := [" + ", ".join(f"({lstr(a)}, {b})" for a, b in arity) + "]\n"
    t += "/-- `FromStr for PreVariableType`: the type names that stand without arguments -/\n"
    t += "def plainTypeNames : List String := [" + ", ".join(lstr(a) for a in type_names) + "]\n"
    t += "/-- `parse_as_assertion_type`: the type names that take `(min, max)` -/\n"
    t += "def argTypeNames : List String := [" + ", ".join(lstr(a) for a in arg_types) + "]\n"
    t += "/-- `FromStr for OptimizationType`: (spelling, variant) -/\n"
    t += "def objectiveKinds : List (String × String) := [" + ", ".join(f"({lstr(a)}, {lstr(b)})" for a, b in obj_kinds) + "]\n"
    t += "/-- `FromStr for Comparison`: (spelling, variant) -/\n"
    t += "def comparisonKinds : List (String × String) := [" + ", ".join(f"({lstr(a)}, {lstr(b)})" for a, b in cmp_arms) + "]\n"
    t += "end Rooc.Gen\n"
    write_if_changed(os.path.join(GEN, "Grammar.lean"), t)
    return 0

# ---------------------------------------------------------------------------------------------
# C16: typing table of the built-in pipes (pipe/pipe_executors.rs) and the builder's family-name format  [agent-refproof]
# ---------------------------------------------------------------------------------------------
def extract_pipes():
    src = open(os.path.join(SRC, "pipe/pipe_executors.rs")).read()
    as_to_ty = {"as_string_data": "String", "as_parser": "Parser", "as_pre_model": "PreModel", "as_model": "Model",
                "as_linear_model": "LinearModel", "as_standard_linear_model": "StandardLinearModel", "as_tableau": "Tableau"}
    rows = []
    blocks = re.split(r"(?=impl Pipeable for \w+ \{)", src)[1:]
    for b in blocks:
        name = re.match(r"impl Pipeable for (\w+) \{", b).group(1)
        body = b.split("\n//--------------------")[0]
        m_in = re.search(r"data\.(as_\w+)\(\)\?", body)
        outs = set(re.findall(r"Ok\(PipeableData::(\w+)\(", body))
        errs = set(re.findall(r"PipeError::(\w+)", body)) - {"InvalidData"}
        if not m_in or m_in.group(1) not in as_to_ty or len(outs) > 1 or len(errs) > 1:
            print(f"extractor could not re-read: pipe {name} (input {m_in and m_in.group(1)}, outputs {outs}, errors {errs})")
            return 1
        rows.append((name, as_to_ty[m_in.group(1)], next(iter(outs), ""), next(iter(errs), "-")))
    mb = open(os.path.join(SRC, "builder/model.rs")).read()
    fam = re.search(r'self\.add_var\(format!\("([^"]*)"\), var_type\)', mb)
    if not fam or not rows:
        print("extractor could not re-read: add_vars family-name format / pipe executors")
        return 1
    t = "/- GENERATED by tools/extract.py from pipe/pipe_executors.rs and builder/model.rs — do not edit. -/\nnamespace Rooc.Gen\n"
    t += "/-- (pipe struct, variant it reads with `as_X()?`, variant it produces (\"\" = none), its `PipeError` variant (\"-\" = cannot fail)) -/\n"
    t += "def pipeTable : List (String × String × String × String) :=\n  [" + ",\n   ".join(
        f"({lstr(a)}, {lstr(b)}, {lstr(c)}, {lstr(d)})" for a, b, c, d in rows) + "]\n"
    t += "/-- the `format!` string of `ModelBuilder::add_vars` member names -/\n"
    t += f"def familyNameFormat : String := {lstr(fam.group(1))}\n"
    t += "end Rooc.Gen\n"
    write_if_changed(os.path.join(GEN, "PipeTable.lean"), t)
    return 0

def extract_pre():
    """constants of the front half (C06 / C18 / C19 models): reserved names, builtin names, std constants,
    the range size cap -> lean/Rooc/Gen/PreConsts.lean  [agent-pre]"""
    errs = []
    rt = open(os.path.join(SRC, "runtime_builtin/reserved_tokens.rs")).read()
    m = re.search(r"static ref RESERVED_TOKEN.*?\n    \};", rt, re.S)
    lits = re.findall(r'm\.insert\("([^"]+)"\.to_string\(\), TokenType::\w+\);', m.group(0)) if m else []
    if not lits or "BlockFunctionKind::kinds_to_string()" not in rt or "BlockScopedFunctionKind::kinds_to_string()" not in rt or "make_std()" not in rt:
        errs.append("RESERVED_TOKEN")
    bf = open(os.path.join(SRC, "parser/il/block_functions.rs")).read()
    def display_names(ty):
        m = re.search(r"impl fmt::Display for " + ty + r" \{.*?let s = match self \{(.*?)\};", bf, re.S)
        return re.findall(r'Self::\w+ => "([a-z_]+)"\.to_string\(\)', m.group(1)) if m else []
    blocks, scoped = display_names("BlockFunctionKind"), display_names("BlockScopedFunctionKind")
    if not blocks or not scoped:
        errs.append("Display for BlockFunctionKind / BlockScopedFunctionKind")
    std = open(os.path.join(SRC, "runtime_builtin/rooc_std.rs")).read()
    m = re.search(r"pub fn make_std\(\).*?\n\}", std, re.S)
    fns = re.findall(r'"([A-Za-z_]+)"\.to_string\(\)', m.group(0)) if m else []
    m = re.search(r"pub fn make_std_constants\(\).*?\n\}", std, re.S)
    consts = re.findall(r'Constant::from_primitive\("([A-Za-z]+)"', m.group(0)) if m else []
    if not fns or not consts:
        errs.append("make_std / make_std_constants")
    nf = open(os.path.join(SRC, "runtime_builtin/functions/number_functions.rs")).read()
    m = re.search(r"pub const MAX_RANGE_SIZE: i64 = ([0-9_]+);", nf)
    if not m:
        errs.append("MAX_RANGE_SIZE")
    if errs:
        print("extractor could not re-read: " + "; ".join(errs))
        return 1
    lst = lambda xs: "[" + ", ".join(lstr(x) for x in xs) + "]"
    t = "/- GENERATED by tools/extract.py from reserved_tokens.rs, block_functions.rs, rooc_std.rs and number_functions.rs — do not edit. -/\nnamespace Rooc.Gen\n"
    t += "/-- the string literals inserted into `RESERVED_TOKEN` -/\n"
    t += f"def reservedTokenLiterals : List String := {lst(lits)}\n"
    t += "/-- `Display for BlockFunctionKind` (`kinds_to_string`) -/\n"
    t += f"def blockFunctionNames : List String := {lst(blocks)}\n"
    t += "/-- `Display for BlockScopedFunctionKind` -/\n"
    t += f"def scopedFunctionNames : List String := {lst(scoped)}\n"
    t += "/-- keys of `make_std()` -/\n"
    t += f"def stdFunctionNames : List String := {lst(fns)}\n"
    t += "/-- names of `make_std_constants()`, in order -/\n"
    t += f"def stdConstantNames : List String := {lst(consts)}\n"
    t += "/-- `MAX_RANGE_SIZE` -/\n"
    t += f"def maxRangeSize : Nat := {int(m.group(1).replace('_', ''))}\n"
    t += "end Rooc.Gen\n"
    write_if_changed(os.path.join(GEN, "PreConsts.lean"), t)
    return 0

def extract_linearizer():
    """names minted by the linearizer and the message templates of LinearizationError (C08)
    -> lean/Rooc/Gen/LinConsts.lean  [agent-c08proof]"""
    errs = []
    src = open(os.path.join(SRC, "transformers/linearizer.rs")).read()
    ids = ("var_name", "positive_name", "selector", "witness_name")
    # every `let <id> = ...` for the identifiers that are passed to declare_variable must be a format!("$..") literal
    fmts = []
    for m in re.finditer(r"let (var_name|positive_name|selector|witness_name) = (.*?);", src, re.S):
        f = re.fullmatch(r'format!\(\s*"([^"]*)"\s*(?:,[^;]*)?\)', m.group(2).strip(), re.S)
        if not f:
            errs.append("binding of %s is not a format! literal: %s" % (m.group(1), m.group(2)[:60]))
            continue
        if f.group(1) not in fmts:
            fmts.append(f.group(1))
    calls = [c for c in re.finditer(r"\.declare_variable\(\s*([A-Za-z_]+)(?:\.clone\(\))?\s*,", src)]
    for c in calls:
        if c.group(1) not in ids:
            errs.append("declare_variable called with an unexpected name expression: " + c.group(1))
    if not fmts or not calls:
        errs.append("auxiliary-name formats / declare_variable call sites")
    # Display for LinearizationError: the string literals of the write! calls, continuation lines joined
    m = re.search(r"impl Display for LinearizationError \{(.*?)\n\}\n", src, re.S)
    tmpls = []
    if m:
        for w in re.finditer(r'write!\(\s*f,\s*"((?:[^"\\]|\\.)*)"', m.group(1), re.S):
            t = re.sub(r"\\\n\s*", "", w.group(1))          # `\` + newline + indentation = continuation
            t = t.replace('\\"', '"')
            tmpls.append(t)
    if len(tmpls) != 7:
        errs.append("Display for LinearizationError: %d write! templates instead of 7" % len(tmpls))
    # the VALUES of the std constants (agent-pre's extract_pre pins their names): `Infinity` in a declared bound must be
    # the IEEE infinity for the missing-bounds contract of C08
    std = open(os.path.join(SRC, "runtime_builtin/rooc_std.rs")).read()
    mc = re.search(r"pub fn make_std_constants\(\).*?\n\}", std, re.S)
    consts = re.findall(r'Constant::from_primitive\("([A-Za-z]+)",\s*Primitive::Number\(([^()]*)\)\)', mc.group(0)) if mc else []
    if not consts:
        errs.append("make_std_constants values")
    if errs:
        print("extractor could not re-read: " + "; ".join(errs))
        return 1
    lst = lambda xs: "[" + ", ".join(lstr(x) for x in xs) + "]"
    t = "/- GENERATED by tools/extract.py from transformers/linearizer.rs — do not edit. -/\nnamespace Rooc.Gen\n"
    t += "/-- the `format!` literals bound to the identifiers handed to `declare_variable` (every auxiliary name) -/\n"
    t += f"def linAuxNameFormats : List String := {lst(fmts)}\n"
    t += "/-- the `write!` templates of `impl Display for LinearizationError`, in the order of the enum -/\n"
    t += f"def linErrorTemplates : List String := {lst(tmpls)}\n"
    t += "/-- `make_std_constants()` (rooc_std.rs): name and the Rust expression of the value -/\n"
    t += "def stdConstantValues : List (String × String) := [" + ", ".join(f"({lstr(a)}, {lstr(b.strip())})" for a, b in consts) + "]\n"
    t += "end Rooc.Gen\n"
    write_if_changed(os.path.join(GEN, "LinConsts.lean"), t)
    return 0

def main():
    errs = []
    # --- precedence / associativity tables of BinOp (math/operators.rs)
    ops = open(os.path.join(SRC, "math/operators.rs")).read()
    m = re.search(r"impl BinOp \{.*?pub fn precedence\(&self\) -> u8 \{\s*match self \{(.*?)\n        \}", ops, re.S)
    prec = {}
    if not m:
        errs.append("BinOp::precedence")
    else:
        for arm in re.finditer(r"((?:BinOp::\w+\s*\|?\s*)+)=>\s*(\d+)", m.group(1)):
            for name in re.findall(r"BinOp::(\w+)", arm.group(1)):
                prec[name] = int(arm.group(2))
    m = re.search(r"impl BinOp \{.*?pub fn is_left_associative\(&self\) -> bool \{\s*match self \{(.*?)\n        \}", ops, re.S)
    left = {}
    if not m:
        errs.append("BinOp::is_left_associative")
    else:
        for arm in re.finditer(r"((?:BinOp::\w+\s*\|?\s*)+)=>\s*(true|false)", m.group(1)):
            for name in re.findall(r"BinOp::(\w+)", arm.group(1)):
                left[name] = arm.group(2) == "true"
    names = ["Add", "Sub", "Mul", "Div", "And", "Or", "Xor", "Implies", "Iff"]
    if sorted(prec) != sorted(names) or sorted(left) != sorted(names):
        errs.append(f"BinOp tables incomplete: prec={sorted(prec)} left={sorted(left)}")
    # --- math_utils precision
    mu = open(os.path.join(SRC, "math/math_utils.rs")).read()
    m = re.search(r"const NEAR_ZERO_PRECISION: u8 = (\d+);", mu)
    if not m:
        errs.append("NEAR_ZERO_PRECISION")
    nzp = int(m.group(1)) if m else 5
    # --- bounds constants
    bo = open(os.path.join(SRC, "transformers/bounds.rs")).read()
    m1 = re.search(r"const DEFAULT_TOLERANCE: f64 = ([0-9eE\.\-_]+);", bo)
    m2 = re.search(r"const DEFAULT_MAX_STEPS: usize = ([0-9_]+);", bo)
    if not m1 or not m2:
        errs.append("bounds DEFAULT_TOLERANCE / DEFAULT_MAX_STEPS")
    # --- simplex constants (C14): phase-1 iteration limit, stall-limit formula  [added by agent-std]
    slm = open(os.path.join(SRC, "transformers/standard_linear_model.rs")).read()
    tab = open(os.path.join(SRC, "solvers/simplex/tableau.rs")).read()
    m3 = re.search(r"tableau\.solve_avoiding\((\d+), &artificial_variables\)", slm)
    m4 = re.findall(r"let stall_limit = \(self\.c\.len\(\) \+ self\.a\.len\(\)\) as i64 \+ (\d+);", tab)
    m5 = re.findall(r"let use_bland = stalls > stall_limit;", tab)
    if not m3 or len(m4) != 2 or len(set(m4)) != 1 or len(m5) != 2:
        errs.append("simplex phase-1 limit / stall_limit formula")
    # ratio test of find_t: tolerant ties (`if float_eq(ratio, min.1)` ... `else if float_lt(ratio, min.1)`) or
    # exact (`if ratio < min.1` ... `else if ratio == min.1`), see fixes/C14-ratio-test-exact.diff  [agent-std]
    ft = re.search(r"fn find_t\(.*?\n    \}\n", tab, re.S)
    ft = ft.group(0) if ft else ""
    tolerant = bool(re.search(r"if float_eq\(ratio, min\.1\) \{", ft)) and bool(re.search(r"\} else if float_lt\(ratio, min\.1\) \{", ft))
    exact = bool(re.search(r"if ratio < min\.1 \{", ft)) and bool(re.search(r"\} else if ratio == min\.1 \{", ft))
    if tolerant == exact:
        errs.append("find_t ratio test (neither / both of the two known shapes)")
    if errs:
        print("extractor could not re-read: " + "; ".join(errs))
        return 1
    t = "/- GENERATED by tools/extract.py from standard_linear_model.rs and tableau.rs — do not edit. -/\nnamespace Rooc.Gen\n"
    t += f"def phase1IterationLimit : Nat := {int(m3.group(1))}\n"
    t += f"/-- `stall_limit = c.len() + a.len() + stallLimitExtra`; Bland's rule once `stalls > stall_limit`. -/\n"
    t += f"def stallLimitExtra : Nat := {int(m4[0])}\n"
    t += "/-- `find_t`: `true` = exact ratio test (smaller ratio wins, Bland's index rule on EXACT ties only);\n"
    t += "`false` = ties within the tolerance (`float_eq`) go to the smaller basic index. -/\n"
    t += f"def ratioTestExact : Bool := {'true' if exact else 'false'}\n"
    t += "end Rooc.Gen\n"
    write_if_changed(os.path.join(GEN, "Simplex.lean"), t)
    low = lambda s: s[0].lower() + s[1:]
    t = "/- GENERATED by tools/extract.py from /repo/packages/rooc/src/math/operators.rs — do not edit. -/\n"
    t += "import Rooc.Exp\nnamespace Rooc.Gen\n"
    t += "def binPrec : BinOp → Nat\n" + "".join(f"  | .{low(n)} => {prec[n]}\n" for n in names)
    t += "def binLeftAssoc : BinOp → Bool\n" + "".join(f"  | .{low(n)} => {'true' if left[n] else 'false'}\n" for n in names)
    t += "end Rooc.Gen\n"
    write_if_changed(os.path.join(GEN, "Prec.lean"), t)
    t = "/- GENERATED by tools/extract.py from math_utils.rs and bounds.rs — do not edit. -/\nnamespace Rooc.Gen\n"
    t += f"def nearZeroPrecision : Nat := {nzp}\n"
    t += f"def boundsMaxSteps : Nat := {int(m2.group(1).replace('_',''))}\n"
    t += f"def boundsToleranceText : String := \"{m1.group(1)}\"\n"
    t += "end Rooc.Gen\n"
    write_if_changed(os.path.join(GEN, "Consts.lean"), t)
    rc = extract_syntax()
    if rc:
        return rc
    rc = extract_pipes()
    if rc:
        return rc
    rc = extract_pre()
    if rc:
        return rc
    rc = extract_linearizer()
    if rc:
        return rc
    # --- operator tables by runtime reflection through the harness (C18 / C19), see tools/gen_optables.py
    gen = os.path.join(ROOT, "tools", "gen_optables.py")
    if os.path.exists(gen):
        import subprocess
        p = subprocess.run([sys.executable, gen], capture_output=True, text=True)
        if p.returncode != 0:
            print("extractor could not re-read: operator tables (" + (p.stdout + p.stderr).strip()[-200:] + ")")
            return 1
    return 0

if __name__ == "__main__":
    sys.exit(main())
