#!/usr/bin/env python3
"""Prints the rule-level coverage of the last `./check C10` run (tags `rule:s:*` = arms of Exp::simplify,
`rule:f:*` = arms of Exp::flatten, computed by harness/src/props/c10.rs) and exits 1 if an arm has < 10 hits."""
import json, os, sys
root = os.path.dirname(os.path.dirname(os.path.abspath(__file__)))
ev = json.load(open(os.path.join(root, "evidence", "C10.json")))
d = {k: v for k, v in ev["coverage"]["distribution"].items() if k.startswith("rule:")}
low = 0
for k, v in sorted(d.items(), key=lambda kv: (kv[1], kv[0])):
    flag = "  <-- LOW" if v < 10 else ""
    low += v < 10
    print(f"{v:7d}  {k}{flag}")
print(f"{len(d)} rules, tier={ev['tier']} seed={ev['seed']}, min hits={min(d.values()) if d else 0}, below 10: {low}")
sys.exit(1 if low else 0)
