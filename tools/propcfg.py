"""Per-property configuration of ./check: one JSON file per property under tools/props/."""
import json, os
HERE = os.path.dirname(os.path.abspath(__file__))

TRUSTED_BASE = [
    "Lean 4.33 kernel; axioms propext, Classical.choice, Quot.sound only (audited with collectAxioms on every theorem of the property's namespace)",
    "the statements in lean/Rooc/Props and the semantics in lean/Rooc/Sem.lean (DESIGN.md appendix A)",
    "hand translation Rust -> Lean of the modelled functions, validated (not verified) by the correspondence run of this check",
    "IEEE-754 rounding and signed zero: theorems are over exact arithmetic with IEEE special values (Ext K)",
    "harness (Rust), ./check (Python), tools/extract.py",
]

PROPS = {}
for fn in sorted(os.listdir(os.path.join(HERE, "props"))):
    if fn.endswith(".json"):
        PROPS[fn[:-5]] = json.load(open(os.path.join(HERE, "props", fn)))
