#!/usr/bin/env python3
"""runs the whole seeded-change matrix in N parallel lanes and merges the lane files into seeded/matrix.json"""
import os, subprocess, sys, json, glob
ROOT="/verif"
fam={"C01":"C01,C02,C08","C02":"C02,C01","C03":"C03,C01","C04":"C04,C05","C05":"C05,C04","C06":"C06","C07":"C07,C01","C08":"C08,C01",
     "C09":"C09,C11","C10":"C10,C01","C11":"C11","C12":"C12","C13":"C13,C05","C14":"C14,C05","C15":"C15","C16":"C16","C17":"C17",
     "C18":"C18","C19":"C19","C20":"C20"}
seeds=sorted(d for d in os.listdir(ROOT+"/seeded") if os.path.isdir(ROOT+"/seeded/"+d))
if len(sys.argv)>2: seeds=[s for s in seeds if s in sys.argv[2:]]
N=int(sys.argv[1]) if len(sys.argv)>1 else 4
lanes=[[] for _ in range(N)]
for i,s in enumerate(seeds): lanes[i%N].append(s)
for f in glob.glob(ROOT+"/seeded/matrix-L*.json"): os.remove(f)  # stale lane file of an earlier run would override the merge
procs=[]
for k,l in enumerate(lanes):
    script="\n".join("python3 tools/seed_matrix.py %s %s" % (fam[s.split('-')[0]], s) for s in l)
    env=dict(os.environ, SEEDTEST_LANE="L%d"%k)
    procs.append(subprocess.Popen(["bash","-c",script], cwd=ROOT, env=env, stdout=open("/root/scratch/final_matrix_L%d.log"%k,"w"), stderr=subprocess.STDOUT))
for p in procs: p.wait()
m={}
m=json.load(open(ROOT+"/seeded/matrix.json"))
for f in glob.glob(ROOT+"/seeded/matrix-L*.json"):
    for k,v in json.load(open(f)).items():
        m.setdefault(k,{}).update(v)
json.dump(m, open(ROOT+"/seeded/matrix.json","w"), indent=1, sort_keys=True)
print("done", len(m))
