#!/usr/bin/env python3
"""Regenerates lean/Rooc.lean (the library root) as the sorted list of every module under lean/Rooc."""
import os
ROOT = os.path.dirname(os.path.dirname(os.path.abspath(__file__)))
mods = []
for d, _, fs in os.walk(os.path.join(ROOT, "lean", "Rooc")):
    for f in fs:
        if f.endswith(".lean"):
            rel = os.path.relpath(os.path.join(d, f), os.path.join(ROOT, "lean"))[:-5]
            mods.append(rel.replace(os.sep, "."))
open(os.path.join(ROOT, "lean", "Rooc.lean"), "w").write("".join(f"import {m}\n" for m in sorted(mods)))
print(len(mods), "modules")
