#!/usr/bin/env python3
"""tools/seedtest.py <patch.diff> <Cnn> [<Cnn> ...] : apply a seeded change to /repo, run the quick checks,
report which of them raised a VIOLATION, and restore /repo (git checkout -- .). Never commits to /repo."""
import subprocess, sys, os, json
ROOT = os.path.dirname(os.path.dirname(os.path.abspath(__file__)))
patch, props = sys.argv[1], sys.argv[2:]
def sh(cmd, **kw): return subprocess.run(cmd, capture_output=True, text=True, **kw)
st = sh(["git", "-C", "/repo", "status", "--porcelain"]).stdout.strip()
if st:
    print("refusing: /repo is not clean:\n" + st); sys.exit(2)
r = sh(["git", "-C", "/repo", "apply", "--3way", patch])
if r.returncode != 0:
    r = sh(["git", "-C", "/repo", "apply", patch])
    if r.returncode != 0:
        print("patch does not apply:", r.stderr[-400:]); sh(["git", "-C", "/repo", "checkout", "--", "."]); sys.exit(3)
res = {}
try:
    for p in props:
        o = sh([os.path.join(ROOT, "check"), p, "--tier", os.environ.get("SEED_TIER", "quick")], cwd=ROOT)
        viol = [l for l in o.stdout.splitlines() if l.startswith("VIOLATION")]
        why = [l for l in o.stdout.splitlines() if l.startswith("# ")]
        res[p] = {"rc": o.returncode, "violations": len(viol), "with_input": len([v for v in viol if "no-failing-input-found" not in v]),
                  "first": (why[0][:220] if why else ""), "tail": o.stdout.splitlines()[-1] if o.stdout else o.stderr[-200:]}
        print(p, json.dumps(res[p]))
finally:
    sh(["git", "-C", "/repo", "reset", "-q", "HEAD", "--", "."])
    sh(["git", "-C", "/repo", "checkout", "--", "."])
    sh(["git", "-C", "/repo", "clean", "-fdq", "packages/rooc/src", "packages/rooc/tests"])
print("RESULT", json.dumps(res))
