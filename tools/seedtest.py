#!/usr/bin/env python3
"""tools/seedtest.py <patch.diff> <Cnn> [<Cnn> ...]

Runs the quick checks against a seeded change WITHOUT touching /repo (other work may be using it): the change is
applied in a scratch worktree of /repo (/root/scratch/seedrepo) and the checks run from a scratch copy of /verif
(/root/scratch/seedverif) whose harness links that worktree (VERIF_REPO). Reports which checks raised a VIOLATION.
(The registered checks themselves always use /repo; this isolation is only for the detection experiments.)"""
import subprocess, sys, os, json
ROOT = os.path.dirname(os.path.dirname(os.path.abspath(__file__)))
# one scratch pair per checkout of /verif (agents run this from their own worktrees concurrently), serialised by a lock
_tag = ("" if ROOT == "/verif" else "-" + os.path.basename(ROOT)) + (("-" + os.environ["SEEDTEST_LANE"]) if os.environ.get("SEEDTEST_LANE") else "")
REPO2, VERIF2 = "/root/scratch/seedrepo" + _tag, "/root/scratch/seedverif" + _tag
import fcntl
_lock = open("/root/scratch/.seedtest%s.lock" % _tag, "w"); fcntl.flock(_lock, fcntl.LOCK_EX)
patch, props = os.path.abspath(sys.argv[1]), sys.argv[2:]
def sh(cmd, **kw): return subprocess.run(cmd, capture_output=True, text=True, **kw)
head = sh(["git", "-C", "/repo", "rev-parse", "HEAD"]).stdout.strip()
if not os.path.exists(REPO2):
    sh(["git", "-C", "/repo", "worktree", "add", "-q", "--detach", REPO2, head])
def clean():
    sh(["git", "reset", "-q", "--hard"], cwd=REPO2); sh(["git", "clean", "-fdq", "packages/rooc/src", "packages/rooc/tests"], cwd=REPO2)
clean()
sh(["git", "checkout", "-q", "--detach", head], cwd=REPO2)
os.makedirs(VERIF2, exist_ok=True)
sh(["rsync", "-a", "--delete", "--exclude", ".git", "--exclude", ".work", "--exclude", "replays", "--exclude", "harness/target", "--exclude", "lean/.lake",
    ROOT + "/", VERIF2 + "/"])
for d in ("lean/.lake", "harness/target"):
    if not os.path.exists(os.path.join(VERIF2, d)) and os.path.exists(os.path.join(ROOT, d)):
        sh(["cp", "-r", os.path.join(ROOT, d), os.path.join(VERIF2, d)])
ct = os.path.join(VERIF2, "harness", "Cargo.toml")
txt = open(os.path.join(ROOT, "harness", "Cargo.toml")).read().replace('path = "/repo/packages/rooc"', f'path = "{REPO2}/packages/rooc"')
open(ct, "w").write(txt)
r = sh(["git", "apply", "--3way", patch], cwd=REPO2)
if r.returncode != 0:
    r = sh(["git", "apply", patch], cwd=REPO2)
    if r.returncode != 0:
        print("patch does not apply:", r.stderr[-400:]); clean(); sys.exit(3)
res = {}
env = dict(os.environ, VERIF_REPO=REPO2)
try:
    for p in props:
        o = sh([os.path.join(VERIF2, "check"), p, "--tier", os.environ.get("SEED_TIER", "quick")], cwd=VERIF2, env=env)
        viol = [l for l in o.stdout.splitlines() if l.startswith("VIOLATION")]
        why = [l for l in o.stdout.splitlines() if l.startswith("# ")]
        res[p] = {"rc": o.returncode, "violations": len(viol), "with_input": len([v for v in viol if "no-failing-input-found" not in v]),
                  "first": (why[0][:220] if why else ""), "tail": o.stdout.splitlines()[-1] if o.stdout else o.stderr[-200:]}
        print(p, json.dumps(res[p]))
finally:
    clean()
print("RESULT", json.dumps(res))
