#!/usr/bin/env python3
"""tools/seed_matrix.py <Cnn,Cnn,...> [seed-dir ...] : runs every seeded change under /verif/seeded against the
given checks (quick tier) and writes /verif/seeded/matrix.json: which check catches which change, with or without a
concrete failing input. /repo is restored after every change."""
import json, os, subprocess, sys
ROOT = os.path.dirname(os.path.dirname(os.path.abspath(__file__)))
props = sys.argv[1].split(",")
seeds = sys.argv[2:] or sorted(d for d in os.listdir(os.path.join(ROOT, "seeded")) if os.path.isdir(os.path.join(ROOT, "seeded", d)))
path = os.path.join(ROOT, "seeded", "matrix%s.json" % (("-" + os.environ["SEEDTEST_LANE"]) if os.environ.get("SEEDTEST_LANE") else ""))
matrix = json.load(open(path)) if os.path.exists(path) else {}
for s in seeds:
    patch = os.path.join(ROOT, "seeded", s, "patch.rebased.diff")
    if not os.path.exists(patch):
        patch = os.path.join(ROOT, "seeded", s, "patch.diff")
    o = subprocess.run([sys.executable, os.path.join(ROOT, "tools", "seedtest.py"), patch] + props, capture_output=True, text=True)
    line = [l for l in o.stdout.splitlines() if l.startswith("RESULT ")]
    if not line:
        matrix.setdefault(s, {})["_error"] = o.stdout[-300:]
        print(s, "ERROR", o.stdout[-200:]); continue
    res = json.loads(line[0][7:])
    for p, r in res.items():
        matrix.setdefault(s, {})[p] = "input" if r["with_input"] else ("no-input" if r["violations"] else "miss")
    print(s, {p: matrix[s][p] for p in res})
    json.dump(matrix, open(path, "w"), indent=1, sort_keys=True)
