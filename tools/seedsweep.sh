#!/bin/bash
# multi-seed sweep of the quick tier on the unchanged tree: any VIOLATION here is a seed-dependent false alarm or a new finding
cd /verif
for s in 2 3 4 5 6 7; do for p in C01 C02 C03 C04 C05 C06 C07 C08 C09 C10 C11 C12 C13 C14 C15 C16 C17 C18 C19 C20; do
  out=$(./check $p --seed $s 2>&1 | grep -v "^KNOWN")
  echo "seed=$s $(echo "$out" | tail -1 | cut -c1-160)"
  echo "$out" | grep -E "^VIOLATION|^# " | head -4 | cut -c1-400
done; done
